"""C09 - evaluation has no side effects on host data, context or statement.

Oracle (on the real code alone), applied to EVERY evaluation this module performs:
  data     deep snapshot (structure + identity of every container node) of the host data before == after
  alias    no node of the finalised result is (`is`) a mutable node of the host data; then every mutable node of
           the result is scrambled and the host data is compared again
  context  snapshot of every context object reachable from the supplied one (`_data` keys/values, `_functions`,
           `_exclusive_funcs`, parent / member / link pointers, attribute names) before == after, except `$`
           (stored as `$1`) on the context `context['$'] = ..` writes to
  stmt     attribute snapshot of the parsed statement's expression tree before == after
  reuse    a statement re-evaluated on a shared context gives what a fresh parse on a fresh context gives for an
           equal (deep-copied) document
  trace    the context-API calls of the real evaluator write only to contexts it created (`NoHostWrite`)

Parts: `sweep` (every registered function x every position that admits a raw list / dict / set, nested values,
both yaql.convertInputData modes, function and method spellings, several lambdas), `pool` (statement / context
reuse; statements parsed by factory-built engines, by `engine.copy(options)` and by `engine(text, options=..)` of an
engine with the opposite conversion options that ran the text before), `ctx` (C17 forests incl. multi / linked
contexts: real trace replayed on the Lean model; evaluations through `Statement.evaluate` and through
`YaqlInterface(ctx, engine)(text, *args, **kwargs)` = `Effects.interfaceCall`), `conv` (the converters with
allocation identities: model vs real `is`-sharing), `yaqleval`, `provenance` (base engine x derived engine over the
4 x 4 combinations of convertInputData / convertOutputData, derived by copy / kept copy / per-call options / copy of a
copy, either one parsing the text first: every evaluation judged by the options of the engine the host USED),
`entry` (sessions of a host-built YaqlInterface around a plain / multi / linked context: calls with positional and
keyword parameters, function stubs, `on(..)`, item access, the host's own bindings, interleaved statement
evaluations; `yaql.create_context(data=..)`; full snapshots and history independence), `yaqlized`,
`regpool` (for EVERY registered function a pool of statements - documented examples, generated calls with every lambda
parameter varied over lambdas of all shapes - evaluated in random order, twice each, against ONE prepared context and compared
with a context made anew by `yaql.create_context()`: state hidden inside a registered function), `gagg`
(`queries.GroupAggregator` against Model/GroupAgg.lean)."""
import ast
import copy
import datetime
import itertools
import json
import os
import re
import signal
import struct
import sys
import time
import traceback
import zlib

import common
import pyfacts

import yaql
from yaql.language import contexts, exceptions as yexc, expressions, specs, utils, yaqltypes
from yaql.standard_library import queries as yqueries

from gens import limitfacts
from props import c10

ID = 'C09'
LEAN_MODULES = ['Yaql.Props.C09', 'Yaql.Props.C09Ctx', 'Yaql.Props.C09Eval', 'Yaql.Props.C09Gen', 'Yaql.Props.C09Reuse', 'Yaql.Props.EvalStore',
                'Yaql.Props.C09Store', 'Yaql.Props.EvalStoreRefine', 'Yaql.Props.EvalStoreRefineM',
                'Yaql.Props.EvalStoreRefineE']
REQUIRED_THEOREMS = ['Yaql.Props.C09.' + n for n in (
    'convert_input_fresh', 'convert_output_fresh', 'convert_output_no_alias_with_conversion_off',
    'output_conversion_off_aliases', 'convInI_erase', 'convOutI_erase',
    'frame', 'discipline_fresh', 'context_frame', 'only_dollar', 'only_dollar_reads', 'dollar_bound',
    'reeval', 'reeval_pool', 'context_clause_partial', 'interface_call_frame', 'interface_call_reads',
    'interface_history_independent', 'interface_probe_reads', 'eval_C09_full', 'eval_reeval_pool',
    'stmtOfEvalS_local', 'stmtOfEvalS_disciplined', 'evalS_C09_full', 'evalS_context_frame', 'evalS_only_dollar',
    'evalS_only_dollar_reads', 'evalS_reeval_pool', 'perCall_pool_independent', 'perCall_reeval', 'shared_harmless_newStyle',
    'shared_breaks_reuse')] + [
        'Yaql.Props.C09Gen.no_param_mutation', 'Yaql.Props.C09Gen.table_nonvacuous'] + ['Yaql.Props.EvalStore.' + n for n in (
            'log_disciplined', 'writes_fresh', 'store_prefix_unchanged', 'store_extends', 'statement_only_dollar',
            'sim_callMethod', 'sim_callFn', 'sim_eval', 'refines_eval', 'refines_eval_value', 'refines_run')]
TRUSTED = ['harness/gens/mutfacts.py: the AST scan that classifies in-place updates / attribute stores / global writes '
           'per payload parameter (labels, aliasing rules, copy constructors); cross-checked by the dynamic sweep',
           'the snapshot / identity walkers of harness/props/c09.py',
           'Model/Convert.lean is tied to the real converters by C10; ConvertId.lean adds identities and is tied here']
ASSUMPTIONS = ['aliasing is modelled with allocation identities carried by container nodes, not with a heap: the '
               'converters are pure functions of their argument in the model (absence of writes in the real code is '
               'C09Gen.no_param_mutation + the dynamic snapshot oracle)',
               'the store-level theorems (only_dollar, reeval_pool) take the evaluator as its sequence of context-API calls '
               'with the hypotheses Disciplined / Local; these are proved for the store-passing evaluator model '
               'Model/EvalStore.lean (mutable context cells; evalS_C09_full, from EvalStore.writes_fresh), which refines '
               'the C04 reference interpreter (refines_eval) and whose allocation / write log is compared with the '
               'instrumented real context classes on generated programs (props/evalstore.py); generators are run eagerly '
               'in that model (the real evaluator performs a prefix of the model\'s context tree when a consumer stops early)',
               'host documents are lists / dicts / sets (tuples, scalars) - the property\'s quantifier; generators, '
               'frozensets and dict views are wrapped lazily by convert_input_data (modelled, '
               'convert_input_lazy_holds_source) and are outside the no-alias claim',
               'yaql.convertOutputData off hands values out as they are (output_conversion_off_aliases): outside the claim; '
               'the engine that counts is the one the host used for the evaluation (a statement made by engine.copy(o) / '
               'engine(text, options=o) carries the merged options)',
               'YaqlInterface.__call__ is modelled as a host step over the context store (Effects.interfaceCall); its '
               'evaluator runs are step sequences with the NoHostWrite hypothesis like those of Statement.evaluate; the '
               'function stubs yi.f(..) and item access are covered dynamically only']


def generate():
    return pyfacts.run(['MutFacts'])['MutFacts']


# ====================================================================================== snapshots

def fkey(f):
    return struct.pack('>d', f).hex()


_ON_PATH = set()


def deep(v, path, nodes):
    """canonical structure of a host value; `nodes` collects (path, object) for every container object"""
    t = type(v)
    if v is None or t is bool or t is int or t is str:
        return (t.__name__, v)
    if t is float:
        return ('float', fkey(v))
    if id(v) in _ON_PATH or len(path) > 60:
        return ('cycle', t.__name__, id(v))          # a container that (now) contains itself
    _ON_PATH.add(id(v))
    try:
        return deep1(v, t, path, nodes)
    finally:
        _ON_PATH.discard(id(v))


def deep1(v, t, path, nodes):
    if t is list or t is tuple:
        nodes.append((path, v))
        return (t.__name__, tuple(deep(x, path + (i,), nodes) for i, x in enumerate(v)))
    if t is dict or t is utils.FrozenDict:
        nodes.append((path, v))
        return (t.__name__, tuple((deep(k, path + ('k%d' % i,), nodes), deep(x, path + (repr(k)[:20],), nodes))
                                  for i, (k, x) in enumerate(v.items())))
    if t is set or t is frozenset:
        nodes.append((path, v))
        return (t.__name__, frozenset(deep(x, path + ('e',), nodes) for x in v))
    d = getattr(v, '__dict__', None)
    if isinstance(d, dict) and not isinstance(v, type):
        nodes.append((path, v))
        return ('obj', t.__name__, tuple((k, deep(x, path + (k,), nodes) if isinstance(x, (list, dict, set, tuple, int, str,
                                                                                      float, bool, type(None)))
                                          else ('ref', type(x).__name__, id(x))) for k, x in sorted(d.items())))
    return ('opaque', t.__name__, repr(v)[:60])


class Snapshot:
    def __init__(self, value):
        self.nodes = []
        self.struct = deep(value, (), self.nodes)
        self.ids = tuple((p, id(o), type(o).__name__) for p, o in self.nodes)

    def diff(self, other):
        if self.struct != other.struct:
            return 'content changed: %s' % first_diff(self.struct, other.struct)
        if self.ids != other.ids:
            for a, b in zip(self.ids, other.ids):
                if a != b:
                    return 'the object at %s was replaced by another one' % (a[0],)
            return 'container objects were added / removed'
        return None


def first_diff(a, b, path='$'):
    if type(a) is not type(b) or not isinstance(a, tuple) or len(a) != len(b) or a[:1] != b[:1]:
        return '%s: %s -> %s' % (path, short(a), short(b))
    for i, (x, y) in enumerate(zip(a, b)):
        if x != y:
            if isinstance(x, tuple) and isinstance(y, tuple):
                return first_diff(x, y, path + '/%d' % i)
            return '%s: %s -> %s' % (path, short(a), short(b))
    return path


def short(x):
    s = repr(x)
    return s if len(s) < 160 else s[:157] + '...'


MUTABLE = (list, dict, set)


def walk_result(r, out, depth=0):
    """every container object of a finalised result"""
    if depth > 40:
        return
    t = type(r)
    if t in (list, tuple, set, frozenset):
        out.append(r)
        for x in r:
            walk_result(x, out, depth + 1)
    elif t is dict or t is utils.FrozenDict:
        out.append(r)
        for k, x in r.items():
            walk_result(k, out, depth + 1)
            walk_result(x, out, depth + 1)


SENT = '__c09_scrambled__'


def scramble(nodes):
    for n in nodes:
        try:
            if type(n) is list:
                del n[:]
                n.append(SENT)
            elif type(n) is dict:
                n.clear()
                n[SENT] = SENT
            elif type(n) is set:
                n.clear()
                n.add(SENT)
        except Exception:       # noqa
            pass


# ---- contexts

def ctx_objects(ctx):
    seen, todo, out = set(), [ctx], []
    while todo:
        c = todo.pop()
        if c is None or id(c) in seen or not isinstance(c, contexts.ContextBase):
            continue
        seen.add(id(c))
        out.append(c)
        todo.append(c.parent)
        todo.extend(getattr(c, '_context_list', ()) or ())
        todo.append(getattr(c, 'linked_context', None))
    return out


def ctx_snapshot(objs, cheap_ids=frozenset()):
    """{id(ctx): state}; contexts in `cheap_ids` (the big library layers) record values by identity only"""
    snap = {}
    for c in objs:
        st = dict(type=type(c).__name__, parent=id(c.parent) if c.parent is not None else None,
                  attrs=tuple(sorted(vars(c))), convention=id(getattr(c, '_convention', None)))
        if isinstance(c, contexts.Context):
            data = {}
            for k, v in c._data.items():
                nodes = []
                data[k] = (id(v), None if id(c) in cheap_ids else deep(v, (), nodes),
                           tuple(id(o) for _, o in nodes))
            st['data'] = data
            st['keys'] = tuple(c._data)
            st['functions'] = {n: frozenset(id(f) for f in s) for n, s in c._functions.items()}
            st['exclusive'] = frozenset(c._exclusive_funcs)
        elif isinstance(c, contexts.MultiContext):
            st['members'] = tuple(id(m) for m in c._context_list)
        elif isinstance(c, contexts.LinkedContext):
            st['linked'] = id(c.linked_context)
        snap[id(c)] = st
    return snap


def write_target(ctx):
    while not isinstance(ctx, contexts.Context):
        if isinstance(ctx, contexts.MultiContext):
            ctx = ctx._context_list[0]
        elif isinstance(ctx, contexts.LinkedContext):
            ctx = ctx.linked_context
        else:
            return None
    return ctx


def ctx_diff(before, after, target_id, bound):
    """None, or a description of a difference other than `$1` on the write target (`bound`: was data passed)"""
    if set(before) != set(after):
        return 'the set of reachable contexts changed'
    for cid, b in before.items():
        a = after[cid]
        for f in ('type', 'parent', 'attrs', 'convention', 'members', 'linked', 'exclusive'):
            if b.get(f) != a.get(f):
                return '%s of a %s changed: %s -> %s' % (f, b['type'], short(b.get(f)), short(a.get(f)))
        if 'data' not in b:
            continue
        if b['functions'] != a['functions']:
            names = [n for n in set(b['functions']) | set(a['functions']) if b['functions'].get(n) != a['functions'].get(n)]
            return 'functions of a context changed: %s' % sorted(names)[:5]
        bd, ad = dict(b['data']), dict(a['data'])
        bk, ak = list(b['keys']), list(a['keys'])
        if cid == target_id and bound:
            bd.pop('$1', None), ad.pop('$1', None)
            bk = [k for k in bk if k != '$1']
            ak = [k for k in ak if k != '$1']
        if bk != ak:
            return 'variables of a context changed: %s -> %s' % (bk, ak)
        for k in bd:
            if bd[k] != ad[k]:
                return 'the value of %s in a context changed' % k
    return None


# ---- statement

def expr_snapshot(e, depth=0):
    if depth > 60:
        return 'deep'
    if isinstance(e, expressions.Expression):
        return (type(e).__name__, tuple((k, expr_snapshot(v, depth + 1)) for k, v in sorted(vars(e).items())
                                         if k != 'engine'))
    if isinstance(e, (tuple, list)):
        return (type(e).__name__, tuple(expr_snapshot(x, depth + 1) for x in e))
    if e is None or isinstance(e, (bool, int, float, str)):
        return (type(e).__name__, repr(e))
    return ('ref', type(e).__name__, id(e))


# ====================================================================================== the real side

class Timeout(BaseException):
    pass


def _alarm(signum, frame):
    raise Timeout()


class World:
    """engines for both conversion modes, the library context with counting payload wrappers"""

    def __init__(self):
        self.factory = yaql.YaqlFactory()
        reg, self.root = limitfacts.registry()
        self.reg = dict(reg)
        self.hits = {}
        self.raw_hits = {}
        self.host_ids = {}
        for key, fd in reg:
            fd.payload = self._wrap(key, fd.payload)
        self.engines = {}
        self.parsed = {}
        def host_finalizer(x):
            return x
        # a library context WITHOUT `#finalize` (the case the fallback of Statement.__call__ exists for)
        self.bare = yaql.create_context(finalizer=host_finalizer)
        self.lib_ids = frozenset(id(c) for c in ctx_objects(self.root) + ctx_objects(self.bare))

    def _wrap(self, key, orig):
        hits, raw_hits, world = self.hits, self.raw_hits, self

        def payload(*a, **k):
            hits[key] = hits.get(key, 0) + 1
            ids = world.host_ids
            if ids:
                for x in itertools.chain(a, k.values()):
                    if id(x) in ids and type(x) in MUTABLE:
                        raw_hits[key] = raw_hits.get(key, 0) + 1
                        break
            return orig(*a, **k)
        payload.__wrapped_payload__ = orig
        return payload

    def engine(self, conv_in, conv_out=True, t2l=True, s2l=False, lim=100):
        key = (conv_in, conv_out, t2l, s2l, lim)
        if key not in self.engines:
            opts = {'yaql.convertInputData': conv_in, 'yaql.memoryQuota': 4000000}
            if lim is not None:
                opts['yaql.limitIterators'] = lim
            if not conv_out:
                opts['yaql.convertOutputData'] = False
            if (t2l, s2l) != (True, False):
                opts['yaql.convertTuplesToLists'] = t2l
                opts['yaql.convertSetsToLists'] = s2l
            self.engines[key] = self.factory.create(options=opts)
        return self.engines[key]

    def parse(self, text, **eo):
        eng = self.engine(**eo)
        k = (id(eng), text)
        st = self.parsed.get(k)
        if st is None:
            st = eng(text)
            if len(self.parsed) < 50000:
                self.parsed[k] = st
        return st

    def run(self, st, data, ctx, timeout=2.0):
        return self.call(lambda: st.evaluate(data=data, context=ctx), timeout)

    def call(self, fn, timeout=2.0):
        signal.signal(signal.SIGALRM, _alarm)
        signal.setitimer(signal.ITIMER_REAL, timeout)
        try:
            try:
                return ('ok', fn())
            finally:
                signal.setitimer(signal.ITIMER_REAL, 0)
        except Timeout:
            return ('err', 'Timeout')
        except RecursionError:
            return ('err', 'RecursionError')
        except Exception as e:      # noqa
            return ('err', type(e).__name__)


def host_chain(root, hv, hostvars=None):
    """a 3-layer chain the host prepared: variables (some hold mutable containers), a host function, an exclusive name"""
    l1 = root.create_child_context()
    l1['hostList'] = hv
    for k, v in (hostvars or {}).items():
        l1[k] = v
    l1['n'] = 7

    def host_fn(x):
        return x
    l1.register_function(host_fn, name='hostFn')
    l2 = l1.create_child_context()
    l2['m'] = 'mid'
    l2.register_function(lambda: 1, name='excl', exclusive=True)
    l3 = l2.create_child_context()
    l3['top'] = 3
    return l3


def observe(world, text, data, mode, make_ctx=None, bound=True, eopts=None, bare=False, st=None):
    """one evaluation with every oracle around it.  Returns (outcome, [(key, what)]).
    `st`: a statement the caller obtained some other way (engine.copy, per-call options, ...); `eopts['conv_out']` then
    says whether the engine the host USED has output conversion on."""
    fails = []
    eo = dict(conv_in=mode)
    eo.update(eopts or {})
    try:
        if st is None:
            st = world.parse(text, **eo)
    except Exception as e:      # noqa
        return ('err', 'parse:' + type(e).__name__), fails
    hv = [1, [2, 3], {'k': [4]}]
    root = world.bare if bare else world.root
    hostvars = None
    if isinstance(data, dict) and any(isinstance(k, str) and re.fullmatch(r'v\d+', k) for k in data):
        # values the host keeps in variables of its context: they reach the functions raw in BOTH conversion modes
        hostvars = {k: v for k, v in data.items() if re.fullmatch(r'v\d+', k)}
    ctx = make_ctx(root, hv) if make_ctx else host_chain(root, hv, hostvars)
    objs = ctx_objects(ctx)
    before = Snapshot(data)
    hv_before = Snapshot(hv)
    world.host_ids = {id(o): p for p, o in before.nodes if type(o) in MUTABLE}
    for p, o in hv_before.nodes:
        if type(o) in MUTABLE:
            world.host_ids[id(o)] = ('$hostList',) + p
    cb = ctx_snapshot(objs, world.lib_ids)
    sb = expr_snapshot(st.expression)
    tgt = write_target(ctx)
    out = world.run(st, data if bound else utils.NO_VALUE, ctx)
    d = before.diff(Snapshot(data)) or hv_before.diff(Snapshot(hv))
    if d:
        fails.append(('data-mutated', 'host data changed by the evaluation: ' + d))
    d = ctx_diff(cb, ctx_snapshot(ctx_objects(ctx), world.lib_ids), id(tgt) if tgt is not None else None, bound)
    if d:
        fails.append(('context-changed', d))
    elif len(ctx_objects(ctx)) != len(objs):
        fails.append(('context-changed', 'the chain of the supplied context changed'))
    if expr_snapshot(st.expression) != sb:
        fails.append(('statement-changed', 'the parsed statement carries new state after the evaluation: %s' %
                      first_diff(sb, expr_snapshot(st.expression))))
    world.last_canon = deep(out[1], (), []) if out[0] == 'ok' else None       # the result before it is scrambled below
    try:
        world.last_out = (out[0], copy.deepcopy(out[1]))
    except Exception:       # noqa - an iterator
        world.last_out = (out[0], repr(out[1]))
    if out[0] == 'ok' and eo.get('conv_out', True) and not bare:       # without a finaliser values are handed out as they are
        nodes = []
        walk_result(out[1], nodes)
        for n in nodes:
            if type(n) in MUTABLE and id(n) in world.host_ids:
                fails.append(('result-aliases-host', 'a %s of the result IS the host object at %s' % (
                    type(n).__name__, world.host_ids[id(n)])))
                break
        else:
            scramble(nodes)
            d = before.diff(Snapshot(data)) or hv_before.diff(Snapshot(hv))
            if d:
                fails.append(('result-aliases-host', 'changing the result changed the host data: ' + d))
    world.host_ids = {}
    return out, fails


# ====================================================================================== sweep generation

VALUES = {
    'list_int': lambda: [3, 1, 2],
    'list_nested': lambda: [[1, 2], [3], []],
    'list_dicts': lambda: [{'a': [1, 2], 'b': 1}, {'a': [3], 'b': 2}],
    'list_str': lambda: ['b', 'a', 'b'],
    'list_sets': lambda: [{1, 2}, {3}],
    'list_pairs': lambda: [['a', [1]], ['b', [2]]],
    'list_deep': lambda: [[[1], [2, [3]]], [{'x': [[4]]}]],
    'dict_flat': lambda: {'a': 1, 'b': 2},
    'dict_nested': lambda: {'a': [1, [2, 3]], 'b': {'c': [4], 'd': {'e': []}}},
    'dict_lists': lambda: {'a': [1, 2], 'b': [3]},
    'set_int': lambda: {1, 2, 3},
    'set_str': lambda: {'a', 'b'},
    'set_tuples': lambda: {(1, 2), (3,)},
    'fill_list': lambda: [7, [8]],
    'fill_dict': lambda: {'p': 0, 'q': [9]},
    'fill_set': lambda: {8, 9},
    'list_one': lambda: [[5]],
    'list_empty': lambda: [],
    'dict_empty': lambda: {},
    'dict_intkeys': lambda: {1: [1], 2: {'x': [2]}},
    'list_mixed': lambda: [1, 'a', None, [2, 'b'], {'k': [3]}],
    'list_tuples': lambda: [(1, [2]), ([3], {'k': [4]})],
    'dict_tuples': lambda: {'a': ([1], 2), 'b': ({'c': [3]},)},
    'tuple_lists': lambda: ([1, 2], [3], {'k': [4]}),
}
SCALARS = {
    'one': lambda: 1, 'zero': lambda: 0, 'two': lambda: 2, 'neg': lambda: -1, 'true': lambda: True,
    'str_a': lambda: 'a', 'str_ab': lambda: 'a b', 'float': lambda: 1.5, 'none': lambda: None,
    'dt': lambda: datetime.datetime(2020, 1, 2, 3, 4, 5, tzinfo=datetime.timezone.utc),
    'td': lambda: datetime.timedelta(hours=1),
    'regex': lambda: re.compile('a+'),
}
LAMBDAS = ['$', 'true', '$1', '[$]']
PYNS = dict(datetime=datetime, re=re, set=set, frozenset=frozenset)


def pyrepr(v):
    return repr(v)


def visible(fd):
    pos = sorted(((p.position, n, p) for n, p in fd.parameters.items()
                  if n not in ('*', '**') and p.position is not None
                  and not isinstance(p.value_type, yaqltypes.HiddenParameterType)), key=lambda t: t[0])
    kw = [(n, p) for n, p in fd.parameters.items()
          if n not in ('*', '**') and p.position is None and not isinstance(p.value_type, yaqltypes.HiddenParameterType)]
    return [(n, p) for _, n, p in pos], kw


def passes(vt, v, ctx, engine):
    try:
        return bool(vt.check(v, ctx, engine))
    except Exception:       # noqa
        return False


class Plan:
    """how to spell the arguments of one FunctionDefinition"""

    def __init__(self, world, key, fd):
        self.key, self.fd = key, fd
        self.pos, self.kw = visible(fd)
        self.var = fd.parameters.get('*')
        self.varkw = fd.parameters.get('**')
        eng = world.engine(conv_in=False)
        self.admits = {}        # param name -> [value names] (raw mutable containers passing the live type check)
        self.filler = {}        # param name -> ('data', factory) | ('text', text)
        for n, p in self.pos + self.kw + ([('*', self.var)] if self.var else []) + ([('**', self.varkw)] if self.varkw else []):
            vt = p.value_type
            if isinstance(vt, yaqltypes.Lambda):
                self.filler[n] = ('lambda', None)
            elif isinstance(vt, yaqltypes.Keyword):
                self.filler[n] = ('text', 'a')
            elif isinstance(vt, yaqltypes.StringConstant):
                self.filler[n] = ('text', "'a'")
            elif isinstance(vt, yaqltypes.NumericConstant):
                self.filler[n] = ('text', '1')
            elif isinstance(vt, yaqltypes.BooleanConstant):
                self.filler[n] = ('text', 'true')
            elif isinstance(vt, yaqltypes.Constant):
                self.filler[n] = ('text', '1')
            elif isinstance(vt, yaqltypes.YaqlExpression):
                self.filler[n] = ('text', 'len()')
            elif isinstance(vt, yaqltypes.MappingRule):
                self.filler[n] = ('rule', None)
                self.admits[n] = list(VALUES)
            else:
                adm = [name for name, mk in VALUES.items()
                       if passes(vt, mk(), world.root, eng) or passes(vt, utils.convert_input_data(mk()), world.root, eng)]
                if adm:
                    self.admits[n] = adm
                fill = None
                # a position that admits scalars gets a scalar by default (keys, indexes, values); the container
                # variants come from `fills` in sweep_cases
                order = ['one', 'str_a', 'true', 'float', 'dt', 'td', 'regex', 'none']
                self.scalars = getattr(self, 'scalars', {})
                self.scalars[n] = [x for x in ('one', 'str_a', 'zero', 'none') if passes(vt, SCALARS[x](), world.root, eng)]
                for s in order:
                    if passes(vt, SCALARS[s](), world.root, eng):
                        fill = ('data', SCALARS[s])
                        break
                if fill is None and adm:
                    pref = [f for f in ('fill_list', 'fill_dict', 'fill_set') if f in adm]
                    fill = ('data', VALUES[pref[0] if pref else adm[0]])
                if fill is None and isinstance(vt, yaqltypes.Iterator):
                    fill = ('iter', VALUES['list_int'])
                    self.admits[n] = ['list_int', 'list_nested', 'list_dicts']
                self.filler[n] = fill or ('data', SCALARS['one'])


def spell(fd, args, kwargs, method):
    """expression text for a call of `fd.name` with argument texts"""
    name = fd.name
    allargs = list(args) + ['%s => %s' % kv for kv in kwargs]
    if name in ('#operator_.', '#operator_?.') and len(args) == 2:
        return '%s%s%s' % (args[0], name[len('#operator_'):], args[1])
    if name.startswith('#operator_') and len(args) == 2:
        return '(%s %s %s)' % (args[0], name[len('#operator_'):], args[1])
    if name.startswith('#unary_operator_') and len(args) == 1:
        return '(%s %s)' % (name[len('#unary_operator_'):], args[0])
    if name == '*equal' and len(args) == 2:
        return '(%s = %s)' % tuple(args)
    if name == '*not_equal' and len(args) == 2:
        return '(%s != %s)' % tuple(args)
    if name == '#indexer' and args:
        return '%s[%s]' % (args[0], ', '.join(args[1:]))
    if name == '#list':
        return '[%s]' % ', '.join(args)
    if name == '#map':
        return '{%s}' % ', '.join(args)
    if name.startswith('#property#') and len(args) == 1:
        return '%s.%s' % (args[0], name[len('#property#'):])
    if name.startswith('#') or name.startswith('*'):
        return None
    if method:
        if not args:
            return None
        return '%s.%s(%s)' % (args[0], name, ', '.join(allargs[1:]))
    return '%s(%s)' % (name, ', '.join(allargs))


OVERLAP = {'list': 'list_str', 'dict': 'dict_flat', 'set': 'set_str'}


def build_case(plan, target, vname, lam, method, variant, fill=None, source='data', lams=None):
    """(text, data factory) for one sweep case, or None.  `fill`: {param: value name} for the other collection
    positions; `source`: the values travel in the data (`$.aN`) or in variables of the host's context (`$vN`);
    `lams`: lambda texts for the lambda parameters in order (then `lam` is the default for the rest)"""
    fd = plan.fd
    data = {}
    args, kwargs = [], []
    fill = fill or {}
    lams = list(lams or [])

    def slot(mk, kind='data'):
        if source == 'var':
            k = 'v%d' % len(data)
            data[k] = mk
            return '$%s.select($)' % k if kind == 'iter' else '$%s' % k
        k = 'a%d' % len(data)
        data[k] = mk
        return '$.%s.select($)' % k if kind == 'iter' else '$.%s' % k

    def text_for(n, p):
        if n == target:
            kind, _ = plan.filler[n]
            if kind == 'rule':
                return '1 => ' + slot(VALUES[vname])
            if variant == 'lazy' or kind == 'iter':
                return slot(VALUES[vname], 'iter')
            return slot(VALUES[vname])
        kind, x = plan.filler[n]
        if kind == 'lambda':
            return lams.pop(0) if lams else lam
        if kind == 'text':
            return x
        if kind == 'rule':
            return '1 => 2'
        if n in fill:
            return slot(VALUES[fill[n]] if fill[n] in VALUES else SCALARS[fill[n]], kind)
        return slot(x, kind)

    names = [n for n, _ in plan.pos]
    last = max([i for i, (n, p) in enumerate(plan.pos)
                if p.default is specs.NO_DEFAULT or n == target or isinstance(p.value_type, yaqltypes.Lambda)] + [-1])
    for i, (n, p) in enumerate(plan.pos):
        if i > last:
            break
        args.append(text_for(n, p))
    if target == '*':
        for i in range(len(args), len(plan.pos)):
            args.append(text_for(*plan.pos[i]))
        args.append(text_for('*', plan.var))
        if variant != 'single':
            args.append(slot(VALUES['list_int']) if plan.filler['*'][0] != 'rule' else '2 => 3')
    for n, p in plan.kw:
        if n == target or p.default is specs.NO_DEFAULT:
            kwargs.append((p.alias or n, text_for(n, p)))
    if target == '**':
        kwargs.append(('extra', slot(VALUES[vname])))
    text = spell(fd, args, kwargs, method)
    if text is None:
        return None
    return text, data


HAND = [
    # functions whose names cannot be spelled generically: the core forms, on host data of every shape
    ('$', None), ('$.a0', None), ('$.a0.len()', None), ('$.a0?.len()', None), ('$?.a0', None),
    ('let(x => $.a0) -> $x', None), ('let($.a0) -> [$1, $1]', None), ('with($.a0, $.a0) -> [$1, $2]', None),
    ('$.a0.unpack() -> [$1]', 'seq'), ('[$.a0, $.a0]', None), ('{k => $.a0}', None), ('{k => $.a0}.k', None),
    ('def(f, $ ) -> f($.a0)', None), ('call(len, [$.a0], {})', None), ('call(len, [], {collection => $.a0})', 'seq'),
    ('$.a0.select($)', 'seq'), ('$.a0.where(true)', 'seq'), ('$.a0.toList()', 'seq'), ('list($.a0)', None),
    ('$.a0.orderBy($).thenBy($)', 'seq'), ('$.a0.orderByDescending($).thenByDescending($)', 'seq'),
    ('$.a0.items()', 'dict'), ('$.a0.keys()', 'dict'), ('$.a0.values()', 'dict'), ('dict($.a0.items())', 'dict'),
    ('$.a0.toSet()', 'seq'), ('set($.a0)', None), ('$hostList', None), ('$hostList + $.a0', 'seq'),
    ('hostFn($.a0)', None), ('hostFn($hostList)', None), ('[$.a0].flatten()', None), ('let(a => $.a0, b => $) -> [$a, $b.a0]', None),
]


def sweep_cases(world, rng, tier, focus):
    plans = {}
    cases = []
    base_values = list(VALUES)
    nvals = 6 if tier == 'quick' else 30
    for key, fd in sorted(world.reg.items()):
        try:
            plan = plans[key] = Plan(world, key, fd)
        except Exception:       # noqa
            continue
        mult = 4 if key in focus else 1
        targets = [n for n in plan.admits]
        spellings = ([False] if fd.is_function else []) + ([True] if fd.is_method else [])
        for target in targets:
            adm = plan.admits[target]
            picks = adm if len(adm) <= nvals * mult else rng.sample(adm, nvals * mult)
            has_lambda = any(k == 'lambda' for k, _ in plan.filler.values() if k)
            lams = (LAMBDAS if has_lambda else ['$'])
            if tier == 'quick' and has_lambda and key not in focus:
                lams = [LAMBDAS[0], rng.choice(LAMBDAS[1:])]
            rand = [random_value(rng, adm) for _ in range(2 if tier == 'quick' else 6)]
            others = [n for n in plan.admits if n != target and plan.filler.get(n, (None,))[0] == 'data']
            fills = [None]
            if others:
                # the other positions that admit containers: the default (a scalar where the type admits one), the
                # string 'a' (a key that exists in the dict shapes), containers overlapping with the target's values,
                # containers disjoint from them
                fills = [None,
                         {n: ('str_a' if 'str_a' in plan.scalars.get(n, ()) else plan.admits[n][0]) for n in others},
                         {n: next((OVERLAP[k] for k in ('list', 'dict', 'set') if OVERLAP[k] in plan.admits[n]),
                                  plan.admits[n][0]) for n in others},
                         {n: next((f for f in ('fill_list', 'fill_dict', 'fill_set') if f in plan.admits[n]),
                                  plan.admits[n][0]) for n in others}]
                if key in focus:
                    for _ in range(40):
                        fills.append({n: rng.choice(plan.admits[n]) for n in others})
            for vname in picks + [r for r in rand if r]:
                for method in spellings:
                    for lam in lams:
                        variants = ['plain']
                        if isinstance(fd.parameters[target].value_type, yaqltypes.Iterable) and rng.random() < 0.5:
                            variants.append('lazy')
                        for variant in variants:
                            for fill in fills:
                                source = 'var' if rng.random() < 0.15 else 'data'
                                c = build_case(plan, target, vname, lam, method, variant, fill, source)
                                if c is None:
                                    continue
                                text, data = c
                                for mode in (True, False):
                                    cases.append(dict(part='sweep', fn=key, target=target, value=vname, text=text,
                                                      data=data, mode=mode, opts=pick_opts(rng)))
    for text, shape in HAND:
        for vname in base_values:
            if shape == 'seq' and not vname.startswith(('list', 'set')):
                continue
            if shape == 'dict' and not vname.startswith('dict'):
                continue
            for mode in (True, False):
                cases.append(dict(part='sweep', fn='<hand>', target='a0', value=vname, text=text,
                                  data={'a0': VALUES[vname]}, mode=mode, opts=pick_opts(rng)))
    return cases, plans


def pick_opts(rng):
    """(convertTuplesToLists, convertSetsToLists): mostly the defaults"""
    return [True, False] if rng.random() < 0.6 else rng.choice([[False, False], [True, True], [False, True]])


def random_value(rng, adm):
    """a seeded random nested document of a kind the position admits; registered under a new name in VALUES"""
    kinds = sorted({a.split('_')[0] for a in adm} & {'list', 'dict', 'set'})
    if not kinds:
        return None
    kind = rng.choice(kinds)

    def sc():
        return rng.choice([0, 1, 2, -1, 5, 'a', 'b', 'xy', None, True, 1.5])

    def gen(k, depth):
        n = rng.choice([0, 1, 2, 3, 4])
        if k == 'set':
            return {rng.choice([0, 1, 2, 5, 'a', 'b', (1, 2)]) for _ in range(n)}
        def item():
            if depth <= 0 or rng.random() < 0.5:
                return sc()
            return gen(rng.choice(['list', 'list', 'dict', 'set']), depth - 1)
        if k == 'list':
            return [item() for _ in range(n)]
        return {rng.choice(['a', 'b', 'c', 'k', 1]): item() for _ in range(n)}
    v = gen(kind, 3)
    name = '%s_rnd%d' % (kind, len(VALUES))
    VALUES[name] = lambda v=v: copy.deepcopy(v)
    return name


SIMPLER = {list: [[], [1], ['a'], [[1]], [2, 1], [{'a': 1}], [[1], [2]]],
           dict: [{}, {'a': 1}, {'a': [1]}, {'a': {'b': 1}}, {'a': 1, 'b': 2}],
           set: [set(), {1}, {'a'}, {1, 2}],
           tuple: [(), ([1],)]}


def shrink_sweep(world, c, key, bare):
    """smaller data / default options on which the same oracle still fails"""
    data = materialise(c['data'])
    opts = list(c['opts'])

    def fails_with(d, o, b):
        out, fails = observe(world, c['text'], copy.deepcopy(d), c['mode'], bare=b, eopts=dict(t2l=o[0], s2l=o[1]))
        for k, what in fails:
            if k == key:
                return what
        return None
    what = fails_with(data, opts, bare)
    if what is None:
        return data, opts, bare, 'not reproducible on a second run'
    if opts != [True, False] and fails_with(data, [True, False], bare):
        opts = [True, False]
    if bare and fails_with(data, opts, False):
        bare = False
    for slot in sorted(data):
        for cand in SIMPLER.get(type(data[slot]), []):
            if len(repr(cand)) >= len(repr(data[slot])):
                continue
            trial = dict(data)
            trial[slot] = cand
            if fails_with(trial, opts, bare):
                data = trial
                break
    return data, opts, bare, fails_with(data, opts, bare) or what


def materialise(data):
    return {k: mk() for k, mk in data.items()}


# ====================================================================================== pools (reuse)

POOL = [
    '$', '$.a', '$.a.len()', '$.a.select($)', '$.a.where($ != null)', '$.a.orderBy($)', '$.a.orderBy($).thenBy($)',
    '$.a.reverse()', '$.a.insert(0, 9)', '$.a.insert(1, $.a)', '$.a + $.a', '$.a.toSet()', '$.a.distinct()',
    'let(x => $.a) -> $x', 'let(x => $.a, y => 1) -> [$x, $y, $]', 'with($.a) -> $1', '$.a.unpack() -> $1',
    'def(f, $ ) -> f($.a)', 'def(len, 0) -> len($.a)', '$.d.set(z, $.a)', '$.d.set($.d)', '$.d.delete(a)', '$.d + $.d',
    '$.d.mergeWith($.d)', '$.d.keys()', '$.d.values()', '$.d.items()', '$.d.get(a)', '$.d.a', '$.d.len()', 'len($.a)',
    '$.a.aggregate($1 + 1, 0)', '$.a.select([$, $]).flatten()', '$.a.groupBy($)', '$.a.first(null)', '$.a.sum(0)',
    '$hostList', '$hostList.len()', '$hostList + $.a', '$n + 1', 'hostFn($.a)', '[$top, $m, $n]', '$.a.len() + $.d.len()',
    '$.a.any($ = 1)', '$.a.indexOf(1)', '$.a.take(2)', '$.a.skip(1)', '$.a.append(1)', '$.a.contains(1)',
    '$.d.containsKey(a)', '$.d.toList()', '$.a.zip($.a)', '$.a.limit(1)', '$.a.toList().set(0, 5)',
    '$.a.replace(0, 7)', '$.a.delete(0)', '$.a.join($.a, true, [$1, $2]).len()', '$.a.select($).len()',
    'len($.a.select($))', '$.a.where(true).count()', '$.a.select($).toList()', '$.d.values().len()', '$.a.len() + $hostList.len()',
]
POOL_DATA = [
    lambda: {'a': [3, 1, 2], 'd': {'a': 1, 'b': [2]}},
    lambda: {'a': [1], 'd': {'a': [1, 2], 'c': {'x': 1}}},
    lambda: {'a': [], 'd': {}},
    lambda: {'a': [2, 2, 1, 5], 'd': {'a': 2, 'z': 0}},
    lambda: {'a': [[1], [2, 3]], 'd': {'a': {'k': [1]}}},
]


def canon_result(r, loose=False):
    """comparable form of a finalised result (sets unordered; `loose`: lists too - with convertSetsToLists a set is
    handed out as a list in the set's unspecified iteration order)"""
    d = deep(r, (), [])
    return loosen(d) if loose else d


def loosen(d):
    if isinstance(d, tuple) and d and d[0] == 'list':
        return ('list', tuple(sorted((loosen(x) for x in d[1]), key=repr)))
    if isinstance(d, tuple):
        return tuple(loosen(x) for x in d)
    if isinstance(d, frozenset):
        return frozenset(loosen(x) for x in d)
    return d


def run_pool(world, res, rng, tier, hist):
    rounds = 8 if tier == 'quick' else 60
    for rd in range(rounds):
        mode = bool(rd % 2)
        t2l, s2l = pick_opts(rng)
        hv = [1, [2, 3]]
        shared = host_chain(world.root, hv)
        texts = list(POOL)
        stmts = {}
        target = world.engine(conv_in=mode, t2l=t2l, s2l=s2l)
        # where the engine comes from: built by the factory, or derived - engine.copy(options) / engine(text, options=..) -
        # from a base engine with the OPPOSITE conversion options that parsed (and ran) the same text before
        other = world.engine(conv_in=not mode, conv_out=bool(rd % 4 < 2), t2l=not t2l, s2l=not s2l)
        dopts = dict(target.options)
        dopts.setdefault(CO, True)
        dopts.setdefault('yaql.convertTuplesToLists', True)
        dopts.setdefault('yaql.convertSetsToLists', False)
        for t in texts:
            try:
                via = (zlib.crc32(t.encode()) + rd) % 3
                hist['pool-statement-via-' + ['factory', 'copy', 'percall'][via]] = hist.get(
                    'pool-statement-via-' + ['factory', 'copy', 'percall'][via], 0) + 1
                if via == 0:
                    stmts[t] = target(t)       # one parse per statement, reused below
                else:
                    world.run(other(t), POOL_DATA[0](), host_chain(world.root, [1, [2, 3]]))
                    stmts[t] = other.copy(dopts)(t) if via == 1 else other(t, options=dopts)
            except Exception:   # noqa
                pass
        docs = [mk() for mk in POOL_DATA]       # host documents that live across evaluations
        fresh_engine = yaql.YaqlFactory().create(options=dict(world.engine(conv_in=mode, t2l=t2l, s2l=s2l).options))
        objs = ctx_objects(shared)
        cb = ctx_snapshot(objs, world.lib_ids)
        steps = []
        order = list(stmts) * 2
        rng.shuffle(order)
        for t in order:
            di = rng.randrange(len(docs))
            r = rng.random()
            if r < 0.25:
                # the host changes its own document in place between evaluations (same object, new content)
                docs[di]['a'].append(rng.choice([0, 1, 7]))
                steps.append(('host-append', di))
            elif r < 0.35:
                docs[di] = POOL_DATA[di]()      # a new object with the original content
                steps.append(('host-new', di))
            on_child = rng.random() < 0.3
            ctx = shared.create_child_context() if on_child else shared
            data = docs[di]
            if rng.random() < 0.3:
                # back to back: the same document object is evaluated, changed in place by the host, and evaluated
                # again with nothing else in between (whatever the first evaluation left behind must not show)
                t0 = rng.choice(list(stmts)) if rng.random() < 0.5 else t
                world.run(stmts[t0], data, ctx)
                how = rng.choice(['append', 'setkey', 'nested'])
                if how == 'append':
                    data['a'].append(rng.choice([0, 1, 7]))
                elif how == 'setkey':
                    data['d']['a'] = rng.choice([5, [9], {'k': 1}])
                else:
                    data['d'].setdefault('n', []).append(len(data['a']))
                steps.append(('eval-then-host-' + how, t0, di))
            before = Snapshot(data)
            out = world.run(stmts[t], data, ctx)
            res.case(('pool', t, mode, di), nontrivial=False)
            hist['pool-' + out[0]] = hist.get('pool-' + out[0], 0) + 1
            steps.append(('eval', t, di, on_child))
            d = before.diff(Snapshot(data))
            if d:
                res.fail('oracle', 'data-mutated', 'pool: %r changed the host data: %s' % (t, d),
                         dict(part='pool', text=t, mode=mode, data=pyrepr(data), steps=steps[-20:]))
                return
            # reference: a fresh parse by a fresh engine on a fresh chain with an equal, newly built document
            ref_data = copy.deepcopy(data)
            ref = world.run(fresh_engine(t), ref_data, host_chain(world.root, [1, [2, 3]]))
            same = (out[0] == ref[0]) and (out[1] == ref[1] if out[0] == 'err' else
                                           canon_result(out[1], s2l) == canon_result(ref[1], s2l))
            if not same and 'Timeout' not in (out[1], ref[1]):
                res.fail('oracle', 'reuse-differs',
                         'pool: re-evaluating %r (data %s) on the shared context gives %s, a fresh parse on a fresh '
                         'context gives %s' % (t, short(data), short(out), short(ref)),
                         dict(part='pool', text=t, mode=mode, data=pyrepr(data), steps=steps[-30:]))
                return
            # the shared chain: only `$` on the supplied context
            tgt = write_target(shared)
            d = ctx_diff(cb, ctx_snapshot(ctx_objects(shared), world.lib_ids), id(tgt), True)
            if d:
                res.fail('oracle', 'context-changed', 'pool: after %r the shared context chain differs: %s' % (t, d),
                         dict(part='pool', text=t, mode=mode, data=pyrepr(data), steps=steps[-20:]))
                return
        res.traces += 1


# ====================================================================================== registry pool (one prepared context, reused)
#
# "a parsed statement and a prepared context can be reused: evaluating the same statement again with equal data gives an
# equal result" - for EVERY function of the library, in every style it can be called in.  State that makes a re-evaluation
# differ need not sit in the context's variables or function sets (those are snapshotted elsewhere): it can hide inside a
# registered function (a closure cell, an object built at registration time, a module global, a cache keyed by identity).
# So: for every FunctionDefinition of the registry a pool of statements using it - its documented examples (`yaql>` lines of
# the docstring) and generated calls over values / lambdas of different SHAPES (a lambda that treats its argument as a scalar,
# a list, a [key, values] pair, two arguments ...: where a function accepts several call styles - groupBy's aggregator in the
# current and in the 1.1.1 `[key, values]` style, an aggregator that raises on the first group - they all occur), successful
# and failing ones.  The pools of a block of functions are evaluated in random order, every statement at least twice,
# against ONE prepared context (the library context made once, a host chain on it; sometimes a child); each result is compared
# with the result of the same statement on an equal, newly built document against a context made anew with
# `yaql.create_context()` by an engine made anew.

LAMBDA_SHAPES = ['$', 'true', '$1', '[$]', '$.len()', '$ + 1', '$[0]', '$[1]', '[$[0], $[1].len()]', '[$[0], $[1]]', '$1 + $2',
                 '$.sum()', 'null', '$ > 1', '[$[0], $[1].sum()]', '$.toList()', '{k => $}', '$ = 1']
EXAMPLE_RE = re.compile(r'^[ \t]*yaql>[ \t]*(\S.*?)[ \t]*$', re.M)


def fresh_chain():
    return host_chain(yaql.create_context(), [1, [2, 3]])


def regpool_statements(world, rng, plans, tier, steer):
    """{function key: [(text, data factories)]}: documented examples + generated calls.  For a function with lambda
    parameters: a call that succeeds is looked for (on a scratch context - only to steer the generator), then every
    lambda parameter in turn is varied over all LAMBDA_SHAPES with the others kept (so the later lambdas are REACHED: an
    aggregator in every style, one that raises on the first group ..), plus other values and some random combinations"""
    out = {}
    per_plain = 3 if tier == 'quick' else 6
    tries = 40 if tier == 'quick' else 120
    for key, fd in sorted(world.reg.items()):
        plan = plans.get(key)
        stmts = []
        for m in EXAMPLE_RE.finditer(fd.doc or ''):
            stmts.append((m.group(1), {}))

        def add(c):
            if c is not None and c[0] not in [t for t, _ in stmts]:
                stmts.append(c)
        if plan is not None:
            nlam = sum(1 for k in plan.filler.values() if k and k[0] == 'lambda')
            spellings = ([False] if fd.is_function else []) + ([True] if fd.is_method else [])
            targets = list(plan.admits) or [None]

            def make(target, vname, fill, method, lams):
                try:
                    return build_case(plan, target, vname, '$', method, 'plain', fill, 'data', lams)
                except Exception:       # noqa - a definition the generic speller cannot call
                    return None

            def draw():
                target = rng.choice(targets)
                vname = rng.choice(plan.admits[target]) if target else None
                if target and nlam and rng.random() < 0.85:
                    # (on an empty collection no lambda is ever applied)
                    full = [v for v in plan.admits[target] if len(VALUES[v]()) > 1]
                    vname = rng.choice(full) if full else vname
                others = [n for n in plan.admits if n != target and plan.filler.get(n, (None,))[0] == 'data']
                fill = {n: rng.choice(plan.admits[n]) for n in others} if others and rng.random() < 0.5 else None
                return target, vname, fill, (rng.choice(spellings) if spellings else False)
            if not nlam:
                for _ in range(per_plain):
                    add(make(*draw(), []))
            else:
                base, cands = None, []
                for i in range(tries):
                    shape = draw()
                    lams = [rng.choice(LAMBDA_SHAPES) for _ in range(nlam)]
                    c = make(*shape, lams)
                    if c is None:
                        continue
                    if i < 3:
                        add(c)
                    cands.append((shape, lams, c))
                outs = steer([(c[0], regpool_reprs(c[1])) for _, _, c in cands]) if cands else []
                # (a call on an empty collection succeeds without ever applying a lambda: of the successful calls the one
                # on the LARGEST values is varied)
                found = [(len(pyrepr(materialise(c[1]))), -i, shape, lams, c)
                         for i, ((shape, lams, c), o) in enumerate(zip(cands, outs)) if o.startswith("('ok'")]
                if found:
                    _, _, shape, lams, c = max(found, key=lambda f: f[:2])
                    base = (shape, lams)
                    add(c)
                if base is not None:
                    shape, lams = base
                    for p in range(nlam):
                        for sh in LAMBDA_SHAPES:
                            add(make(*shape, lams[:p] + [sh] + lams[p + 1:]))
                    for _ in range(3):                      # the same lambdas on other values
                        add(make(*draw(), lams))
        if stmts:
            out[key] = stmts
    return out


def regpool_canon(v, depth=0):
    """a finalised result as a value: containers by content (dicts and sets unordered), everything else by type and by
    its repr without addresses (a context object handed back by let / def is `a Context`)"""
    t = type(v)
    if v is None or t is bool or t is int or t is str:
        return (t.__name__, v)
    if t is float:
        return ('float', fkey(v))
    if depth > 40:
        return ('deep',)
    if t is list or t is tuple:
        return (t.__name__, tuple(regpool_canon(x, depth + 1) for x in v))
    if t is dict or t is utils.FrozenDict:
        return ('dict', tuple(sorted(((regpool_canon(k, depth + 1), regpool_canon(x, depth + 1)) for k, x in v.items()), key=repr)))
    if t is set or t is frozenset:
        return ('set', tuple(sorted((regpool_canon(x, depth + 1) for x in v), key=repr)))
    return ('obj', t.__module__ + '.' + t.__name__, re.sub(r'0x[0-9a-fA-F]+', '0x', repr(v))[:120])


def regpool_outcome(out):
    """comparable text of ('ok', value) | ('err', class name)"""
    if out[0] == 'err':
        return repr(('err', out[1]))
    try:
        return repr(('ok', regpool_canon(out[1])))
    except Exception as e:      # noqa
        return repr(('uncomparable', type(e).__name__))


NO_CONTEXT = '<no context argument>'
DATALESS = ['$', '[$, 1]', '$ = null', 'coalesce($, 0)', '$.len()', 'let(x => $) -> $x']
REGPOOL_OPTIONS = {'yaql.memoryQuota': 4000000, 'yaql.limitIterators': 100}
_RP_ENGINES = {}


def regpool_engine(mode):
    if mode not in _RP_ENGINES:
        _RP_ENGINES[mode] = yaql.YaqlFactory().create(options=dict(REGPOOL_OPTIONS, **{'yaql.convertInputData': mode}))
    return _RP_ENGINES[mode]


def regpool_call(fn, timeout=2.0):
    signal.signal(signal.SIGALRM, _alarm)
    signal.setitimer(signal.ITIMER_REAL, timeout)
    try:
        try:
            return ('ok', fn())
        finally:
            signal.setitimer(signal.ITIMER_REAL, 0)
    except Timeout:
        return ('err', 'Timeout')
    except RecursionError:
        return ('err', 'RecursionError')
    except Exception as e:      # noqa
        return ('err', type(e).__name__)


def regpool_run_steps(mode, steps, contexts=None, cache=None):
    """the outcomes (texts) of evaluations in order: steps = [[context key, on a child?, text, {name: repr of the value}]];
    every context key stands for ONE prepared context (`yaql.create_context()` + the host chain), made when first used"""
    eng = regpool_engine(mode)
    contexts = {} if contexts is None else contexts
    cache = {} if cache is None else cache
    outs = []
    for key, on_child, text, reprs in steps:
        if key == NO_CONTEXT:
            ctx = None
        else:
            if key not in contexts:
                contexts[key] = fresh_chain()
            ctx = contexts[key].create_child_context() if on_child else contexts[key]
        st = cache.get(text)
        if st is None:
            try:
                st = cache[text] = eng(text)
            except Exception as e:      # noqa
                outs.append(repr(('err', 'parse:' + type(e).__name__)))
                continue
        if reprs is None:
            # the form of the README without data: `engine(expr).evaluate()` - only ever without a context (on a context the
            # host supplies, `$` is what the host or an earlier `evaluate(data=..)` bound there: that is the property's own exception)
            outs.append(regpool_outcome(regpool_call(lambda: st.evaluate())))
            continue
        data = {k: eval(v, dict(PYNS)) for k, v in reprs.items()}      # noqa: S307 - our own reprs
        if ctx is None:
            outs.append(regpool_outcome(regpool_call(lambda: st.evaluate(data=data))))      # `engine(expr).evaluate(data=doc)`
        else:
            outs.append(regpool_outcome(regpool_call(lambda: st.evaluate(data=data, context=ctx))))
    return outs


def fresh_server_main():
    """a pristine interpreter: yaql imported, engines made, NOTHING evaluated.  Every request line `{"mode": bool, "jobs":
    [steps, ..]}` is answered by `[[outcome texts of the job's steps], ..]`, each job run in a FORK of this process made for it:
    whatever an evaluation leaves behind - in a context, in a registered function, in a module - is gone with the child."""
    for m in (True, False):
        regpool_engine(m)
    out = sys.stdout
    width = 5                   # children at a time
    for line in sys.stdin:
        req = json.loads(line)
        jobs = req['jobs']
        answers = [None] * len(jobs)
        running, nxt = [], 0
        while nxt < len(jobs) or running:
            while nxt < len(jobs) and len(running) < width:
                r, w = os.pipe()
                pid = os.fork()
                if pid == 0:
                    try:
                        os.close(r)
                        import random
                        random.seed()       # (a fork inherits the parent's generator state: every child would draw alike)
                        os.write(w, json.dumps(regpool_run_steps(req['mode'], jobs[nxt])).encode('utf8'))
                    finally:
                        os._exit(0)
                os.close(w)
                running.append((nxt, pid, r))
                nxt += 1
            i, pid, r = running.pop(0)
            chunks = []
            while True:
                c = os.read(r, 1 << 16)
                if not c:
                    break
                chunks.append(c)
            os.close(r)
            os.waitpid(pid, 0)
            try:
                answers[i] = json.loads(b''.join(chunks).decode('utf8'))
            except ValueError:
                answers[i] = None
        out.write(json.dumps(answers) + '\n')
        out.flush()


class FreshServer:
    def __init__(self):
        import subprocess
        hdir = os.path.dirname(os.path.dirname(os.path.abspath(__file__)))
        self.p = subprocess.Popen([sys.executable, '-W', 'ignore', '-c',
                                   'import sys; sys.path.insert(0, %r); import common; from props import c09; '
                                   'c09.fresh_server_main()' % hdir],
                                  stdin=subprocess.PIPE, stdout=subprocess.PIPE, text=True, cwd='/tmp')

    def jobs(self, mode, jobs):
        self.p.stdin.write(json.dumps({'mode': mode, 'jobs': jobs}) + '\n')
        self.p.stdin.flush()
        line = self.p.stdout.readline()
        if not line:
            raise RuntimeError('the fresh-process server died')
        return json.loads(line)

    def fresh(self, mode, text, reprs):
        """the statement in a process that has evaluated nothing else, on a context made anew"""
        r = self.jobs(mode, [[['ref', True, text, reprs]]])[0]
        return r[0] if r else None

    def replay(self, mode, steps):
        r = self.jobs(mode, [steps])[0]
        return r[-1] if r else None

    def close(self):
        try:
            self.p.stdin.close()
            self.p.wait(timeout=5)
        except Exception:       # noqa
            self.p.kill()


def regpool_confirm(server, mode, log, i):
    """evaluation number i of the log gave another result than a process that evaluated nothing else: is that a fact about
    the history?  The statement must give the same in two more fresh processes, and the logged history, replayed in a fresh
    process, must reproduce the OBSERVED result (twice).  -> (shrunk steps, observed, expected) or None"""
    key, on_child, text, reprs, observed = log[i]
    f1, f2 = server.fresh(mode, text, reprs), server.fresh(mode, text, reprs)
    if f1 is None or f1 != f2 or f1 == observed or 'Timeout' in f1:
        return None
    steps = [st[:4] for st in log[:i + 1]]

    def reproduces(hs):
        return server.replay(mode, hs) == observed
    if not (reproduces(steps) and reproduces(steps)):
        return None
    # shrink: the longest droppable prefix (bisection), then single evaluations of what is left
    lo, hi = 0, len(steps) - 1          # steps[lo:] reproduces; find the largest such lo
    while lo < hi:
        mid = (lo + hi + 1) // 2
        if reproduces(steps[mid:]):
            lo = mid
        else:
            hi = mid - 1
    steps = steps[lo:]
    j, budget = 0, 80
    chunk = max(1, (len(steps) - 1) // 8)
    while chunk >= 1 and budget > 0:
        j = 0
        while j < len(steps) - 1 and budget > 0:
            cand = steps[:j] + steps[min(j + chunk, len(steps) - 1):]
            budget -= 1
            if len(cand) < len(steps) and reproduces(cand):
                steps = cand
            else:
                j += chunk
        chunk //= 2
    if not reproduces(steps):
        return None
    return steps, observed, f1


def regpool_pretty(text):
    """a canonical outcome text as something a person reads"""
    def un(c):
        if not isinstance(c, tuple) or not c:
            return c
        if c[0] in ('list', 'tuple'):
            return (list if c[0] == 'list' else tuple)(un(x) for x in c[1])
        if c[0] == 'dict':
            return {repr(un(k)) if isinstance(un(k), (list, dict, set)) else un(k): un(v) for k, v in c[1]}
        if c[0] == 'set':
            return 'set(%s)' % ', '.join(repr(un(x)) for x in c[1])
        if c[0] == 'float':
            return struct.unpack('>d', bytes.fromhex(c[1]))[0] if isinstance(c[1], str) else c[1]
        if c[0] == 'obj':
            return '<%s>' % c[1]
        return c[1] if len(c) == 2 else c
    try:
        o = eval(text, {})       # noqa: S307 - our own canonical text
        return 'raises %s' % o[1] if o[0] == 'err' else repr(un(o[1]))[:300]
    except Exception:           # noqa
        return text[:300]


def regpool_report(res, mode, hs, got, exp):
    keys = []
    for st in hs:
        if st[0] not in keys and st[0] != NO_CONTEXT:
            keys.append(st[0])

    def line(st):
        if st[0] == NO_CONTEXT:
            return 'engine(%r).evaluate(%s) [no context argument]' % (
                st[2], '' if st[3] is None else 'data={%s}' % ', '.join('%r: %s' % kv for kv in st[3].items()))
        where = 'context %d' % (keys.index(st[0]) + 1) if len(keys) > 1 else 'the context'
        return '%s on %s [%s%s]' % (st[2], '{%s}' % ', '.join('%r: %s' % kv for kv in st[3].items()), 'a child of ' if st[1] else '', where)
    res.fail('oracle', 'reuse-differs',
             'registry pool: in ONE process, against %s prepared with yaql.create_context() (yaql.convertInputData=%s), the '
             'evaluations %s make the last one give %s; the same statement on an equal document, in a process that evaluated '
             'nothing else, against a context made anew gives %s' % (
                 'one context' if len(keys) <= 1 else '%d contexts' % len(keys), mode, ' ; then '.join(line(st) for st in hs),
                 regpool_pretty(got), regpool_pretty(exp)),
             dict(part='regpool', mode=mode, steps=hs))


def function_names(st):
    """names of all functions / operators a parsed statement calls"""
    out = set()

    def walk(e):
        if isinstance(e, expressions.Statement):
            return walk(e.expression)
        if isinstance(e, expressions.Function):
            out.add(e.name)
            for a in e.args:
                walk(a)
        elif isinstance(e, expressions.Wrap):
            walk(e.expr)
        elif isinstance(e, expressions.MappingRuleExpression):
            walk(e.source)
            walk(e.destination)
    walk(st)
    return out


def regpool_reprs(data_mk):
    return {k: pyrepr(mk()) for k, mk in data_mk.items()}


def regpool_impure(server, pools, hist):
    """names of functions that are not functions of their arguments BY NATURE (now, random ..): three consecutive
    evaluations of a statement differ, and so do evaluations in 12 processes that evaluated nothing else (each seeds its
    random source anew).  Statements calling them are outside the property's quantifier ("with equal data gives an equal
    result").  (A statement that varies on one context while pristine processes agree stays in the pools: the histories
    below judge it.)"""
    eng = regpool_engine(True)
    impure = set()
    stmts = [(t, regpool_reprs(d)) for key in sorted(pools) for t, d in pools[key]]
    outs = server.jobs(True, [[['probe', True, t, r] for t, r in stmts for _ in range(3)]])[0] or []
    varying = []
    for i, (t, r) in enumerate(stmts):
        o = outs[3 * i:3 * i + 3]
        if len(set(o)) > 1 and not any('Timeout' in x for x in o):
            try:
                varying.append((function_names(eng(t)), t, r))
            except Exception:       # noqa
                pass
    for names, text, reprs in sorted(varying, key=lambda v: len(v[0])):
        if names & impure:
            continue            # explained by a function already named (the smallest explanation first)
        fresh = [r[0] if r else None for r in server.jobs(True, [[['ref', True, text, reprs]]] * 12)]
        if len(set(fresh)) > 1:
            impure |= names
    hist['regpool-functions-not-determined-by-their-arguments'] = sorted(impure)
    return impure


def run_regpool(world, res, rng, tier, hist, plans=None):
    """every evaluation of this part happens in a FORK of one pristine server process (`FreshServer`): a block's history in
    one child (one process, one prepared context), every reference in a child of its own; this process only compares"""
    if plans is None:
        plans = {}
        for key, fd in sorted(world.reg.items()):
            try:
                plans[key] = Plan(world, key, fd)
            except Exception:       # noqa
                pass
    server = FreshServer()
    try:
        pools = regpool_statements(world, rng, plans, tier,
                                   lambda cands: server.jobs(True, [[['steer', True, t, r] for t, r in cands]])[0] or [])
        impure = regpool_impure(server, pools, hist)
        if impure:
            eng0 = regpool_engine(True)

            def pure(text):
                try:
                    return not (function_names(eng0(text)) & impure)
                except Exception:       # noqa
                    return True
            pools = {k: [(t, d) for t, d in v if pure(t)] for k, v in pools.items()}
            pools = {k: v for k, v in pools.items() if v}
        keys = sorted(pools)
        rng.shuffle(keys)
        block = 12
        hist['regpool-functions'] = len(keys)
        hist['regpool-statements'] = sum(len(v) for v in pools.values())
        hist['regpool-documented-examples'] = sum(1 for v in pools.values() for t, d in v if not d)
        hist['regpool-largest-pools'] = sorted(((len(v), k) for k, v in pools.items()), reverse=True)[:5]
        hist['regpool-functions-with-two-or-more-statements'] = sum(1 for v in pools.values() if len(v) >= 2)
        t0 = time.time()
        budget = 50 if tier == 'quick' else 400
        for b in range(0, len(keys), block):
            if time.time() - t0 > budget:
                hist['regpool-budget-cut-at-function'] = b
                break
            mode = (b // block) % 4 != 3          # mostly with input conversion (the default), a quarter raw
            stmts = [(k, t, regpool_reprs(d)) for k in keys[b:b + block] for t, d in pools[k]]
            # references: every statement in a process of its own that has evaluated nothing else, on a context made anew
            refs = server.jobs(mode, [[['ref', True, t, reprs]] for _, t, reprs in stmts])
            ref = {(k, t): (r[0] if r else None) for (k, t, _), r in zip(stmts, refs)}
            # the history: ONE process, ONE prepared context, every statement of the block twice, in random order
            order = stmts * 2
            rng.shuffle(order)
            # ... one in 25 in the form of the README, `engine(expr).evaluate(data=doc)` WITHOUT a context argument, and a
            # dozen evaluations without data AND without context in between (`$` is null there, whatever ran before)
            dataless = [('<dataless>', t, None) for t in rng.sample(DATALESS, 4)] + [
                ('<dataless>', t, None) for _, t, _ in rng.sample(stmts, min(8, len(stmts)))]
            for d in dataless:
                order.insert(rng.randrange(len(order) // 3, len(order) + 1), d)
            steps = [[NO_CONTEXT if (reprs is None or rng.random() < 0.04) else 'the context', rng.random() < 0.3, t, reprs]
                     for _, t, reprs in order]
            for (k, t, reprs), r in zip(dataless, server.jobs(mode, [[[NO_CONTEXT, False, t, None]] for _, t, _ in dataless])):
                ref[(k, t)] = r[0] if r else None
            outs = server.jobs(mode, [steps])[0]
            if outs is None:
                hist['regpool-blocks-without-an-answer'] = hist.get('regpool-blocks-without-an-answer', 0) + 1
                continue
            for i, ((k, text, reprs), out) in enumerate(zip(order, outs)):
                res.case(('regpool', k, text, mode), nontrivial=out.startswith("('ok'"))
                hist['regpool-' + out[2:4]] = hist.get('regpool-' + out[2:4], 0) + 1
                exp = ref[(k, text)]
                if exp is not None and out != exp and 'Timeout' not in out and 'Timeout' not in exp:
                    c = regpool_confirm(server, mode, [st + [o] for st, o in zip(steps, outs)], i)
                    if c is None:
                        hist['regpool-differences-not-confirmed'] = sorted(set(hist.get('regpool-differences-not-confirmed', []) + [text]))[:30]
                        continue
                    regpool_report(res, mode, *c)
                    return
            res.traces += 1
    finally:
        server.close()


# ====================================================================================== groupBy's aggregator object
GAGG_BEHAVIOURS = ['const', 'len', 'pairlen', 'first2', 'res', 'res2', 'oth', 'str2', 'echo', 'old', 'new']


def gagg_function(beh):
    """a user aggregator: what it does with a list of values / with a `(key, values)` pair"""
    def act(b, arg):
        if b == 'const':
            return 7
        if b == 'len':
            return len(arg)
        if b == 'pairlen':
            return [arg[0], len(arg[1])]            # `[$[0], $[1].len()]`: IndexError / TypeError on what it does not fit
        if b == 'first2':
            return [arg[0], 'x']
        if b == 'res':
            e = IndexError('list index out of range')
            e.tag = 1
            raise e
        if b == 'res2':
            e = yexc.NoMatchingMethodException('sum', arg)
            e.tag = 2
            raise e
        if b == 'oth':
            e = ValueError('no')
            e.tag = 3
            raise e
        if b == 'str2':
            return 'ab'
        if b == 'old':
            if not isinstance(arg, tuple):
                e = yexc.NoMatchingFunctionException('#indexer')
                e.tag = 4
                raise e
            return [arg[0], len(arg[1])]
        if b == 'new':
            if isinstance(arg, tuple):
                e = yexc.NoMatchingMethodException('len', arg)
                e.tag = 5
                raise e
            return len(arg)
        return arg

    def f(arg):
        return act(beh[1] if isinstance(arg, tuple) else beh[0], arg)
    return f


def gagg_outcome(fn):
    try:
        return {'ok': c10_values_enc(fn())}
    except (yexc.NoMatchingMethodException, yexc.NoMatchingFunctionException, IndexError) as e:
        return {'res': getattr(e, 'tag', 900)}
    except Exception as e:      # noqa
        return {'oth': getattr(e, 'tag', 901)}


def c10_values_enc(v):
    import values
    return values.enc(v)


def run_gagg(world, drv, res, rng, tier, hist):
    """`queries.GroupAggregator.__call__` against `Model/GroupAgg.lean` (`call`, `run`, `poolPerCall`, `poolShared`): pools of
    groupBy evaluations with aggregators of every style, run per call (the code's lifetime of the aggregator object) and
    with ONE object's state carried from evaluation to evaluation (the contrasting design of `Props.C09.shared_breaks_reuse`)"""
    if drv is None:
        return
    n = 150 if tier == 'quick' else 1500
    for i in range(n):
        allow = rng.random() < 0.8
        stmts = []
        for _ in range(rng.choice([1, 2, 2, 3, 4])):
            beh = (rng.choice(GAGG_BEHAVIOURS), rng.choice(GAGG_BEHAVIOURS))
            keys = rng.sample(['a', 'b', 'c', 1, 2, None], rng.choice([1, 2, 2, 3]))
            groups = [(k, [rng.choice([1, 2, 'a', k]) for _ in range(rng.choice([1, 2, 2, 3]))]) for k in keys]
            stmts.append((beh, groups))
        for shared in (False, True):
            real = []
            carry = None
            for beh, groups in stmts:
                try:
                    ga = yqueries.GroupAggregator(gagg_function(beh), allow)
                    if shared and carry is not None:
                        ga.allow_fallback, ga._failure_info = carry
                    carry = (ga.allow_fallback, ga._failure_info)
                except (TypeError, AttributeError) as e:
                    # the class is not the one the model mirrors any more: the tie is broken (no failing input here - the
                    # property itself is judged by the registry pool above)
                    res.fail('mismatch', 'gagg-model', 'queries.GroupAggregator(aggregator, allow_fallback) with the state '
                             '(allow_fallback, _failure_info) is not what Model/GroupAgg.lean mirrors any more: %r' % (e,),
                             dict(part='gagg'))
                    return
                out = gagg_outcome(lambda: [ga(item) for item in dict((k, list(v)) for k, v in groups).items()])
                carry = (ga.allow_fallback, ga._failure_info)
                real.append({'ok': out['ok']['li']} if 'ok' in out else {'err': out})
            req = dict(op='gagg', allow=allow, shared=shared, stmts=[
                dict(agg=[[c10_values_enc(arg), gagg_outcome(lambda arg=arg: gagg_function(beh)(arg))]
                          for k, vs in groups for arg in (list(vs), (k, list(vs)))],
                     groups=[[c10_values_enc(k), [c10_values_enc(v) for v in vs]] for k, vs in groups])
                for beh, groups in stmts])
            model = drv.ask({'p': 'C09', 'cases': [req]})['res'][0]['outs']
            res.case(('gagg', i, shared), nontrivial=len(stmts) > 1)
            res.traces += 1
            hist['gagg-' + ('shared' if shared else 'per-call')] = hist.get('gagg-' + ('shared' if shared else 'per-call'), 0) + 1
            for r in real:
                k = 'gagg-outcome-' + ('ok' if 'ok' in r else 'res' if 'res' in r['err'] else 'oth')
                hist[k] = hist.get(k, 0) + 1
            if model != real:
                res.fail('mismatch', 'gagg-model', 'GroupAggregator (%s, allow_fallback=%s) over %s: real %s, model %s' % (
                    'one object shared by the evaluations' if shared else 'one object per call', allow,
                    [(b, g) for b, g in stmts], json.dumps(real)[:400], json.dumps(model)[:400]),
                    dict(part='gagg'))
                return


def run_yaqleval(world, res, rng, tier, hist):
    """`yaql.eval(expression, data)`: the module caches the engine, the parsed statements and one default context"""
    texts = [t for t in POOL if not re.search(r'hostList|hostFn|\$n\b|\$top|\$m\b', t)]
    ref_engine = yaql.YaqlFactory().create()
    cb = None
    for i in range(80 if tier == 'quick' else 600):
        t = rng.choice(texts)
        data = rng.choice(POOL_DATA)()
        before = Snapshot(data)
        try:
            out = ('ok', yaql.eval(t, data))
        except Exception as e:      # noqa
            out = ('err', type(e).__name__)
        res.case(('yaql.eval', t), nontrivial=False)
        hist['yaqleval-' + out[0]] = hist.get('yaqleval-' + out[0], 0) + 1
        rp = dict(part='yaqleval', text=t, data=pyrepr(data))
        d = before.diff(Snapshot(data))
        if d:
            res.fail('oracle', 'data-mutated', 'yaql.eval(%r) changed its data: %s' % (t, d), rp)
            return
        canon = deep(out[1], (), []) if out[0] == 'ok' else None
        if out[0] == 'ok':
            ids = {id(o): pth for pth, o in before.nodes if type(o) in MUTABLE}
            nodes = []
            walk_result(out[1], nodes)
            hit = [n for n in nodes if type(n) in MUTABLE and id(n) in ids]
            if hit:
                res.fail('oracle', 'result-aliases-host', 'yaql.eval(%r, %s): a %s of the result IS the host object at %s' % (
                    t, rp['data'], type(hit[0]).__name__, ids[id(hit[0])]), rp)
                return
            scramble(nodes)
            d = before.diff(Snapshot(data))
            if d:
                res.fail('oracle', 'result-aliases-host', 'yaql.eval(%r, %s): changing the result changed the data: %s' % (t, rp['data'], d), rp)
                return
        dc = getattr(yaql, '_default_context', None)
        if dc is not None:
            snap = ctx_snapshot(ctx_objects(dc))
            if cb is not None and (cb[0] is dc) and ctx_diff(cb[1], snap, None, False):
                res.fail('oracle', 'context-changed', 'yaql.eval(%r) changed the module\'s default context: %s' % (
                    t, ctx_diff(cb[1], snap, None, False)), rp)
                return
            cb = (dc, snap)
        ref = world.run(ref_engine(t), copy.deepcopy(data), yaql.create_context())
        same = (out[0] == ref[0]) and (out[1] == ref[1] if out[0] == 'err' else canon == canon_result(ref[1]))
        if not same and 'Timeout' not in (out[1], ref[1]):
            res.fail('oracle', 'reuse-differs', 'yaql.eval(%r, %s) gives %s, a fresh engine on a fresh context gives %s' % (
                t, short(data), short(canon if canon is not None else out), short(ref)), rp)
            return


# ====================================================================================== provenance (how the engine came to be)

CI, CO = 'yaql.convertInputData', 'yaql.convertOutputData'
CONV = [(True, True), (True, False), (False, True), (False, False)]       # (convertInputData, convertOutputData)
PROV_TEXTS = [
    '$', '$.a', '$.d', '[$.a, $.d]', '$.d.get(a)', '$.d.b', 'let(x => $.a) -> $x', '$.a.toList()', '$.d.set(z, $.a)',
    '$.a.len()', '$hostList', '[$hostList, $.a]', '$.a + $.a', 'dict(k => $.a)', '$.d.values().toList()', '$.a.first()',
    '$.a.where(true).toList()', 'switch(true => $.d)', '$.a[1]', '$.d.a',
]
PROV_DATA = [
    lambda: {'a': [3, [1], {'k': [2]}], 'd': {'a': [1, 2], 'b': {'c': [3]}}},
    lambda: {'a': [[], [4, 5]], 'd': {'a': {'x': [7]}, 'b': []}},
    lambda: {'a': [0, [1, [2]]], 'd': {'a': 1, 'b': {'s': {1, 2}}}},
]
DERIVATIONS = ['copy', 'copy-kept', 'percall', 'copy-of-copy']


def opaque_in(d):
    if isinstance(d, tuple):
        return (len(d) == 3 and d[0] == 'opaque') or any(opaque_in(x) for x in d)
    if isinstance(d, frozenset):
        return any(opaque_in(x) for x in d)
    return False


def run_provenance(world, res, rng, tier, hist):
    """Engines are values the host derives from each other: `engine.copy(options)`, `engine(text, options=...)`.  One
    history = a base engine built by the factory with one of the four (convertInputData, convertOutputData)
    combinations, an engine derived from it with another (or the same) combination, ONE expression text and ONE host
    document; base and derived engine take turns parsing and evaluating the text (either may come first).  Every single
    evaluation is judged by the options of the engine the host used for it: data snapshot, alias scan + scrambling when
    that engine converts output, context and statement snapshots, and the reuse oracle - the result equals that of an
    engine built from scratch by another factory with the same effective options, on an equal new document."""
    per_combo = 3 if tier == 'quick' else 14
    ref_factory = yaql.YaqlFactory()
    refs = {}
    bases = {}          # building an engine builds a parser (~0.15 s): base engines live across histories, as a host's do
    spell = 0
    for (bci, bco) in CONV:
        for (dci, dco) in CONV:
            for deriv in DERIVATIONS:
                for text0 in rng.sample(PROV_TEXTS, per_combo):
                    # half of the histories spell the expression as no engine has seen it yet (so "who parsed it first" is
                    # exactly `first`), the others meet engines that parsed the text in earlier histories
                    spell += 1
                    text = text0 + ' ' * spell if rng.random() < 0.5 else text0
                    mk = rng.choice(PROV_DATA)
                    data = mk()
                    first = rng.choice(['base', 'derived'])
                    extra = rng.choice([{}, {}, {'yaql.convertTuplesToLists': False}, {'yaql.convertSetsToLists': True}])
                    base_opts = {'yaql.limitIterators': 100, 'yaql.memoryQuota': 4000000}
                    if not (bci and bco and rng.random() < 0.5):       # the defaults are sometimes left unset
                        base_opts.update({CI: bci, CO: bco})
                    dopts = {CI: dci, CO: dco}
                    dopts.update(extra)
                    bk = tuple(sorted(base_opts.items()))
                    if bk not in bases:
                        bases[bk] = world.factory.create(options=dict(base_opts))
                    base = bases[bk]
                    eff = {'base': dict(base_opts), 'derived': dict(base_opts, **dopts)}
                    kept = []

                    def statement(who):
                        if who == 'base':
                            return base(text)
                        if deriv == 'copy':
                            return base.copy(dopts)(text)
                        if deriv == 'copy-kept':
                            if not kept:
                                kept.append(base.copy(dopts))
                            return kept[0](text)
                        if deriv == 'percall':
                            return base(text, options=dopts)
                        # a copy of a copy: through an intermediate engine with the opposite conversion options
                        return base.copy({CI: not dci, CO: not dco}).copy(dopts)(text)
                    order = [first, 'derived' if first == 'base' else 'base'] * 2
                    if rng.random() < 0.3:
                        order.insert(2, order[1])
                    case = dict(part='provenance', text=text, base=[bci, bco], derived=[dci, dco], how=deriv, first=first,
                                extra=extra, data=pyrepr(data), order=order)
                    res.case(('prov', text0, bci, bco, dci, dco, deriv, first), nontrivial=(bci, bco) != (dci, dco),
                             sample=case if (deriv, text0) == ('copy', '$.a') else None)
                    hist['prov-' + deriv] = hist.get('prov-' + deriv, 0) + 1
                    for i, who in enumerate(order):
                        o = eff[who]
                        ci, co = o.get(CI, True), o.get(CO, True)
                        try:
                            st = statement(who)
                        except Exception as e:      # noqa
                            hist['prov-parse-error'] = hist.get('prov-parse-error', 0) + 1
                            break
                        if i == 2 and rng.random() < 0.5:
                            data['a'].append([9])       # the host changes its document between evaluations
                        out, fails = observe(world, text, data, ci, st=st, eopts=dict(conv_out=co))
                        hist['prov-' + out[0]] = hist.get('prov-' + out[0], 0) + 1
                        hist['prov-used-ci=%s,co=%s' % (ci, co)] = hist.get('prov-used-ci=%s,co=%s' % (ci, co), 0) + 1
                        where = 'evaluation %d (%s engine, effective %s=%s %s=%s; base %s, derived by %s with %s, %s parsed first)' % (
                            i + 1, who, CI, ci, CO, co, base_opts, deriv, dopts, first)
                        for key, what in fails:
                            res.fail('oracle', key, 'provenance: %s - expression %s, %s, data %s' % (what, text, where, pyrepr(data)),
                                     dict(case, failing_evaluation=i))
                            return
                        # reuse: an engine built from scratch with the same effective options, fresh parse, equal new document
                        rk = tuple(sorted(o.items()))
                        if rk not in refs:
                            refs[rk] = ref_factory.create(options=dict(o))
                        ref = world.run(refs[rk](text), copy.deepcopy(data), host_chain(world.root, [1, [2, 3], {'k': [4]}]))
                        if out[0] == 'err' or ref[0] == 'err':
                            same = out == ref or 'Timeout' in (out[1], ref[1])
                        else:
                            loose = bool(o.get('yaql.convertSetsToLists'))
                            a, b = world.last_canon, canon_result(ref[1])
                            if loose:
                                a, b = loosen(a), loosen(b)
                            same = a == b or opaque_in(a) or opaque_in(b)
                        if not same:
                            res.fail('oracle', 'reuse-differs',
                                     'provenance: expression %s, %s gives %s; an engine built by a factory with the same options '
                                     'gives %s on an equal document %s' % (text, where, short(world.last_out), short(ref), pyrepr(data)),
                                     dict(case, failing_evaluation=i))
                            return
                    res.traces += 1


# ====================================================================================== host entry points

ENTRY_KW = ['a', 'b', 'k', 'n', 'top']         # keyword parameters; `n` and `top` shadow variables the host chain binds
ENTRY_PROBE = '[$1, $2, $3, $a, $b, $k]'
ENTRY_EXPRS = [ENTRY_PROBE, ENTRY_PROBE, ENTRY_PROBE, '$', '$2', '$a', '$b', '[$, $a, $n, $top, $m]', '$1.len() + $2.len()',
               '$a.len()', 'let(a => 1) -> [$a, $b]', '$1.set(z, $a)', '[$2, $k].select($)', '$k.toList()', '$hostList',
               '[$hostList, $a, $1]', '[$hb, $hc]', '$1.a', '[$3, $2, $1]', 'def(f, $a) -> f()', '$a.insert(0, $2)',
               '$1 + $2', '[$n, $top]', 'with($a, $b) -> [$1, $2, $a]', '$.where($ != $k)']
ENTRY_VALUES = [lambda: [1, [2]], lambda: {'x': [1], 'y': {'z': 2}}, lambda: 5, lambda: 'ab', lambda: None, lambda: {3, 4},
                lambda: [], lambda: [[{'q': [0]}]], lambda: {'a': [7, 8]}, lambda: [3, 1, 2]]
ENTRY_STUBS = [('len', 1, False), ('list', 2, False), ('toList', 0, True), ('len', 0, True), ('set', 2, True), ('insert', 2, True),
               ('reverse', 0, True), ('keys', 0, True), ('values', 0, True), ('flatten', 0, True), ('distinct', 0, True),
               ('sum', 0, True), ('max', 2, False), ('str', 1, False), ('delete', 1, True), ('append', 1, True), ('mergeWith', 1, True)]
ENTRY_GET = ['n', 'top', 'hostList', 'a', 'k', '$2', '$', 'hb', 'm', 'sideVar', 'linkVar']
ENTRY_KINDS = ['plain', 'multi', 'linked']


def entry_context(world, kind, hv, hostsets):
    """the context the host wraps / supplies: the 3-layer chain itself, a MultiContext over it and a free-standing
    context, or a LinkedContext whose parent is the chain"""
    hc = host_chain(world.root, hv)
    if kind == 'plain':
        ctx = hc
    elif kind == 'multi':
        side = contexts.Context()
        side['sideVar'] = 5
        ctx = contexts.MultiContext([hc, side])
    else:
        tgt = contexts.Context()
        tgt['linkVar'] = 6
        ctx = contexts.LinkedContext(parent_context=hc, linked_context=tgt)
    for k, v in hostsets:
        ctx[k] = v
    return ctx


def entry_op(rng):
    r = rng.random()
    nv = len(ENTRY_VALUES)
    if r < 0.5:
        return dict(o='call', expr=rng.choice(ENTRY_EXPRS), args=[rng.randrange(nv) for _ in range(rng.choice([0, 1, 2, 2, 3, 3]))],
                    kwargs={k: rng.randrange(nv) for k in rng.sample(ENTRY_KW, rng.choice([0, 1, 2, 2, 3]))})
    if r < 0.65:
        fn, n, recv = rng.choice(ENTRY_STUBS)
        return dict(o='stub', fn=fn, recv=rng.randrange(nv) if recv else None, args=[rng.randrange(nv) for _ in range(n)])
    if r < 0.72:
        return dict(o='get', name=rng.choice(ENTRY_GET))
    if r < 0.78:
        return dict(o='hostset', name=rng.choice(['hb', 'hc']), value=rng.randrange(nv))
    if r < 0.9:
        return dict(o='stmt', expr=rng.choice(ENTRY_EXPRS), data=rng.randrange(nv), on=rng.choice(['ctx', 'child', 'child']))
    return dict(o='stmt-nodata', expr=rng.choice(ENTRY_EXPRS))


def entry_text(op):
    """the host's line of Python"""
    val = lambda i: pyrepr(ENTRY_VALUES[i]())       # noqa
    if op['o'] == 'call':
        return 'yi(%r%s%s)' % (op['expr'], ''.join(', ' + val(i) for i in op['args']),
                               ''.join(', %s=%s' % (k, val(i)) for k, i in op['kwargs'].items()))
    if op['o'] == 'stub':
        return 'yi%s.%s(%s)' % ('' if op['recv'] is None else '.on(%s)' % val(op['recv']), op['fn'], ', '.join(val(i) for i in op['args']))
    if op['o'] == 'get':
        return 'yi[%r]' % op['name']
    if op['o'] == 'hostset':
        return 'yi[%r] = %s' % (op['name'], val(op['value']))
    if op['o'] == 'stmt':
        return 'engine(%r).evaluate(data=%s, context=%s)' % (op['expr'], val(op['data']),
                                                            'ctx' if op['on'] == 'ctx' else 'ctx.create_child_context()')
    return 'engine(%r).evaluate(context=ctx)' % op['expr']


def entry_exec(world, op, yi, ctx, engine, vals):
    """run one host operation; `vals`: the host objects passed (built by the caller, so it can snapshot them)"""
    if op['o'] == 'call':
        n = len(op['args'])
        return world.call(lambda: yi(op['expr'], *vals[:n], **dict(zip(op['kwargs'], vals[n:]))))
    if op['o'] == 'stub':
        if op['recv'] is None:
            return world.call(lambda: getattr(yi, op['fn'])(*vals))
        return world.call(lambda: getattr(yi.on(vals[0]), op['fn'])(*vals[1:]))
    if op['o'] == 'get':
        return world.call(lambda: yi[op['name']])
    if op['o'] == 'hostset':
        yi[op['name']] = vals[0]
        return ('ok', None)
    if op['o'] == 'stmt':
        c = ctx if op['on'] == 'ctx' else ctx.create_child_context()
        return world.run(engine(op['expr']), vals[0], c)
    return world.call(lambda: engine(op['expr']).evaluate(context=ctx))


def entry_vals(op):
    if op['o'] == 'call':
        return [ENTRY_VALUES[i]() for i in op['args']] + [ENTRY_VALUES[i]() for i in op['kwargs'].values()]
    if op['o'] == 'stub':
        return ([] if op['recv'] is None else [ENTRY_VALUES[op['recv']]()]) + [ENTRY_VALUES[i]() for i in op['args']]
    if op['o'] == 'hostset':
        return [ENTRY_VALUES[op['value']]()]
    if op['o'] == 'stmt':
        return [ENTRY_VALUES[op['data']]()]
    return []


def run_entry(world, res, rng, tier, hist):
    """Sessions of a host that built `YaqlInterface(host_context, engine)` itself around a context of each of the three
    classes and mixes `yi(expr, *args, **kwargs)`, `yi.<function>(..)`, `yi.on(x).<function>(..)`, `yi[name]`,
    `yi[name] = v` (its own binding) with plain statement evaluations on the same context.  Around every operation: deep
    snapshot (+ identities) of every object the host ever passed in and of the variable values it keeps in contexts,
    snapshot of every context reachable from the wrapped one (nothing may differ - `$` only when a statement was
    evaluated with data directly on it), alias scan + scrambling of the result, and history independence: the operation
    gives the same result on a newly built equal context that has seen nothing but the host's own bindings (so a
    parameter of an earlier call reads as null unless the host bound it)."""
    from yaql import yaql_interface
    nsess = 54 if tier == 'quick' else 600
    for si in range(nsess):
        kind = ENTRY_KINDS[si % 3]
        ci, co = CONV[(si // 3) % 4]
        engine = world.engine(conv_in=ci, conv_out=co)
        hv = [1, [2, 3], {'k': [4]}]
        hostsets = []           # what the host bound itself through yi[name] = value: (name, index into ENTRY_VALUES)
        dollar = None           # the document a statement evaluated directly on the wrapped context bound to `$`
        ctx = entry_context(world, kind, hv, [])
        yi = yaql_interface.YaqlInterface(ctx, engine)
        held = [hv]             # every object the host passed in so far: it still owns them
        lines = []
        for oi in range(rng.randrange(4, 10)):
            op = entry_op(rng)
            vals = entry_vals(op)
            lines.append(entry_text(op))
            hist['entry-' + op['o']] = hist.get('entry-' + op['o'], 0) + 1
            hist['entry-on-' + kind] = hist.get('entry-on-' + kind, 0) + 1
            res.case(('entry', kind, op['o'], op.get('expr') or op.get('fn') or op.get('name'), ci, co), nontrivial=False,
                     sample=dict(part='entry', context=kind, session=lines[-3:]) if si < 3 and oi == 3 else None)
            snaps = [Snapshot(x) for x in held + vals]
            ids = {}
            for sn in snaps:
                for pth, o in sn.nodes:
                    if type(o) in MUTABLE:
                        ids[id(o)] = pth
            cb = ctx_snapshot(ctx_objects(ctx), world.lib_ids)
            out = entry_exec(world, op, yi, ctx, engine, vals)
            hist['entry-' + out[0]] = hist.get('entry-' + out[0], 0) + 1
            rp = dict(part='entry', context=kind, options={CI: ci, CO: co}, session=list(lines))
            tell = '%s context wrapped, engine %s=%s %s=%s; host session:  %s' % (kind, CI, ci, CO, co, ';  '.join(lines))
            for sn, x in zip(snaps, held + vals):
                d = sn.diff(Snapshot(x))
                if d:
                    res.fail('oracle', 'data-mutated', 'entry: the last operation changed host data %s: %s (%s)' % (short(x), d, tell), rp)
                    return
            if op['o'] == 'hostset':
                hostsets.append((op['name'], op['value']))
                held += vals
                continue
            on_ctx = op['o'] == 'stmt' and op['on'] == 'ctx'
            tgt = write_target(ctx)
            d = ctx_diff(cb, ctx_snapshot(ctx_objects(ctx), world.lib_ids), id(tgt) if (on_ctx and tgt is not None) else None, on_ctx)
            if d:
                res.fail('oracle', 'context-changed', 'entry: the last operation changed the host\'s context chain: %s (%s)' % (d, tell), rp)
                return
            canon = deep(out[1], (), []) if out[0] == 'ok' else None
            converts = op['o'] in ('call', 'stub') or (op['o'] in ('stmt', 'stmt-nodata') and co)
            if out[0] == 'ok' and converts:
                nodes = []
                walk_result(out[1], nodes)
                hit = [n for n in nodes if type(n) in MUTABLE and id(n) in ids]
                if hit:
                    res.fail('oracle', 'result-aliases-host', 'entry: a %s of the result IS a host object (at %s of an argument) (%s)' % (
                        type(hit[0]).__name__, ids[id(hit[0])], tell), rp)
                    return
                scramble(nodes)
                for sn, x in zip(snaps, held + vals):
                    d = sn.diff(Snapshot(x))
                    if d:
                        res.fail('oracle', 'result-aliases-host', 'entry: changing the result changed host data: %s (%s)' % (d, tell), rp)
                        return
            # history independence: the same operation on a newly built equal context
            ctx2 = entry_context(world, kind, [1, [2, 3], {'k': [4]}], [(k, ENTRY_VALUES[i]()) for k, i in hostsets])
            if dollar is not None:
                engine('null').evaluate(data=ENTRY_VALUES[dollar](), context=ctx2)
            ref = entry_exec(world, op, yaql_interface.YaqlInterface(ctx2, engine), ctx2, engine, entry_vals(op))
            if out[0] == 'err' or ref[0] == 'err':
                same = out == ref or 'Timeout' in (out[1], ref[1])
            else:
                b = deep(ref[1], (), [])
                same = canon == b or opaque_in(canon) or opaque_in(b)
            if not same:
                res.fail('oracle', 'reuse-differs', 'entry: the last operation gives %s; on a newly prepared equal context it gives %s - '
                         'it sees what earlier operations left behind (%s)' % (short(canon if canon is not None else out), short(ref), tell), rp)
                return
            if op['o'] == 'call' and op['expr'] == ENTRY_PROBE and out[0] == 'ok':
                # spelled out: a parameter name reads as null unless THIS call passed it (the host binds none of these)
                n = len(op['args'])
                exp = [vals[i] if i < n else None for i in range(3)] + [dict(zip(op['kwargs'], vals[n:])).get(k) for k in 'abk']
                for j, (name, e) in enumerate(zip(['$1', '$2', '$3', '$a', '$b', '$k'], exp)):
                    if name == '$1' and n == 0 and dollar is not None:
                        continue        # `$` bound by an earlier statement evaluated on the context: the documented exception
                    if deep(e, (), []) != canon[1][j]:
                        res.fail('oracle', 'reuse-differs', 'entry: %s reads as %s in the last call, which passed %s (%s)' % (
                            name, short(canon[1][j]), 'nothing under that name' if e is None else pyrepr(e), tell), rp)
                        return
            if on_ctx:
                dollar = op['data']
            held += vals
        res.traces += 1
    # ---- yaql.create_context(data=doc): the host binds the document when it builds the context
    ndocs = 6 if tier == 'quick' else 40
    for di in range(ndocs):
        mk = rng.choice(PROV_DATA)
        doc = mk()
        before = Snapshot(doc)
        ids = {id(o): pth for pth, o in before.nodes if type(o) in MUTABLE}
        ctx = yaql.create_context(data=doc)
        ref_ctx = yaql.create_context(data=mk())
        rp = dict(part='entry', what='create_context', data=pyrepr(doc))
        d = before.diff(Snapshot(doc))
        if d:
            res.fail('oracle', 'data-mutated', 'entry: yaql.create_context(data=%s) changed the document: %s' % (pyrepr(doc), d), rp)
            return
        for text in rng.sample([t for t in PROV_TEXTS if 'hostList' not in t], 6):
            ci, co = rng.choice(CONV)
            engine = world.engine(conv_in=ci, conv_out=co)
            on = rng.choice(['ctx', 'child'])
            cb = ctx_snapshot(ctx_objects(ctx))
            c = ctx if on == 'ctx' else ctx.create_child_context()
            out = world.call(lambda: engine(text).evaluate(context=c))
            res.case(('entry', 'create_context', text, ci, co), nontrivial=False)
            hist['entry-create_context-' + out[0]] = hist.get('entry-create_context-' + out[0], 0) + 1
            tell = 'ctx = yaql.create_context(data=%s); engine(%r).evaluate(context=%s) with %s=%s %s=%s' % (
                pyrepr(doc), text, 'ctx' if on == 'ctx' else 'ctx.create_child_context()', CI, ci, CO, co)
            d = before.diff(Snapshot(doc))
            if d:
                res.fail('oracle', 'data-mutated', 'entry: %s changed the document: %s' % (tell, d), rp)
                return
            d = ctx_diff(cb, ctx_snapshot(ctx_objects(ctx)), None, False)
            if d:
                res.fail('oracle', 'context-changed', 'entry: %s changed the context: %s' % (tell, d), rp)
                return
            canon = deep(out[1], (), []) if out[0] == 'ok' else None
            if out[0] == 'ok':          # create_context converts the document whatever the engine's options: nothing of the host's is reachable
                nodes = []
                walk_result(out[1], nodes)
                hit = [n for n in nodes if type(n) in MUTABLE and id(n) in ids]
                if hit:
                    res.fail('oracle', 'result-aliases-host', 'entry: %s: a %s of the result IS the host object at %s' % (
                        tell, type(hit[0]).__name__, ids[id(hit[0])]), rp)
                    return
                if co:
                    scramble(nodes)
                    d = before.diff(Snapshot(doc))
                    if d:
                        res.fail('oracle', 'result-aliases-host', 'entry: %s: changing the result changed the document: %s' % (tell, d), rp)
                        return
            ref = world.call(lambda: engine(text).evaluate(context=ref_ctx.create_child_context()))
            if out[0] == 'err' or ref[0] == 'err':
                same = out == ref or 'Timeout' in (out[1], ref[1])
            else:
                b = deep(ref[1], (), [])
                same = canon == b or opaque_in(canon) or opaque_in(b)
            if not same:
                res.fail('oracle', 'reuse-differs', 'entry: %s gives %s, a context newly created on an equal document gives %s' % (
                    tell, short(canon if canon is not None else out), short(ref)), rp)
                return


# ====================================================================================== ctx (trace + model)

class Tracer:
    """logs the outermost context-API calls made while active"""

    def __init__(self):
        self.events = []
        self.depth = 0
        self.saved = []

    def __enter__(self):
        tr = self

        def wrap(cls, name, kind):
            orig = cls.__dict__.get(name)
            if orig is None:
                return
            self.saved.append((cls, name, orig))

            def method(obj, *a, **k):
                outer = tr.depth == 0
                tr.depth += 1
                try:
                    r = orig(obj, *a, **k)
                finally:
                    tr.depth -= 1
                if outer:
                    tr.events.append((kind, obj, a, k, r))
                return r
            setattr(cls, name, method)
        for cls in (contexts.ContextBase, contexts.Context, contexts.MultiContext, contexts.LinkedContext):
            wrap(cls, '__setitem__', 'set')
            wrap(cls, '__delitem__', 'del')
            wrap(cls, 'register_function', 'reg')
            wrap(cls, 'delete_function', 'delf')
            wrap(cls, 'create_child_context', 'child')
        return self

    def __exit__(self, *exc):
        for cls, name, orig in self.saved:
            setattr(cls, name, orig)
        self.saved = []


CTX_POOL = [
    '$', '$ + 1', 'let(x => $) -> $x', 'let(x => 1, y => 2) -> $x + $y', 'with(1, 2) -> $1 + $2', '[1, 2].unpack() -> $1',
    'def(f, $ + 1) -> f(1)', '[1, 2].select($ + 1).sum()', '[1, 2].where($ > 1).len()', 'let(x => $x) -> $x',
    'let(y => 5) -> $y', '$x', '[$x, $y, $z]', 'let(x => 1) -> let(y => $x) -> $y', '[1, 2].aggregate($1 + $2)',
    '1 as $ + 1 => v', '"ab".matches("a")', '[3, 1].orderBy($).first()', 'f()', 'def(g, 1) -> g()',
    'let($x) -> $1', '$1', '[[1, 2]].select($.unpack() -> $1)',
]
CTX_NAMES = ['x', '$x', 'y', '', '$', '$1', '1', 'z', 'v']
CTX_FNAMES = ['f', 'g', 'f_']


def run_ctx(world, drv, res, rng, tier, hist):
    from props import c17
    from yaql import yaql_interface
    n = 60 if tier == 'quick' else 800
    batch, metas = [], []
    for ci in range(n):
        history = c17.gen_history(rng, rng.randrange(3, 16))
        impl = c17.Impl()
        real_ops, obs = [], []
        lib = world.bare if ci % 3 == 0 else world.root
        hist['ctx-forest-' + ('without' if lib is world.bare else 'with') + '-finalize'] = \
            hist.get('ctx-forest-' + ('without' if lib is world.bare else 'with') + '-finalize', 0) + 1
        # the library layers are part of the forest on both sides: handles 0..k-1 (no data; `#finalize` where it is)
        chain = []
        c = lib
        while c is not None:
            chain.append(c)
            c = c.parent
        chain.reverse()
        k = len(chain)
        impl.hs = list(chain)
        ops = [dict(o='plain', parent=None if i == 0 else i - 1) for i in range(k)]
        for i, c in enumerate(chain):
            if '#finalize' in getattr(c, '_functions', {}):
                ops.append(dict(o='reg', h=i, f='#finalize', id=999, x=False))
        nlib = len(ops)

        def remap(op):
            op = dict(op)
            if 'parent' in op:
                op['parent'] = k - 1 if op['parent'] is None else op['parent'] + k
            for f in ('h', 'target'):
                if f in op:
                    op[f] += k
            if 'members' in op:
                op['members'] = [m + k for m in op['members']]
            return op
        ops += [remap(op) for op in history]
        for op in ops[nlib:]:
            impl.step(op)
        nh = len(impl.hs)
        if nh <= k:
            continue
        all_ops = list(ops)
        evals = []
        for _ in range(rng.randrange(1, 4)):
            h = rng.randrange(k, nh)
            text = rng.choice(CTX_POOL)
            with_data = rng.random() < 0.8
            v = rng.choice([0, 1, 5, 7])
            ctx = impl.hs[h]
            cin = bool(rng.randrange(2))
            try:
                st = world.parse(text, conv_in=cin)
            except Exception:   # noqa
                continue
            icall = None
            if rng.random() < 0.35:
                # the host evaluates through YaqlInterface(ctx, engine)(text, *args, **kwargs) instead
                kws = rng.sample(['x', 'y', 'k'], rng.randrange(0, 3))
                icall = ([rng.choice([0, 1, 5, 7]) for _ in range(rng.randrange(0, 3))], {k: rng.choice([2, 3]) for k in kws})
                with_data = False
            objs = ctx_objects(ctx)
            cb = ctx_snapshot(objs, world.lib_ids)
            with Tracer() as tr:
                if icall:
                    yi = yaql_interface.YaqlInterface(ctx, world.engine(conv_in=cin))
                    out = world.call(lambda: yi(text, *icall[0], **icall[1]))
                else:
                    out = world.run(st, v if with_data else utils.NO_VALUE, ctx)
            hist['ctx-' + (out[0] if out[0] == 'ok' else out[1])] = hist.get('ctx-' + (out[0] if out[0] == 'ok' else out[1]), 0) + 1
            res.case(('ctx', text, type(ctx).__name__, with_data), sample=dict(part='ctx', text=text, on=type(ctx).__name__))
            # ---- oracle 1: trace discipline - writes only to contexts created during this evaluation
            created = []
            events = tr.events
            steps = []
            undisciplined = None
            idx = 0
            if with_data and events and events[0][0] == 'set' and events[0][1] is ctx:
                idx = 1                 # `context['$'] = ..` of Statement.evaluate
            frames = [ctx]
            params = []
            if icall:
                hist['ctx-interface-calls'] = hist.get('ctx-interface-calls', 0) + 1
                # the private child of the call and the parameters published there are the interface's own doing
                if events and events[0][0] == 'child' and events[0][1] is ctx:
                    frames = [events[0][4]]
                    idx = 1
                    npar = len(icall[0]) + len(icall[1])
                    while idx < len(events) and len(params) < npar and events[idx][0] == 'set' and events[idx][1] is frames[0]:
                        params.append([events[idx][2][0], events[idx][2][1]])
                        idx += 1
                elif events and events[0][0] != 'child' and any(events[0][1] is c for c in objs):
                    undisciplined = 'the interface call began with %s%s on a context of the host chain' % (events[0][0], short(events[0][2]))
                elif events:
                    hist['ctx-interface-call-shape-unknown'] = hist.get('ctx-interface-call-shape-unknown', 0) + 1
                    continue            # not the shape the model describes: judged by the snapshot of the entry part only
            for kind, obj, a, kw_, r in events[idx:]:
                if kind == 'child':
                    if not any(obj is f for f in frames):
                        continue
                    steps.append(dict(s='child', p=[i for i, f in enumerate(frames) if f is obj][0]))
                    frames.append(r)
                    created.append(r)
                    continue
                fi = [i for i, f in enumerate(frames) if f is obj]
                if not fi or fi[0] == 0:
                    if any(obj is c for c in objs):
                        undisciplined = '%s on a context of the host chain (%s)' % (kind, short(a))
                    continue
                if kind == 'set':
                    val = a[1] if isinstance(a[1], int) and not isinstance(a[1], bool) else 0
                    steps.append(dict(s='set', f=fi[0], n=a[0], v=val))
                elif kind == 'reg':
                    steps.append(dict(s='reg', f=fi[0], fn='gen%d' % len(steps), id=1000 + len(steps), x=False))
            doing = ('YaqlInterface(ctx, engine)(%r%s%s)' % (text, ''.join(', %r' % a for a in icall[0]),
                                                           ''.join(', %s=%r' % kv for kv in icall[1].items()))
                     if icall else 'evaluating %r' % text)
            if undisciplined:
                res.fail('oracle', 'context-changed', 'ctx: %s on a %s wrote to the host\'s contexts: %s' % (
                    doing, type(ctx).__name__, undisciplined),
                         dict(part='ctx', ops=ops, text=text, h=h, data=v if with_data else None, interface_call=icall))
                return
            # ---- oracle 2: snapshot
            tgt = write_target(ctx)
            d = ctx_diff(cb, ctx_snapshot(ctx_objects(ctx), world.lib_ids), id(tgt) if tgt is not None else None, with_data)
            if d:
                res.fail('oracle', 'context-changed', 'ctx: %s on a %s changed the host chain: %s' % (
                    doing, type(ctx).__name__, d), dict(part='ctx', ops=ops, text=text, h=h, data=v if with_data else None,
                                                       interface_call=icall))
                return
            if icall:
                evals.append(dict(o='icall', h=h, params=params, fin=999, steps=steps, text=text, cin=cin, args=icall[0], kwargs=icall[1]))
            else:
                evals.append(dict(o='eval', h=h, data=with_data, v=v, fin=999, steps=steps, text=text, cin=cin))
            all_ops = all_ops + [evals[-1]]
            real_ops.append((evals[-1], 'ok'))
        if not evals:
            continue
        # real observations after everything, per step we only compare the final state (cheap) + eval steps
        final_obs = observe_ctx(impl)
        batch.append(dict(op='ctx', ops=all_ops, names=CTX_NAMES, fnames=CTX_FNAMES))
        metas.append((all_ops, final_obs))
        batch[-1]['bare'] = lib is world.bare
    if drv is None or not batch:
        return
    out = drv.ask({'p': 'C09', 'cases': batch})['res']
    for (ops, final_obs), m in zip(metas, out):
        res.traces += 1
        mo = m['steps'][-1]['obs'] if m.get('steps') else None
        if any(s['r'] == 'undisciplined' for s in m.get('steps', [])):
            res.fail('mismatch', 'ctx-model', 'ctx: the recorded trace is not disciplined in the model', dict(part='ctx', ops=ops))
            return
        if canon_obs(mo) != canon_obs(final_obs):
            res.fail('mismatch', 'ctx-model', 'ctx: model and real contexts answer differently after the evaluations: %s' %
                     short(diff_obs(mo, final_obs)), dict(part='ctx', ops=ops))
            return


def observe_ctx(impl):
    out = []
    for c in impl.hs:
        gf = []
        for f in CTX_FNAMES:
            s, e = c.get_functions(f)
            gf.append([sorted(impl.fid(d) for d in s), bool(e)])

        def val(n):
            v = c[n]
            return v if (v is None or (isinstance(v, int) and not isinstance(v, bool))) else 0
        out.append(dict(get=[val(n) for n in CTX_NAMES], has=[n in c for n in CTX_NAMES], keys=list(c.keys()),
                        col=[[sorted(impl.fid(d) for d in layer) for layer in c.collect_functions(f)] for f in CTX_FNAMES],
                        gf=gf))
    return out


def canon_obs(obs):
    if obs is None:
        return None
    return [dict(get=o['get'], has=o['has'], keys=o['keys'], col=o['col'], gf=o['gf']) for o in obs]


def diff_obs(a, b):
    ca, cb = canon_obs(a), canon_obs(b)
    for i, (x, y) in enumerate(zip(ca or [], cb or [])):
        if x != y:
            return dict(handle=i, model=x, real=y)
    return dict(model=len(ca or []), real=len(cb or []))


# ====================================================================================== conv (identities)

DOC_KINDS = ['list', 'list', 'list', 'dict', 'dict', 'set', 'tuple']


def gen_obj(rng, depth, lazy, counter, hashable=False):
    """JSON of a Python object with identities (C10's codec + "id")"""
    if depth <= 0 or rng.random() < 0.3:
        return c10.enc_scalar(rng.choice([None, True, 0, 1, 2, 7, 1.5, 'a', 'bc', '']))
    kinds = (['tuple', 'tuple', 'fset'] if hashable else
             DOC_KINDS + (['iter', 'iter', 'fset', 'fdict', 'kview', 'iview'] if lazy else []))
    k = rng.choice(kinds)
    n = rng.choice([0, 1, 2, 2, 3])
    me = counter[0]
    counter[0] += 1
    if k in ('dict', 'fdict'):
        keys = rng.sample(['a', 'b', 'c', 'key', 1, 2], min(n, 6))
        return {'m': k, 'id': me, 'l': [[c10.enc_scalar(x), gen_obj(rng, depth - 1, lazy, counter, hashable)] for x in keys]}
    if k in ('set', 'fset', 'kview'):
        return {'q': k, 'id': me, 'l': [gen_obj(rng, depth - 1, lazy, counter, True) for _ in range(n)]}
    if k == 'iview':
        # dict.items(): 2-tuples (key, value) the view makes anew at every iteration (their "id" names no host object)
        out = []
        for x in rng.sample(['a', 'b', 'c', 'key', 1, 2], min(n, 6)):
            t = counter[0]
            counter[0] += 1
            out.append({'q': 'tuple', 'id': t, 'l': [c10.enc_scalar(x), gen_obj(rng, depth - 1, lazy, counter, False)]})
        return {'q': k, 'id': me, 'l': out}
    return {'q': k, 'id': me, 'l': [gen_obj(rng, depth - 1, lazy, counter, hashable) for _ in range(n)]}


def build_obj(j, objs):
    """JSON with ids -> real Python objects; objs[id] = the object"""
    if c10.is_scalar_j(j):
        return c10.dec_scalar(j)
    if 'm' in j:
        pairs = [(build_obj(k, objs), build_obj(v, objs)) for k, v in j['l']]
        o = dict(pairs) if j['m'] == 'dict' else utils.FrozenDict(pairs)
    else:
        items = [build_obj(x, objs) for x in j['l']]
        k = j['q']
        mk = (dict, utils.FrozenDict)[j['id'] % 2]       # the views of a builtin dict / of a FrozenDict
        o = (tuple(items) if k == 'tuple' else items if k == 'list' else set(items) if k == 'set' else
             frozenset(items) if k == 'fset' else mk((x, None) for x in items).keys() if k == 'kview' else
             mk(items).items() if k == 'iview' else iter(items))
        if k in ('set', 'fset', 'kview'):
            # the JSON follows the iteration order of the real set (equal elements collapse)
            j['l'] = [next(jx for jx, ox in zip(j['l'], items) if ox is x) for x in o]
        if k == 'iter':
            objs[('content', j['id'])] = items
    objs[j['id']] = o
    return o


def strip_ids(j):
    if isinstance(j, dict) and 'z' in j:
        return {'q': 'iter', 'l': [strip_ids(x) for x in j['l']]}
    if c10.is_scalar_j(j):
        return j
    if 'm' in j:
        return {'m': j['m'], 'l': [[strip_ids(k), strip_ids(v)] for k, v in j['l']]}
    if 'z' in j:
        return {'q': 'iter', 'l': [strip_ids(x) for x in j['l']]}
    return {'q': j['q'], 'l': [strip_ids(x) for x in j['l']]}


def dedup_sets(j):
    """Python sets / dicts drop equal elements / keys; the JSON may repeat them"""
    return j


def observe_result(r, objs):
    """(structure in C10's codec, ids of the document's container objects reachable from `r` by identity).
    `map` objects: their source is read off `__reduce__`, then they are pulled."""
    byid = {id(o): i for i, o in objs.items() if not isinstance(i, tuple)}
    shared = set()

    def note(x):
        i = byid.get(id(x))
        if i is not None and objs[i] is x:
            shared.add(i)

    def go(x):
        if x is None or isinstance(x, (bool, int, float, str)):
            return c10.enc_scalar(x)
        note(x)
        t = type(x)
        if t in (dict, utils.FrozenDict):
            return {'m': 'dict' if t is dict else 'fdict', 'l': [[go(k), go(v)] for k, v in x.items()]}
        if t in (list, tuple, set, frozenset):
            return {'q': {list: 'list', tuple: 'tuple', set: 'set', frozenset: 'fset'}[t], 'l': [go(y) for y in x]}
        if t is map:
            try:
                for src in x.__reduce__()[1][1:]:
                    note(src)
            except Exception:   # noqa
                pass
        if isinstance(x, utils.IteratorType):
            return {'q': 'iter', 'l': [go(y) for y in itertools.islice(x, 1000)]}
        return {'h': 0}
    struct = go(r)
    return struct, shared


def run_conv(world, drv, res, rng, tier, hist):
    n = 250 if tier == 'quick' else 6000
    batch, metas = [], []
    for ci in range(n):
        op = rng.choice(['in', 'in', 'out', 'out', 'host', 'host', 'host'])
        lazy = op != 'host' and rng.random() < 0.4
        counter = [0]
        j = gen_obj(rng, rng.choice([1, 2, 3, 4]), lazy, counter)
        if c10.is_scalar_j(j):
            j = {'q': 'list', 'id': counter[0], 'l': [j]}
            counter[0] += 1
        objs = {}
        try:
            doc = build_obj(j, objs)
        except TypeError:
            continue            # unhashable element generated for a set: not a Python value
        nfree = counter[0]
        t2l, s2l = rng.choice([(True, False), (True, False), (False, False), (True, True), (False, True)])
        lim = rng.choice([None, None, None, 2, 3])
        case = dict(op=op, v=j, n=nfree, t2l=t2l, s2l=s2l)
        if lim is not None:
            case['lim'] = lim
        before = Snapshot(doc) if not lazy else None
        real = {}
        try:
            if op == 'in':
                r = utils.convert_input_data(doc)
                real['struct'], sh = observe_result(r, objs)
                real['shared'] = sorted(sh)
            elif op == 'out':
                eng = world.engine(conv_in=False, t2l=t2l, s2l=s2l, lim=lim)
                r = world.root('#finalize', eng)(doc)
                real['struct'], sh = observe_result(r, objs)
                real['shared'] = sorted(sh)
            else:
                # descend along a path of list / tuple / dict nodes
                path, texts, cur = [], [], j
                while not c10.is_scalar_j(cur) and rng.random() < 0.6 and cur['l']:
                    i = rng.randrange(len(cur['l']))
                    if 'm' in cur:
                        key = c10.dec_scalar(cur['l'][i][0])
                        texts.append('[%s]' % ("'%s'" % key if isinstance(key, str) else key))
                        cur = cur['l'][i][1]
                    elif cur['q'] in ('list', 'tuple'):
                        texts.append('[%d]' % i)
                        cur = cur['l'][i]
                    else:
                        break
                    path.append(i)
                wrap = rng.random() < 0.4
                cin, cout = rng.choice([(True, True), (False, True), (False, True), (False, False), (True, False)])
                text = '$' + ''.join(texts)
                if wrap:
                    text = '[%s]' % text
                case.update(path=path, wrap=wrap, cin=cin, cout=cout, text=text)
                eng_opts = dict(conv_in=cin, conv_out=cout, t2l=t2l, s2l=s2l, lim=lim)
                out, fails = observe(world, text, doc, cin, eopts=eng_opts)
                for key, what in fails:
                    res.fail('oracle', key, 'conv: %s (expression %s, data %s)' % (what, text, short(doc)),
                             dict(part='conv', case=case))
                    return
                if out[0] != 'ok':
                    real['err'] = out[1]
                else:
                    # re-evaluate for the identity observation (observe scrambled its result)
                    r = world.run(world.parse(text, **eng_opts), doc, world.root.create_child_context())[1]
                    real['struct'], sh = observe_result(r, objs)
                    real['shared'] = sorted(sh)
        except yexc.CollectionTooLargeException:
            real['err'] = 'CollectionTooLargeException'
        except TypeError as e:
            real['err'] = 'TypeError' if 'unhashable' in str(e) else 'TypeError:' + str(e)[:40]
        if before is not None and op != 'host':
            d = before.diff(Snapshot(doc))
            if d:
                res.fail('oracle', 'data-mutated', 'conv: %s changed its argument: %s' % (op, d), dict(part='conv', case=case))
                return
        hist['conv-' + op + ('-lazy' if lazy else '') + ('-err' if 'err' in real else '')] = \
            hist.get('conv-' + op + ('-lazy' if lazy else '') + ('-err' if 'err' in real else ''), 0) + 1
        res.case(('conv', op, common.digest(case)), sample=dict(part='conv', op=op, doc=short(doc)) if ci < 3 else None)
        batch.append(case)
        metas.append((case, real))
    if drv is None:
        return
    out = drv.ask({'p': 'C09', 'cases': batch})['res']
    for (case, real), m in zip(metas, out):
        res.traces += 1
        if 'err' in m or 'err' in real:
            me = {'unhashable': 'TypeError', 'tooLarge': 'CollectionTooLargeException'}.get(m.get('err'), m.get('err'))
            if me != real.get('err') and {me, real.get('err')} == {'TypeError', 'CollectionTooLargeException'} \
                    and case.get('lim') is not None:
                # two faults in one value (an unhashable element AND an oversized collection): which one is met first
                # depends on the iteration order of a set - accept either when the value has both (the model without the
                # limit then reports the other fault)
                m2 = drv.ask({'p': 'C09', 'cases': [dict(case, lim=None)]})['res'][0]
                if m2.get('err') == 'unhashable':
                    hist['conv-two-faults'] = hist.get('conv-two-faults', 0) + 1
                    continue
            if me != real.get('err'):
                res.fail('mismatch', 'conv-model', 'conv: model says %s, real code %s for %s' % (
                    m.get('err') or 'ok', real.get('err') or 'ok', short(case)), dict(part='conv', case=case))
                return
            continue
        # identity of immutable objects is an interpreter artefact (`tuple(()) is ()`): compare mutable / consumable ones
        mut = mutable_ids(case['v'])
        m['shared'] = [i for i in m['shared'] if i in mut]
        real['shared'] = [i for i in real['shared'] if i in mut]
        if sorted(m['shared']) != real['shared']:
            kind = 'oracle' if (case['op'] != 'in' and case.get('cout', True) and real['shared']) else 'mismatch'
            res.fail(kind, 'result-aliases-host' if kind == 'oracle' else 'conv-model',
                     'conv: the %s result shares the container objects %s with its argument, the model says %s (%s)' % (
                         case['op'], real['shared'], sorted(m['shared']), short(case)), dict(part='conv', case=case))
            return
        exp = strip_ids(m['ok'])
        # with convertSetsToLists a set is handed out as a list in the set's (unspecified) iteration order
        loose = case['s2l'] and has_set(case['v'])
        if not c10.matches(mark_sets(exp, loose), real['struct']):
            res.fail('mismatch', 'conv-model', 'conv: structure differs: model %s, real %s' % (
                json.dumps(exp)[:400], json.dumps(real['struct'])[:400]), dict(part='conv', case=case))
            return


def mutable_ids(j, out=None):
    out = set() if out is None else out
    if c10.is_scalar_j(j):
        return out
    if 'm' in j:
        if j['m'] == 'dict':
            out.add(j['id'])
        for k, v in j['l']:
            mutable_ids(k, out)
            mutable_ids(v, out)
    else:
        if j['q'] in ('list', 'set', 'iter'):
            out.add(j['id'])
        for x in j['l']:
            mutable_ids(x, out)
    return out


def has_set(j):
    if c10.is_scalar_j(j):
        return False
    if 'm' in j:
        return any(has_set(k) or has_set(v) for k, v in j['l'])
    return j['q'] in ('set', 'fset') or any(has_set(x) for x in j['l'])


def mark_sets(j, loose=False):
    if c10.is_scalar_j(j):
        return j
    if 'm' in j:
        return {'m': j['m'], 'l': [[mark_sets(k, loose), mark_sets(v, loose)] for k, v in j['l']]}
    r = {'q': j['q'], 'l': [mark_sets(x, loose) for x in j['l']]}
    if j['q'] in ('set', 'fset') or (loose and j['q'] == 'list'):
        r['unordered'] = True
    return r


# ====================================================================================== yaqlized

def run_yaqlized(world, res, hist):
    from yaql import yaqlization

    class Inner:
        def __init__(self):
            self.items = [1, 2]

    class Box:
        def __init__(self):
            self.lst = [1, [2]]
            self.inner = Inner()

        def get(self, x=None):
            return self.lst

        def __getitem__(self, k):
            return self.lst
    for text in ['$.lst', '$.get()', '$.get(x => 1)', '$["k"]', '$.inner', '$.lst.len()', '[$.lst, $.lst]']:
        for mode in (True, False):
            b = yaqlization.yaqlize(Box())
            out, fails = observe(world, text, b, mode)
            hist['yaqlized-' + out[0]] = hist.get('yaqlized-' + out[0], 0) + 1
            res.case(('yaqlized', text, mode), nontrivial=False)
            for key, what in fails:
                res.fail('oracle', key, 'yaqlized: %s (expression %s on a yaqlized host object)' % (what, text),
                         dict(part='yaqlized', text=text, mode=mode))
                return
            if hasattr(b.inner, '__yaqlization__'):
                res.fail('oracle', 'data-mutated', 'yaqlized: a member object was marked yaqlized without autoYaqlizeResult',
                         dict(part='yaqlized', text=text, mode=mode))
                return


# ====================================================================================== run

def run_evalstore(env, res, hist):
    """the write log of generated programs of the C04 fragment on instrumented context classes against the
    store-passing evaluator model (props/evalstore.py; Lean: Props/EvalStore.lean, Props/C09Store.lean)"""
    from props import evalstore
    evalstore.run(env, res, hist, ID)


def replay_case(world, drv, res, case, hist):
    part = case.get('part')
    if part == 'sweep':
        data = eval(case['data'], dict(PYNS))     # noqa: S307 - our own replay file
        o = case.get('opts') or [True, False]
        out, fails = observe(world, case['text'], data, case['mode'], bare=case.get('bare', False),
                             eopts=dict(t2l=o[0], s2l=o[1]))
        for key, what in fails:
            res.fail('oracle', key, '%s (expression %s, yaql.convertInputData=%s, data %s)' % (
                what, case['text'], case['mode'], case['data']), case)
        res.case(('replay', case['text']))
        return True
    if part == 'regpool' and 'steps' in case:
        mode, steps = case['mode'], case['steps']
        server = FreshServer()
        try:
            got = server.replay(mode, steps)
            exp = server.fresh(mode, steps[-1][2], steps[-1][3])
        finally:
            server.close()
        res.case(('replay', steps[-1][2]))
        if got != exp:
            regpool_report(res, mode, steps, got, exp)
        return True
    if part == 'evalstore':
        from props import evalstore
        evalstore.run(dict(driver=drv, tier=case.get('tier', 'quick'), seed=case.get('seed', 0), replay_case=case), res, hist, ID)
        return True
    if part in ('pool', 'ctx', 'conv', 'yaqlized', 'yaqleval', 'provenance', 'entry', 'regpool', 'gagg') and case.get('seed') is not None:
        rng = common.make_rng(case['seed'], ID + part)
        tier = case.get('tier', 'quick')
        if part == 'regpool':
            run_regpool(world, res, rng, tier, hist)
        elif part == 'gagg':
            run_gagg(world, drv, res, rng, tier, hist)
        elif part == 'pool':
            run_pool(world, res, rng, tier, hist)
        elif part == 'ctx':
            run_ctx(world, drv, res, rng, tier, hist)
        elif part == 'conv':
            run_conv(world, drv, res, rng, tier, hist)
        elif part == 'yaqleval':
            run_yaqleval(world, res, rng, tier, hist)
        elif part == 'provenance':
            run_provenance(world, res, rng, tier, hist)
        elif part == 'entry':
            run_entry(world, res, rng, tier, hist)
        else:
            run_yaqlized(world, res, hist)
        return True
    return False


def run(env, res):
    rng = common.make_rng(env['seed'], ID)
    tier = env['tier']
    drv = env['driver']
    hist = {}
    world = World()
    res.rule = ('sweep: one case per (registered function, parameter admitting a raw list/dict/set by its live type check, '
                'nested value shape, lambda text, function/method spelling, convertInputData mode); distinct = distinct '
                '(function, parameter, value shape, mode) whose payload was entered; pool / ctx / conv cases by '
                '(statement, data, context shape) resp. digest of the generated document and options; provenance: one '
                'history per (base conversion options, derived conversion options, derivation, expression, who parses '
                'first), non-trivial when the two option sets differ; entry: one case per host operation of a session '
                '(context class, operation kind, expression / function, engine options)')
    if env.get('replay'):
        rp = json.load(open(env['replay']))
        case = rp.get('case') or rp
        if isinstance(case, dict) and replay_case(world, drv, res, case, hist):
            res.extra['histogram'] = hist
            return
    # offending rows of the generated table direct the budget
    focus = set()
    for f in (env.get('gen') or {}).get('broken_rows', []):
        focus.add(f['fn'])
        if f['param'] == '<globals>':
            hist['directed-at-module-state-of'] = hist.get('directed-at-module-state-of', []) + [f['fn']]
    t0 = time.time()
    cases, plans = sweep_cases(world, rng, tier, focus)
    hist['sweep-cases'] = len(cases)
    # the registry pool comes FIRST: so far this process has evaluated nothing, and everything it evaluates from here on is
    # logged - a result that differs from the one of a pristine process can then be traced to the evaluations before it
    t1 = time.time()
    run_regpool(world, res, common.make_rng(env['seed'], ID + 'regpool'), tier, hist, plans)
    hist['seconds-regpool'] = round(time.time() - t1, 1)
    if res.failures:
        res.extra['histogram'] = hist
        return
    t0 = time.time()
    entered = set()
    first_fail = None
    budget = 36 if tier == 'quick' else 400
    order = list(range(len(cases)))
    rng.shuffle(order)          # a budget cut drops a random subset, not the tail of the alphabet
    if focus:
        order.sort(key=lambda i: cases[i]['fn'] not in focus)
    done = 0
    for i in order:
        c = cases[i]
        if time.time() - t0 > budget:
            hist['sweep-budget-cut-at'] = done
            break
        data = materialise(c['data'])
        h0 = world.hits.get(c['fn'], 0)
        bare = (i % 7 == 3)
        eopts = dict(t2l=c['opts'][0], s2l=c['opts'][1])
        out, fails = observe(world, c['text'], data, c['mode'], bare=bare, eopts=eopts)
        hist['sweep-opts-t2l=%s,s2l=%s' % tuple(c['opts'])] = hist.get('sweep-opts-t2l=%s,s2l=%s' % tuple(c['opts']), 0) + 1
        done += 1
        if bare:
            hist['sweep-on-context-without-finalize'] = hist.get('sweep-on-context-without-finalize', 0) + 1
        reached = c['fn'] == '<hand>' or world.hits.get(c['fn'], 0) > h0
        sig = (c['fn'], c['target'], c['value'], c['mode'])
        res.case(sig, nontrivial=reached and sig not in entered,
                 sample=dict(part='sweep', text=c['text'], data=short(data), mode=c['mode']) if reached and i % 97 == 0 else None)
        if reached:
            entered.add(sig)
        k = 'sweep-' + ('ok' if out[0] == 'ok' else out[1]) + ('' if reached else '-unreached')
        hist[k] = hist.get(k, 0) + 1
        hist['sweep-mode-' + ('conv' if c['mode'] else 'raw')] = hist.get('sweep-mode-' + ('conv' if c['mode'] else 'raw'), 0) + 1
        if fails:
            key = fails[0][0]
            sdata, sopts, sbare, what = shrink_sweep(world, c, key, bare)
            res.fail('oracle', key, '%s: %s (expression %s, yaql.convertInputData=%s, data %s)' % (
                c['fn'], what, c['text'], c['mode'], pyrepr(sdata)) + (
                    '' if sopts == [True, False] else ' [convertTuplesToLists=%s convertSetsToLists=%s]' % tuple(sopts)) + (
                    ' [context chain without #finalize]' if sbare else ''),
                dict(part='sweep', fn=c['fn'], text=c['text'], mode=c['mode'], bare=sbare, opts=sopts, data=pyrepr(sdata)))
        if len(res.failures) >= 8:
            break
    fns = {k for k in world.reg}
    hit = {k for k in fns if world.hits.get(k)}
    raw = {k for k in fns if world.raw_hits.get(k)}
    coll = {k for k, p in plans.items() if p.admits}
    hist['functions'] = len(fns)
    hist['functions-with-collection-position'] = len(coll)
    hist['functions-entered'] = len(hit)
    hist['functions-entered-with-raw-host-container'] = len(raw)
    hist['collection-functions-never-entered'] = sorted(coll - hit)[:40]
    hist['collection-functions-never-reached-by-a-raw-container'] = sorted(coll - raw)[:60]
    hist['seconds-sweep'] = round(time.time() - t0, 1)
    for part, fn in (('gagg', lambda r: run_gagg(world, drv, res, r, tier, hist)),
                     ('pool', lambda r: run_pool(world, res, r, tier, hist)),
                     ('ctx', lambda r: run_ctx(world, drv, res, r, tier, hist)),
                     ('conv', lambda r: run_conv(world, drv, res, r, tier, hist)),
                     ('yaqleval', lambda r: run_yaqleval(world, res, r, tier, hist)),
                     ('provenance', lambda r: run_provenance(world, res, r, tier, hist)),
                     ('entry', lambda r: run_entry(world, res, r, tier, hist)),
                     ('yaqlized', lambda r: run_yaqlized(world, res, hist)),
                     ('evalstore', lambda r: run_evalstore(env, res, hist))):
        if res.failures:
            break
        t1 = time.time()
        fn(common.make_rng(env['seed'], ID + part))
        hist['seconds-' + part] = round(time.time() - t1, 1)
        for f in res.failures:          # every part is reproducible on its own from (seed, tier)
            if isinstance(f.replay, dict) and f.replay.get('part') == part:
                f.replay.setdefault('seed', env['seed'])
                f.replay.setdefault('tier', tier)
    res.extra['histogram'] = hist
    res.extra['generated_table'] = dict(rows=(env.get('gen') or {}).get('rows'), flagged_and_allowed=[
        '%s:%s' % (f['fn'], f['param']) for f in (env.get('gen') or {}).get('flagged', [])],
        rows_breaking_no_param_mutation=(env.get('gen') or {}).get('broken_rows', []))


LEVEL_TEXT = ('Lean 4 theorems over (1) a model of utils.convert_input_data / convert_output_data on Python objects with '
              'allocation identities (every container node carries the identity of the object it stands for): the value bound '
              'to `$` consists of new objects only, is frozen (tuples / FrozenDict / frozenset) for every document of lists, '
              'dicts, sets and scalars, and holds host objects at most as the source of a lazily wrapped iterable; whenever '
              'the finaliser succeeds every container of the result is a new, pairwise distinct object - for all values, '
              'depths, option combinations and limits - so with output conversion on the result shares no container with '
              'the host document even when input conversion is off and raw host lists flow through (guards witnessed: '
              'generators are wrapped; yaql.convertOutputData off hands values out as they are); (2) Statement.evaluate '
              'over the C17 context model with the evaluator abstracted to its context-API calls: a run that writes only to '
              'contexts created after it started leaves every older cell unchanged (induction over step sequences), the '
              'syntactic discipline "never write through the context you were handed" implies that predicate, and evaluate '
              'changes the supplied context (plain, multi or linked, any chain) by the `$` binding only - cell level and '
              'through get_data / contains / collect_functions / get_functions from any context of the host forest; pools '
              'of statements evaluated in any order against one shared context each return what they return alone on the '
              'initial store - with the hypotheses on the evaluator discharged for a store-passing evaluator of the core '
              'fragment over mutable context cells (every write of an evaluation targets the context allocated last, hence '
              'a context the evaluation itself created: log_disciplined, writes_fresh, store_prefix_unchanged, '
              'statement_only_dollar; evalS_only_dollar, evalS_reeval_pool without hypotheses) that refines the C04 reference '
              'interpreter construct by construct (refines_eval, refines_run); (3) a table regenerated from the live registry (284 functions x parameters, decide +kernel): '
              'no payload updates a parameter, an alias or anything reachable inside it in place, stores attributes on '
              'objects it did not create, writes module state or writes to a context other than its own child.  Tie: the '
              'identity model is compared with `is`-sharing of the real converters and of `$`-path expressions in all '
              'option combinations; real evaluator traces are replayed on the context model; the oracle (deep snapshots with '
              'identity maps of data, every reachable context and the parsed statement; alias scan and scrambling of the '
              'result; reuse against a fresh parse) runs around every evaluation of a sweep over every registered function '
              'x every position admitting a raw list / dict / set, nested shapes, both input-conversion modes; the '
              'context classes are instrumented (creation serials, every __setitem__ / __delitem__ / register_function / '
              'delete_function) under generated programs of the core fragment: no write to a context that existed before, '
              'none to a context that already has a child, and the tree of contexts created / names written is the model\'s.  '
              'Host entry points: YaqlInterface.__call__ is modelled as a host step (private child, parameters published there, '
              'evaluation without data, child dropped): interface_call_frame - any number of interface calls leaves every cell '
              'of the wrapped chain (plain, multi, linked) unchanged, `$` included -, interface_call_reads, '
              'interface_history_independent (statements evaluated afterwards return what they return on the prepared store), '
              'interface_probe_reads (a later call reads only its own parameters); the harness runs sessions of host-built '
              'interfaces around the three context classes, create_context(data=..) and yaql.eval with the same snapshots, and '
              'engines derived by engine.copy / per-call options from engines with other conversion options, each evaluation '
              'judged by the options of the engine the host used.')
LEVEL_NOTE = ('(round 5: the one stateful object of the library, groupBy\'s GroupAggregator, is modelled with both lifetimes of '
              'its state - per call, as in the code: every evaluation of a pool returns what the statement returns alone '
              '(perCall_pool_independent); one object per registered function: shared_breaks_reuse, and shared_harmless_newStyle '
              'explains why a suite that uses one style per context cannot see it; that NO registered function hides such state '
              'is checked dynamically by the registry pool.)  partial: aliasing is modelled with allocation identities, not a heap; the evaluator\'s discipline and locality '
              'are hypotheses of the store-level theorems, discharged for the store-passing evaluator model of the core '
              'fragment (Model/EvalStore.lean: mutable context cells, a child context per function call, lambdas capturing '
              'context IDs; Props/C09Store.lean), which provably refines the C04 reference interpreter '
              '(EvalStore.refines_eval, all constructs) and is tied to the real context classes by the write-log run; '
              'library functions outside that fragment are covered by the generated table and the dynamic sweep; the AST '
              'scan of harness/gens/mutfacts.py is trusted and does not follow values stored into yaql objects by '
              'constructors (OrderingIterable) - those are covered by the dynamic sweep only')
TECHNIQUE = ('Lean 4 proof (mutual structural induction over Python objects with identities; induction over step sequences '
             'on the context store) + generated registry table (decide +kernel) + differential runs and snapshot oracles '
             'over the full registry')
DESIGN_REF = 'DESIGN.md section 5, C09'
