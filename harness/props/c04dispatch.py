"""C04 / C05 - the builtins of the reference interpreter are dispatched like the real registry dispatches them.

Lean side: `Model/EvalDispatch.lean` (`dispatchOf`: for every call site of `Model/Eval.lean` and every argument shape -
literal constants, keyword constants, mapping rules, other expressions by the KIND of their value - the definition Eval's
code implements or the error class it answers with, and the arguments evaluated before the decision),
`Props/C04Dispatch.lean` (`resolve_congr`: overload resolution sees of the arguments only what the candidates' parameter
types observe - for every lattice and family; ties of `dispatchOf` to `Eval`), `Props/C04DispatchGen*.lean`: against
`Gen/RegistryTypes.lean`, which `harness/gens/regtypes.py` dumps from the live `yaql.create_context()` on every run (every
FunctionDefinition with the exact smart type of every parameter, the class lattice, validators, layers), the kernel
re-proves `dispatchOf = Resolve.resolve on the live registry` for every call shape of the fragment.

This module is the dynamic side:
  sweep     every call shape of the fragment (the compiled model lists them with `dispatchOf`'s answer) is REALLY resolved
            by `runner.call` on a shadow of the live context chain (same FunctionDefinitions - parameters, types, layers,
            exclusivity - with recording payloads): chosen definition / exception class / arguments evaluated are compared
            with the model's row.  A difference is a broken tie ('mismatch') - and the row becomes a targeted test:
  programs  the offending rows (and a seeded sample of all rows on every run) are turned into expressions of the C04
            fragment over a small document and evaluated three ways (real engine / plain-Python transcription / Lean
            interpreter) with C04's own oracle: a row whose change of dispatch is observable yields a failing input."""
import itertools
import json

import common
import pyfacts

# C04DispatchGen imports the per-site kernel checks C04DispatchGenA..D (132 theorems `obs_* inv_* reps_*`); they are built with
# it and audited through `C04Dispatch_partial`, which uses every one of them (a failing part is then built twice, not thrice)
LEAN_MODULES = ['Yaql.Props.C04Dispatch', 'Yaql.Props.C04DispatchEval', 'Yaql.Props.C04DispatchGen']
REQUIRED_THEOREMS = ['Yaql.Props.C04Dispatch.' + n for n in (
    'resolve_congr resolve_kinds pattern_ok').split()] + ['Yaql.Props.C04DispatchEval.' + n for n in (
        'binop_dispatch litOk_early unop_dispatch indexer_dispatch memberOf_dispatch lambda_method_receiver').split()] + [
    'Yaql.Props.C04DispatchGen.' + n for n in (
        'C04Dispatch_partial dispatch_on_values table_sane callee_groups property_functions property_unknown').split()]
TRUSTED = ['harness/gens/regtypes.py: the translation of the live smart types into Yaql.Types.PTy (validators and expression '
           'classes identified by their verdicts on probe values; `issubclass` on the live classes), cross-checked by the '
           'sweep of harness/props/c04dispatch.py (real `runner.call` on every call shape of the fragment)']
ASSUMPTIONS = ['dispatch fragment: the call sites of Model/Eval.lean with argument shapes = literal / keyword / mapping rule / '
               'expression of each of 14 value kinds; argument lists up to the arity the definitions take plus one; '
               'keyword arguments only for let / with / dict; engine options at their defaults (yaql.iterableDicts off); '
               'kind `dict` = FrozenDict (what convert_input_data, dict() and {..} make), kind `host` = an object of a class '
               'related to nothing but `object`']


def generate():
    return pyfacts.run(['RegistryTypes'])['RegistryTypes']


# ------------------------------------------------------------------ live resolution of one call shape

class Live:
    """a shadow of the chain of yaql.create_context(): the same definitions (cloned: same parameters, same smart-type
    objects, same layer, same exclusivity) whose payloads only record which definition was called"""

    def __init__(self):
        import yaql
        from yaql.language import contexts, expressions, factory, specs, utils, exceptions
        from yaql.standard_library import queries
        self.ex, self.utils, self.exceptions, self.queries, self.contexts = expressions, utils, exceptions, queries, contexts
        self.engine = factory.YaqlFactory().create()
        chain, c = [], yaql.create_context()
        while c is not None:
            chain.append(c)
            c = c.parent
        self.called = []
        new = None
        for c in reversed(chain):
            new = contexts.Context(new)
            for name in sorted(getattr(c, '_functions', {})):
                for fd in c._functions[name]:
                    cl = fd.clone()
                    cl.payload = self._recorder(fd)
                    new.register_function(cl, exclusive=name in getattr(c, '_exclusive_funcs', ()))
        self.root = new
        self.log = []
        self.values = {}

        @specs.parameter('i', int)
        def probe(i):
            self.log.append(i)
            return self.values[i]
        self.ctx = new.create_child_context()
        self.ctx.register_function(probe, name='#probe')

    def _recorder(self, fd):
        name = fd.payload.__module__.split('.')[-1] + '.' + fd.payload.__name__

        def rec(*a, **k):
            self.called.append(name)
        return rec

    def value(self, kind):
        u, q = self.utils, self.queries
        if kind == 'ordered':
            oi = q.OrderingIterable((2, 1), lambda a, b: a < b, lambda a, b: a > b)
            oi.append_field(lambda x: x, True)
            return oi
        return {'null': lambda: None, 'bool': lambda: True, 'int': lambda: 3, 'float': lambda: 1.5, 'str': lambda: 'ab',
                'tuple': lambda: (1, 2), 'list': lambda: [1, 2], 'dict': lambda: u.FrozenDict({'a': 1}),
                'set': lambda: frozenset((1,)), 'iter': lambda: iter((1, 2)), 'lazy': lambda: (x for x in (1, 2)),
                'ctx': lambda: self.contexts.Context(), 'host': lambda: object()}[kind]()

    def arg(self, shape, pid):
        ex = self.ex
        if isinstance(shape, list):
            return ex.MappingRuleExpression(self.arg(shape[1], 10 * pid), self.arg(shape[2], 10 * pid + 1))
        tag, _, rest = shape.partition(':')
        if tag == 'L':
            return ex.Constant({'null': None, 'bool': True, 'int': 3, 'float': 1.5, 'str': 'ab'}[rest])
        if tag == 'K':
            return ex.KeywordConstant(rest)
        if tag == 'V':
            return self.value(rest)
        fn, _, kind = rest.partition(':')
        self.values[pid] = self.value(kind)
        node = ex.Function('#probe', ex.Constant(pid))
        return node if fn == '1' else ex.Wrap(node)

    def resolve(self, row):
        """-> (log, outcome) in the vocabulary of the model's rows"""
        e = self.exceptions
        self.log, self.called, self.values = [], [], {}
        args = [self.arg(s, i + 1) for i, s in enumerate(row['a'])]
        recv = self.utils.NO_VALUE if row['r'] is None else self.value(row['r'])
        try:
            self.ctx(row['n'], self.engine, recv, self.ctx)(*args)
        except (e.NoMatchingFunctionException, e.NoMatchingMethodException):
            return self.log, 'noMatching'
        except (e.NoFunctionRegisteredException, e.NoMethodRegisteredException):
            return self.log, 'unknown'
        except (e.AmbiguousFunctionException, e.AmbiguousMethodException):
            return self.log, 'ambiguous'
        except e.MappingTranslationException:
            return self.log, 'mapping'
        except e.ArgumentException:
            return self.log, 'argument'
        except Exception as x:      # noqa - anything else out of the resolution is an outcome of its own
            return self.log, 'raised:' + type(x).__name__
        return self.log, 'T:' + (self.called[0] if len(self.called) == 1 else 'called%d' % len(self.called))


# ------------------------------------------------------------------ rows as programs of the C04 fragment

DOC = {'n': None, 'b': True, 'i': 3, 'f': 1.5, 's': 'ab', 'l': (1, 2), 'd': {'a': 1}}
LITS = {'null': None, 'bool': True, 'int': 3, 'float': 1.5, 'str': 'ab'}
DOLLAR = ['var', '$']


def kind_expr(kind):
    """an expression of the fragment whose value has the kind (None: the fragment cannot make one)"""
    field = {'null': 'n', 'bool': 'b', 'int': 'i', 'float': 'f', 'str': 's', 'tuple': 'l', 'dict': 'd'}.get(kind)
    if field:
        return ['member', DOLLAR, field]
    if kind == 'lazy':
        return ['method', ['member', DOLLAR, 'l'], 'select', [DOLLAR], []]
    if kind == 'ordered':
        return ['method', ['member', DOLLAR, 'l'], 'orderBy', [DOLLAR], []]
    if kind == 'ctx':
        return ['call', 'let', [], [[['kw', 'x'], ['lit', 1]]]]
    return None


def shape_expr(shape):
    if isinstance(shape, list):
        return None
    tag, _, rest = shape.partition(':')
    if tag == 'L':
        return ['lit', LITS[rest]]
    if tag == 'K':
        return ['kw', rest]
    if tag == 'E':
        return kind_expr(rest.partition(':')[2])
    return None


def _kind_of(shape):
    return shape.rpartition(':')[2] if isinstance(shape, str) and shape[:2] == 'E:' else None


def program_of(row):
    """the expression that makes the call of the row (None: not expressible in the fragment)"""
    # a lazy sequence / ordering / context as a dict KEY is doc-silent: the reference models take it for unhashable
    # (TypeError), the implementation hashes a generator by identity (KeyError / the default) - no prediction there
    if (row['c'] == 'indexer' and len(row['a']) >= 2 and _kind_of(row['a'][0]) == 'dict' and
            _kind_of(row['a'][1]) in ('lazy', 'ordered', 'ctx')) or \
            (row['c'] == 'fn:get' and row['r'] == 'dict' and row['a'] and _kind_of(row['a'][0]) in ('lazy', 'ordered', 'ctx')):
        return None
    pos, kw = [], []
    for s in row['a']:
        if isinstance(s, list):
            k, v = shape_expr(s[1]), shape_expr(s[2])
            if k is None or v is None:
                return None
            kw.append([k, v])
        else:
            x = shape_expr(s)
            if x is None:
                return None
            pos.append(x)
    c = row['c']
    if row['r'] is not None:
        r = kind_expr(row['r'])
        if r is None or not c.startswith('fn:'):
            return None
        return ['method', r, c[3:], pos, kw]
    if c.startswith('fn:'):
        return ['call', c[3:], pos, kw]
    if c == 'map':
        return ['map', kw] if not pos else None
    if kw:
        return None
    if c.startswith('bin:') and len(pos) == 2:
        return ['bin', c[4:], pos[0], pos[1]]
    if c.startswith('un:') and len(pos) == 1:
        return ['un', c[3:], pos[0]]
    if c == 'indexer' and len(pos) >= 2:
        return ['index', pos[0], pos[1:]]
    if c == 'dot' and len(pos) == 2 and pos[1][0] == 'kw':
        return ['member', pos[0], pos[1][1]]
    if c == 'arrow' and len(pos) == 2:
        return ['arrow', pos[0], pos[1]]
    if c == 'list':
        return ['list', pos]
    return None


def row_key(row):
    return '%s|%s|%s' % (row['c'], row['r'], json.dumps(row['a'], separators=(',', ':')))


def run_programs(c04, drv, res, rows, why):
    """C04's three-way evaluation on the rows that are expressible; -> (programs run, oracle failures)"""
    import evalgen
    cases, n_fail = [], 0
    for row in rows:
        ast = program_of(row)
        if ast is None:
            continue
        try:
            evalgen.render(ast)
        except ValueError:
            continue
        cases.append((row, ast))
    models = c04.ask_model(drv, [(ast, DOC) for _, ast in cases])
    for (row, ast), model in zip(cases, models):
        f, info = c04.evaluate_case(ast, DOC, model)
        res.case(common.digest([info['text'], 'dispatch-row']), True)
        if drv is not None:
            res.traces += 1
        if f:
            n_fail += 1
            what = '%s || call shape %s (%s)' % (f[1], row_key(row), why)
            res.fail(f[0], f[2] or 'dispatch:' + row['c'], what, c04.replay_of(ast, DOC))
    return len(cases), n_fail


def replay(env, res, case):
    """one row of the sweep again"""
    drv = env['driver']
    row = case['row']
    if drv is not None:
        row = drv.ask({'p': 'C04D', 'shapes': [dict(c=row['c'], r=row['r'], a=row['a'])]})['rows'][0]
    log, out = Live().resolve(row)
    res.case(common.digest([row_key(row), 'dispatch']), True, sample=row_key(row))
    res.traces += 1
    if row.get('out') is None or (log, out) != (row.get('log'), row['out']):
        res.fail('mismatch', 'dispatch:' + row['c'], 'call shape %s: the live registry gives %s after evaluating %s, Eval '
                 'dispatches to %s after %s' % (row_key(row), out, log, row.get('out'), row.get('log')),
                 dict(section='dispatch', row=row))
    return res


def run_section(env, res, c04):
    drv = env['driver']
    res.assumptions += ASSUMPTIONS
    hist = dict(rows=0, by_callee={}, outcomes={}, mismatching_rows=0, programs=0, trusted=TRUSTED)
    if drv is None:
        res.extra['dispatch'] = dict(hist, note='model driver unavailable: sweep skipped')
        return
    rows = drv.ask({'p': 'C04D', 'fragment': 1})['rows']
    live = Live()
    bad = []
    for row in rows:
        log, out = live.resolve(row)
        hist['rows'] += 1
        hist['by_callee'][row['c']] = hist['by_callee'].get(row['c'], 0) + 1
        o = out if not out.startswith('T:') else 'target'
        hist['outcomes'][o] = hist['outcomes'].get(o, 0) + 1
        res.case(common.digest([row_key(row), 'dispatch']), out != 'unknown')
        res.traces += 1
        if row['out'] is None or (log, out) != (row['log'], row['out']):
            bad.append((row, log, out))
    hist['mismatching_rows'] = len(bad)
    # the offending rows first (a failing input is found when the change of dispatch is observable) ...
    n_prog = 0
    if bad:
        by_callee = {}
        for row, log, out in bad:
            by_callee.setdefault(row['c'], []).append((row, log, out))
        picked = list(itertools.chain.from_iterable(v[:60] for v in by_callee.values()))[:600]
        n, n_fail = run_programs(c04, drv, res, [r for r, _, _ in picked], 'the live registry resolves it differently')
        n_prog += n
        hist['offending_rows_as_programs'] = dict(run=n, failing=n_fail)
        for c, v in sorted(by_callee.items())[:12]:
            row, log, out = v[0]
            res.fail('mismatch', 'dispatch:' + c,
                     'call shape %s: the live registry gives %s after evaluating %s, Eval dispatches to %s after %s '
                     '(%d shapes of this call site differ)' % (row_key(row), out, log, row['out'], row.get('log'), len(v)),
                     dict(section='dispatch', row=row))
    # ... and a seeded sample of all rows on every run (the builder of programs must not alarm on the unchanged tree)
    rng = common.make_rng(env['seed'], 'C04-dispatch')
    sample = rng.sample(rows, min(len(rows), 500 if env['tier'] == 'quick' else 4000))
    n, n_fail = run_programs(c04, drv, res, sample, 'sampled row')
    n_prog += n
    hist['programs'] = n_prog
    hist['sampled_rows_as_programs'] = dict(run=n, failing=n_fail)
    res.extra['dispatch'] = hist
