"""Write-log part of C09 / C18: what an evaluation WRITES, on the real engine with instrumented context classes,
against the store-passing evaluator model `lean/Yaql/Model/EvalStore.lean` (theorems: Props/EvalStore.lean,
Props/C09Store.lean, Props/C18Store.lean).  Called from props/c09.py and props/c18.py.

Programs: C04's type-directed generator (harness/evalgen.py) over a random JSON-like document.
Instrumentation (installed at run time, removed afterwards; nothing under /repo is touched): every context
constructor (`ContextBase.__init__`, i.e. `create_child_context` of Context / MultiContext / LinkedContext and any
direct construction) gives the new context a creation serial; `__setitem__`, `__delitem__`, `register_function`,
`delete_function` of the three classes are logged with the context they finally write (the plain `Context`).

Oracle, on the real code alone (= the property): during `statement.evaluate(data, context)`
  (O1) no context that existed before the evaluation started is written - except `context['$'] = data`, the first
       thing `evaluate` does, on the context it was handed (C09: the host's chain keeps its variables and functions;
       C18: with several threads, no thread writes the shared context or a context of another thread);
  (O2) no context is written once it is shared, i.e. once a child context of it exists (a binding published into a
       scope other code already runs in leaks outward; the representation argument of C04's evaluator);
  backstop without instrumentation: `_data` / `_functions` of the handed context and of its ancestors are compared
  with a snapshot taken before.
Correspondence: the real log, as the tree of contexts created (children in creation order, each with the names
written into it, IDs relative to the start of the evaluation) must be the tree the model logs - exactly, or, where a
consumer stops early / an exception cuts the evaluation, a prefix of it (the model runs generators eagerly; see the
header of Model/EvalStore.lean); and the value must be the model's.  A difference the oracle does not see is a
`mismatch`."""
import json
import signal
import sys
import threading
import time

import common
import evalgen
import values  # noqa

from yaql.language import contexts, specs

from props import c04

FUEL = 400
WRITE_METHODS = (('__setitem__', 's'), ('__delitem__', 'd'), ('register_function', 'r'), ('delete_function', 'x'))
SORTED = ('orderBy', 'orderByDescending')


def norm_name(name):
    """`Context._normalize_name`, transcribed"""
    if not isinstance(name, str):
        return repr(name)
    if not name.startswith('$'):
        name = '$' + name
    return '$1' if name == '$' else name


def spec_name(spec, kwargs):
    if isinstance(spec, specs.FunctionDefinition):
        return kwargs.get('name') or spec.name
    fd = getattr(spec, '__yaql_function__', None)
    return kwargs.get('name') or (fd.name if fd is not None and fd.name else getattr(spec, '__name__', '?'))


class Log:
    """the context-API events of one evaluation (one thread)"""

    def __init__(self, start):
        self.start = start
        self.num = {id(start): 0}
        self.keep = [start]
        self.next = 1
        self.events = []           # ('a', id, parent) | (kind, id, name, plain)
        p, k = getattr(start, 'parent', None), -1
        while p is not None and id(p) not in self.num:
            self.num[id(p)] = k
            self.keep.append(p)
            p, k = getattr(p, 'parent', None), k - 1
        self.foreign = k

    def of(self, obj):
        n = self.num.get(id(obj))
        if n is None:              # neither created in this evaluation nor on the host's chain: somebody else's
            n = self.num[id(obj)] = self.foreign
            self.foreign -= 1
            self.keep.append(obj)
        return n

    def new(self, obj, parent):
        n = self.num[id(obj)] = self.next
        self.next += 1
        self.keep.append(obj)
        self.events.append(('a', n, self.of(parent) if parent is not None else None))

    def write(self, kind, obj, name):
        self.events.append((kind, self.of(obj), name, type(obj) is contexts.Context))


class Recorder:
    def __init__(self):
        self.saved = []
        self.local = threading.local()

    def log(self):
        return getattr(self.local, 'log', None)

    def __enter__(self):
        rec = self
        orig_init = contexts.ContextBase.__init__
        self.saved.append((contexts.ContextBase, '__init__', orig_init))

        def init(obj, parent_context=None, convention=None):
            orig_init(obj, parent_context, convention)
            lg = rec.log()
            if lg is not None:
                lg.new(obj, parent_context)
        contexts.ContextBase.__init__ = init

        def wrap(cls, name, kind):
            orig = cls.__dict__.get(name)
            if orig is None or getattr(orig, '__isabstractmethod__', False):
                return
            self.saved.append((cls, name, orig))

            def method(obj, *a, **k):
                lg = rec.log()
                if lg is not None:
                    if kind in ('s', 'd'):
                        what = norm_name(a[0]) if a else '?'
                    else:
                        what = spec_name(a[0], k) if a else '?'
                    lg.write(kind, obj, what)
                return orig(obj, *a, **k)
            setattr(cls, name, method)
        for cls in (contexts.Context, contexts.MultiContext, contexts.LinkedContext):
            for name, kind in WRITE_METHODS:
                wrap(cls, name, kind)
        return self

    def __exit__(self, *exc):
        for cls, name, orig in reversed(self.saved):
            setattr(cls, name, orig)
        self.saved = []

    def begin(self, start):
        self.local.log = Log(start)

    def end(self):
        lg, self.local.log = self.local.log, None
        return lg


# ------------------------------------------------------------------ snapshots (backstop, no instrumentation)

def chain_of(ctx):
    out = []
    while ctx is not None:
        out.append(ctx)
        ctx = ctx.parent
    return out


def snap(ctx):
    if type(ctx) is not contexts.Context:
        return None
    return (dict(ctx._data), {k: set(v) for k, v in ctx._functions.items()}, set(ctx._exclusive_funcs))


def snap_diff(before, after, is_start):
    if before is None or after is None:
        return None
    d0, f0, x0 = before
    d1, f1, x1 = after
    for k in set(d0) | set(d1):
        if is_start and k == '$1':
            continue
        if k not in d1:
            return 'variable %s was deleted' % k
        if k not in d0:
            return 'variable %s appeared' % k
        if d0[k] is not d1[k] and d0[k] != d1[k]:
            return 'variable %s changed' % k
    for k in set(f0) | set(f1):
        if f0.get(k, set()) != f1.get(k, set()):
            return 'the overloads of function %s changed' % k
    if x0 != x1:
        return 'the exclusive-function flags changed'
    return None


# ------------------------------------------------------------------ one evaluation on the real engine

class Timeout(BaseException):
    pass


def _alarm(signum, frame):
    raise Timeout()


def evaluate_real(rec, text, doc, start, timeout=None):
    """-> (result as c04.plain_result / ('err', class), Log)"""
    eng, _root = c04.engine()
    try:
        st = eng(text)
    except Exception as e:       # noqa
        return ('err', type(e).__name__), None
    data = evalgen.to_host(doc)
    old = None
    if timeout and threading.current_thread() is threading.main_thread():
        old = signal.signal(signal.SIGALRM, _alarm)
        signal.setitimer(signal.ITIMER_REAL, timeout)
    rec.begin(start)
    try:
        try:
            r = c04.plain_result(st.evaluate(data=data, context=start))
        except Timeout:
            r = ('err', 'Timeout')
        except RecursionError:
            r = ('err', 'RecursionError')
        except Exception as e:   # noqa
            r = ('err', type(e).__name__)
    finally:
        lg = rec.end()
        if old is not None:
            signal.setitimer(signal.ITIMER_REAL, 0)
            signal.signal(signal.SIGALRM, old)
    return r, lg


# ------------------------------------------------------------------ the oracle on a real log

KIND = {'s': 'set', 'd': 'deleted', 'r': 'registered', 'x': 'unregistered'}


def where(n):
    if n == 0:
        return 'the context handed to evaluate'
    if n is not None and n < 0:
        return 'a context that existed before the evaluation (%s)' % (
            'its parent' if n == -1 else 'ancestor %d' % -n if n > -50 else 'not created by this evaluation')
    return 'context #%s' % n


def oracle(events):
    """-> None | (key, text)"""
    has_child = set()
    first = True
    for ev in events:
        if ev[0] == 'a':
            if ev[2] is not None:
                has_child.add(ev[2])
            continue
        kind, n, name, plain = ev
        by_evaluate = first and kind == 's' and n == 0 and name == '$1'
        first = False
        if by_evaluate:
            continue
        if n <= 0:
            return ('write-to-older-context', '%s %s in %s' % (name, KIND[kind], where(n)))
        if n in has_child:
            return ('write-to-shared-context', '%s %s in context #%d after a child context of it was created' % (
                name, KIND[kind], n))
    return None


# ------------------------------------------------------------------ trees

def tree_of(events, root):
    """{'w': [(kind, name)..], 'c': [child trees]}, orphans (contexts whose parent is outside the tree)"""
    nodes = {root: {'w': [], 'c': []}}
    orphans = 0
    for ev in events:
        if ev[0] == 'a':
            _, n, p = ev
            nodes[n] = {'w': [], 'c': []}
            if p in nodes:
                nodes[p]['c'].append(nodes[n])
            else:
                orphans += 1
        else:
            kind, n, name = ev[0], ev[1], ev[2]
            if len(ev) > 3 and not ev[3]:
                continue            # the Multi / Linked level of a write that ends in a plain context
            if n in nodes:
                nodes[n]['w'].append((kind, name))
    return nodes[root], orphans


def canon(t):
    """order-insensitive form: a context's children sorted (a closure's context gets a child whenever the function is
    applied - for a generator's element that is when it is consumed, between younger eager siblings)"""
    return (tuple(t['w']), tuple(sorted(canon(c) for c in t['c'])))


def tree_le(r, m, memo=None):
    """the real tree embeds into the model's: node by node the writes are a prefix and the children map injectively
    to children they embed into (bipartite matching)"""
    if memo is None:
        memo = {}
    key = (id(r), id(m))
    if key in memo:
        return memo[key]
    ok = r['w'] == m['w'][:len(r['w'])] and len(r['c']) <= len(m['c'])
    if ok and r['c']:
        match = {}

        def aug(i, seen):
            for j, mc in enumerate(m['c']):
                if j in seen or not tree_le(r['c'][i], mc, memo):
                    continue
                seen.add(j)
                if j not in match or aug(match[j], seen):
                    match[j] = i
                    return True
            return False
        ok = all(aug(i, set()) for i in range(len(r['c'])))
    memo[key] = ok
    return ok


def tree_size(t):
    return 1 + sum(tree_size(c) for c in t['c'])


def tree_writes(t):
    return len(t['w']) + sum(tree_writes(c) for c in t['c'])


def show_tree(t, depth=0, limit=40):
    out = []

    def walk(n, d):
        if len(out) >= limit:
            return
        out.append('%s(%s)' % ('.' * d, ' '.join('%s:%s' % w for w in n['w'])))
        for c in n['c']:
            walk(c, d + 1)
    walk(t, depth)
    return ' '.join(out)


def model_events(log):
    """driver entries (IDs: 0 = root, 1 = the handed context) -> events relative to the handed context"""
    out = []
    for e in log:
        if e[0] == 'a':
            out.append(('a', e[1] - 1, e[2] - 1))
        else:
            out.append((e[0], e[1] - 1, e[2], True))
    return out


def ask_model(drv, cases):
    if drv is None:
        return [None] * len(cases)
    out = []
    for i in range(0, len(cases), 200):
        rs = drv.ask({'p': 'EvalStore', 'fuel': FUEL,
                      'cases': [{'doc': c04.enc_doc(doc), 'e': c04.wire(ast)} for ast, doc in cases[i:i + 200]]})['res']
        out += [(c04.dec_model(m), model_events(m.get('log', []))) for m in rs]
    return out


def has_sort(ast):
    return any(s in json.dumps(ast) for s in SORTED)


# ------------------------------------------------------------------ a case

def check_case(rec, ast, doc, model, root, hist=None):
    """-> (failure or None, info); failure = (kind, key, what)"""
    text = evalgen.render(ast)
    start = root.create_child_context()
    chain = chain_of(start)
    before = [snap(c) for c in chain]
    real, lg = evaluate_real(rec, text, doc, start, timeout=10)
    info = dict(text=text, real=real, events=lg.events if lg else [])
    if lg is None or (real[0] == 'err' and real[1] in ('RecursionError', 'MemoryError', 'Timeout')):
        return None, info
    at = '%s on %s' % (text, json.dumps(evalgen.to_host(doc), sort_keys=True))
    o = oracle(lg.events)
    if o:
        return ('oracle', o[0], '%s: %s' % (at, o[1])), info
    for i, c in enumerate(chain):
        d = snap_diff(before[i], snap(c), i == 0)
        if d:
            return ('oracle', 'unlogged-write', '%s: in %s %s (no context-API call was logged for it)' % (
                at, where(-i), d)), info
    if model is None:
        return None, info
    mval, mev = model
    if mval[0] == 'ood':
        info['ood'] = True
        return None, info
    if c04.agree(real, mval) is False:
        return ('mismatch', 'value', '%s: real %s, store model %s' % (at, c04.show(real), c04.show(mval))), info
    rt, orphans = tree_of(lg.events, 0)
    mt, _ = tree_of(mev, 0)
    info['contexts'] = tree_size(rt) - 1
    info['writes'] = tree_writes(rt)
    if orphans:
        return ('mismatch', 'orphan-context', '%s: %d contexts were created under a context that is not part of the '
                'evaluation\'s own tree' % (at, orphans)), info
    if has_sort(ast):
        info['cmp'] = 'sort-skipped'
        return None, info
    if rt == mt:
        info['cmp'] = 'exact'
        return None, info
    if canon(rt) == canon(mt):
        info['cmp'] = 'exact-up-to-creation-order'
        return None, info
    if tree_le(rt, mt):
        info['cmp'] = 'embedded'
        return None, info
    return ('mismatch', 'write-log', '%s: contexts created / names written differ: real %s || model %s' % (
        at, show_tree(rt), show_tree(mt))), info


def fails(rec, drv, ast, doc, root, kind, key):
    try:
        evalgen.render(ast)
        m = ask_model(drv, [(ast, doc)])[0]
        f, _ = check_case(rec, ast, doc, m, root)
    except Exception:   # noqa
        return None
    return f if f and f[0] == kind and f[1] == key else None


def shrink(rec, drv, ast, doc, root, kind, key, budget=300):
    changed = True
    while changed and budget > 0:
        changed = False
        for cand in evalgen.shrink_candidates(ast):
            if evalgen.size(cand) >= evalgen.size(ast):
                continue
            budget -= 1
            if budget <= 0:
                break
            if fails(rec, drv, cand, doc, root, kind, key):
                ast, changed = cand, True
                break
        if changed:
            continue
        for cand in c04.shrink_doc_candidates(doc):
            budget -= 1
            if budget <= 0:
                break
            if fails(rec, drv, ast, cand, root, kind, key):
                doc, changed = cand, True
                break
    return ast, doc


def replay_of(ast, doc, prop):
    return dict(part='evalstore', prop=prop, ast=c04.wire(ast), doc=c04.enc_doc(doc), text=evalgen.render(ast))


def report(res, rec, drv, ast, doc, root, f, prop):
    sast, sdoc = shrink(rec, drv, ast, doc, root, f[0], f[1])
    g = fails(rec, drv, sast, sdoc, root, f[0], f[1])
    if g is None:
        sast, sdoc, g = ast, doc, f
    res.fail(g[0], 'evalstore-' + g[1], 'write log: ' + g[2], replay_of(sast, sdoc, prop))


# ------------------------------------------------------------------ fixed programs (every run)

FIXED = [
    '$', '$.a', '1 + 2', 'let(x => 1) -> $x', 'let(1, y => $) -> [$1, $y]', 'with(1, 2) -> $1 + $2',
    '[1, 2].unpack(a, b) -> $a + $b', '[2, 3].unpack() -> $1 + $2', 'def(f, $ + 1) -> f(1)',
    'def(f, $1 + $k) -> f(1, k => 2)', '[1, 2].select($ + 1)', '[1, 2].where($ > 1).first()',
    '[[1, 2], [3]].select($.select($ * 2))', '[1, 2, 3].aggregate($1 + $2)', '[1, 2].toDict($, $ + 1)',
    'any([1, 2], $ > 1)', 'true and false', 'false or 1', '[{a => 1}, {a => 2}].a', '[let(x => 1) -> $x, $x]',
    'let(x => 1) -> [1, 2].select($ + $x)', 'def(f, $ + 1) -> [1, 2].select(f($))', '[1, 2].select(let(y => $) -> $y)',
    'with(7) -> [$, [1].select($)]', '[1, 2].len()', 'len([1, 2])', '[1, 2].take(1)', '{a => [1, {b => 2}]}', 'nosuch(1)',
    '[1].nosuch()', '1.a', '[3, 1, 2].select($ + 1).take(2)', '[1, 2].select($x)', 'dict(a => 1)', 'list([1], 2)',
]


def parse(text):
    eng, _ = c04.engine()
    return evalgen.from_yaql(eng(text).expression)


# ------------------------------------------------------------------ threads (C18)

def run_threads(rec, drv, res, rng, root, n_groups, hist, prop, depth):
    """groups of 2-4 programs evaluated at the same time, each in its own child of the shared context: every thread's
    log must pass the oracle (a context of another thread counts as one that existed before) and be the model's"""
    import sys as _sys
    old = _sys.getswitchinterval()
    done = 0
    try:
        _sys.setswitchinterval(1e-5)
        for _ in range(n_groups):
            k = rng.choice((2, 3, 4))
            group = []
            while len(group) < k:
                ast, doc, _t = evalgen.program(rng, depth)
                m = ask_model(drv, [(ast, doc)])[0] if drv is not None else None
                if m is not None and m[0][0] == 'ood':
                    continue        # no prediction (possibly no termination within the fuel): not run unattended
                group.append((ast, doc, m))
            starts = [root.create_child_context() for _ in group]
            before = snap(root)
            outs = [None] * k
            barrier = threading.Barrier(k)

            def body(i):
                ast, doc, _m = group[i]
                barrier.wait()
                outs[i] = evaluate_real(rec, evalgen.render(ast), doc, starts[i])
            ths = [threading.Thread(target=body, args=(i,), daemon=True) for i in range(k)]
            for t in ths:
                t.start()
            for t in ths:
                t.join(30)
            if any(t.is_alive() for t in ths):
                hist['threads-timeout'] = hist.get('threads-timeout', 0) + 1
                continue
            d = snap_diff(before, snap(root), False)
            if d:
                res.fail('oracle', 'evalstore-shared-context-changed', 'write log: %d concurrent evaluations, afterwards in '
                         'the shared context %s' % (k, d), dict(part='evalstore', prop=prop, group=[
                             replay_of(a, dd, prop) for a, dd, _ in group]))
                return
            for i, (ast, doc, m) in enumerate(group):
                real, lg = outs[i]
                done += 1
                res.case(common.digest([evalgen.render(ast), repr(doc), 'thr']), True)
                if lg is None:
                    continue
                o = oracle(lg.events)
                at = '%s on %s (one of %d concurrent evaluations)' % (
                    evalgen.render(ast), json.dumps(evalgen.to_host(doc), sort_keys=True), k)
                if o:
                    res.fail('oracle', 'evalstore-' + o[0], 'write log: %s: %s' % (at, o[1]),
                             dict(part='evalstore', prop=prop, group=[replay_of(a, dd, prop) for a, dd, _ in group]))
                    return
                if m is None:
                    continue
                res.traces += 1
                if c04.agree(real, m[0]) is False:
                    res.fail('mismatch', 'evalstore-thread-value', 'write log: %s: real %s, store model %s' % (
                        at, c04.show(real), c04.show(m[0])), dict(part='evalstore', prop=prop, group=[
                            replay_of(a, dd, prop) for a, dd, _ in group]))
                    return
                rt, orphans = tree_of(lg.events, 0)
                mt, _ = tree_of(m[1], 0)
                if not has_sort(ast) and (orphans or not tree_le(rt, mt)):
                    res.fail('mismatch', 'evalstore-thread-write-log', 'write log: %s: contexts created / names written '
                             'differ from the model: real %s || model %s' % (at, show_tree(rt), show_tree(mt)),
                             dict(part='evalstore', prop=prop, group=[replay_of(a, dd, prop) for a, dd, _ in group]))
                    return
    finally:
        _sys.setswitchinterval(old)
        hist['threaded-evaluations'] = done


# ------------------------------------------------------------------ entry

def run(env, res, hist, prop, threads=False):
    """prop: 'C09' | 'C18' (the property reporting the failures); fills hist['evalstore']"""
    drv = env['driver']
    tier = env['tier']
    rng = common.make_rng(env['seed'], prop + '/evalstore')
    h = {}
    hist['evalstore'] = h
    _eng, root = c04.engine()
    t0 = time.time()
    with Recorder() as rec:
        rp = env.get('replay_case')
        if rp is None and env.get('replay'):
            rp = json.load(open(env['replay']))
            rp = rp.get('case') or rp
            if not (isinstance(rp, dict) and rp.get('part') == 'evalstore'):
                return
        if rp is not None:
            cases = rp.get('group') or [rp]
            for c in cases:
                ast, doc = c04.unwire(c['ast']), c04.dec_doc(c['doc'])
                m = ask_model(drv, [(ast, doc)])[0]
                f, info = check_case(rec, ast, doc, m, root)
                res.case(common.digest([info['text'], repr(doc)]), True, sample=info['text'])
                res.traces += 1 if drv is not None else 0
                if f:
                    res.fail(f[0], 'evalstore-' + f[1], 'write log: ' + f[2], replay_of(ast, doc, prop))
            return
        n = ((1500 if prop == 'C09' else 900) if tier == 'quick' else 6000)
        depth = 4 if tier == 'quick' else 5
        batch = [(parse(t), {'a': 1, 'xs': (1, 2), 's': 'q'}) for t in FIXED]
        for _ in range(n):
            ast, doc, _t = evalgen.program(rng, depth)
            batch.append((ast, doc))
        models = ask_model(drv, batch)
        cmpk, errs, sizes, cons = {}, {}, {}, {}
        nctx = nwr = 0
        for (ast, doc), m in zip(batch, models):
            f, info = check_case(rec, ast, doc, m, root)
            real = info['real']
            res.case(common.digest([info['text'], repr(doc), 'wl']), real[0] != 'err' and not info.get('ood'),
                     sample=dict(part='evalstore', text=info['text'], contexts=info.get('contexts'),
                                 writes=info.get('writes')) if info.get('writes', 0) > 3 and len(res.samples) < 3 else None)
            if m is not None and not info.get('ood'):
                res.traces += 1
            k = 'out-of-domain' if info.get('ood') else info.get('cmp', 'not-compared')
            cmpk[k] = cmpk.get(k, 0) + 1
            e = real[0] if real[0] != 'err' else real[1]
            errs[e] = errs.get(e, 0) + 1
            nctx += info.get('contexts', 0)
            nwr += info.get('writes', 0)
            b = min(info.get('contexts', 0) // 10 * 10, 100)
            sizes[b] = sizes.get(b, 0) + 1
            for c in evalgen.constructs(ast):
                cons[c] = cons.get(c, 0) + 1
            if f:
                report(res, rec, drv, ast, doc, root, f, prop)
                break
        h.update(programs=len(batch), log_comparison=cmpk, real_outcomes=errs, contexts_created=nctx,
                 names_written=nwr, contexts_per_evaluation={str(k): v for k, v in sorted(sizes.items())},
                 constructs={k: v for k, v in sorted(cons.items())})
        if threads and not res.failures:
            run_threads(rec, drv, res, rng, root, 80 if tier == 'quick' else 600, h, prop, 3)
    h['seconds'] = round(time.time() - t0, 1)
