"""C13 - collection and query functions agree with their reference model.

For every function of queries.py / collections.py (+ unpack, memorize) generated
pipelines `$.f(...).g(...)...` (<= 4 stages) - and programs that look at the operand of a persistent update again
(`let(x => P) -> [$x.insert(..), $x]` ...) - are evaluated three ways on the same input:
  real    the yaql under test: the SAME text through 2-3 members of an engine family (base engine, engine.copy(options),
          engine(text, options)) whose options differ, in a context made by create_context(**flags) after a drawn history
          of other create_context calls in a fresh process,
  ref     the plain-Python transcription of the documented meaning (harness/seqref.py) under that member's options / flags,
  model   the compiled Lean model (Yaql.Model.Seq / SeqRun) the theorems are about, under the same option record.
Oracle (failing input): real differs - type-strictly - from ref (and the model does not side with real); the evaluation
changed the host's document; a result handed out earlier changed afterwards.
Mismatch (tie broken): model differs from real although ref agrees with real, or ref is the odd one."""
import copy
import json
import multiprocessing
import os
import signal
import sys
import time

import zlib
import common
import paths
import values
import seqref
import seqgen
import srcobl
from seqref import FD, OOD

ID = 'C13'
LEAN_MODULES = ['Yaql.Props.C13', 'Yaql.Props.C13Opts', 'Yaql.Props.C13Persist'] + \
    srcobl.modules('C13')   # Props/SrcSeq, SrcStream, SrcRepeat: model = current source
REQUIRED_THEOREMS = ['Yaql.Props.C13.' + n for n in (
    'orderBy_perm orderBy_sorted orderBy_stable orderBy_stable_pair stable_sort_unique thenBy_lex cmpFields_append '
    'descending_reverse_of_keys orderBy_sorted_int groupBy_partition groupBy_keys_distinct groupBy_group_content '
    'where_where select_select where_select_commute take_skip_append len_take reverse_reverse '
    'distinct_nodup_sublist distinct_idempotent distinct_complete zip_length zipLongest_length zip_rows_in_range '
    'slice_concat slice_sizes splitAt_append splitWhere_no_delims splitWhere_flatten sliceWhere_concat sliceWhere_uniform '
    'indexOf_first lastIndexOf_last indexWhere_first insert_delete_inverse iterInsert_delete_inverse replace_length '
    'delete_length accumulate_last_eq_aggregate sum_append any_all_demorgan first_eq_take1 '
    'mem_union mem_intersect mem_difference mem_symmetricDifference union_comm union_assoc intersect_comm '
    'intersect_assoc union_absorb intersect_absorb difference_is_complement symmetricDifference_eq SetInv_ops '
    'get_set combineDicts_right_biased combineDicts_assoc get_delete delete_then_containsKey mergeWith_disjoint '
    'memorize_same_elements memorize_interleaved memorize_interleaved_full unpack_binds unpack_binds_positional unpack_binds_named unpack_first '
    'mapM_pure filterM_pure flatMapM_pure takeWhileM_pure dropWhileM_pure distinctM_pure findM_pure reduceM_pure '
    'scanM2_pure groupsM_pure sortRun_pure run_where run_select run_take run_skip run_reverse run_distinct run_orderBy_iter '
    'select_map where_error_position takeWhile_error_position skipWhile_error_position select_never_truncates '
    'where_never_truncates select_congr_dup lam_where_eval lam_first_eval noLazy_of_hashable run_select_lazy run_where_lazy '
    'run_takeWhile_lazy run_skipWhile_lazy take_before_error take_past_error findM_error_position run_indexWhere_eager'
).split()] + ['Yaql.Props.C13Opts.' + n for n in (
    'dict_iterable_iff dict_iterates_keys dict_not_iterable iterableDicts_only_dicts limitTo_length limitTo_prefix '
    'limitTo_small limitTo_raises_iff limitSized_ok_iff finL_length finV_tuple finV_list finV_scalar finV_plain '
    'finV_set_strict convertInput_frozen hashable_of_frozen convertInput_idem ofInput_raw_list ofInput_raw_dict '
    'ofInput_converted_list finSetErrs_nil finalise_raw rawOut_val rawOut_lazy rawOut_lazy_unlimited groupBy_no_fallback '
    'groupBy_fallback noSets_methods noSets_function_first noSets_off').split()] + ['Yaql.Props.C13Persist.' + n for n in (
        'operand_unchanged observed_operand_is_pipeline_result observed_update_is_unobserved_update '
        'letTwice_order_irrelevant letPair_parts letTwice_parts letChain_parts finaliseParts_last mapM_rows '
        'selPair_rows').split()] + srcobl.theorems('C13')
TRUSTED = ["CPython's sorted() is a stable sort (licensed by stable_sort_unique); Python ==/hash on the generated values "
           "is what Value.pyEq / canon model; iteration order of an input set is read from CPython",
           'harness/seqref.py (plain-Python transcription of the documented meaning, second opinion for every case)',
           'the engine options / create_context flags a member has are what the harness passed when it made it (Opts record '
           'sent to the model and the reference)']
ASSUMPTIONS = ['elements are null/bool/int/float/str, nested lists, dicts; floats are finite, and arithmetic on them is predicted '
               'only where the exact result is a double (IEEE arithmetic is correctly rounded); sets and one-shot iterators '
               'in the input only at top level',
               'results that depend on the iteration order of a set built during evaluation are out of domain (skipped)',
               'lambdas come from the closed family Lam/Lam2 of Model/SeqRun.lean (arithmetic, comparison, member, index, '
               'constant; on nested collections len/first/last/single/sum, the lazy where/select/take/range, str, / 2)',
               'a generator returned by a lambda is followed through operations that hand elements on once without hashing, '
               'comparing or inspecting them (Op.linear) and into the finaliser; hashing / comparing / consuming it twice, '
               'and a generator that would raise when it is consumed after the lambda returned, are out of domain for the '
               'Lean model (the plain-Python reference still decides the oracle there)',
               'option-dependent behaviour INSIDE lambdas (collection methods / + on dictionaries under yaql.iterableDicts or on '
               'nested collections under a firing yaql.limitIterators, len of a set element under no_sets), a second consumer '
               'of `$` and generateMany under a limit, unconverted documents with a dictionary below the top level: out of '
               'domain for the Lean model (reference decides)',
               'observing programs: the operand is bound once and read 2-3 times; a one-shot iterator or a collection holding '
               'generators as operand is out of domain']

OPTIONS = {'yaql.convertSetsToLists': True, 'yaql.limitIterators': 10000, 'yaql.memoryQuota': 10000000}
Opts = seqref.Opts


# ------------------------------------------------------------------ engine families
#
# A statement is evaluated under the options of the engine it was asked from.  A FAMILY is a base engine
# (`YaqlFactory().create(options)`) together with the engines derived from it - `engine.copy(delta)` kept alive,
# `engine.copy(delta)` made for one use, `engine(text, options=delta)` - whose options differ from the base in what the
# collection functions and the finaliser look at.  Every case sends the SAME text through two or three members of one
# family, in an order drawn with the case; each result is compared, type-strictly, with the reference and the model
# under THAT member's options.

def yaql_options(o):
    return {'yaql.iterableDicts': o.id, 'yaql.convertTuplesToLists': o.tl, 'yaql.convertSetsToLists': o.sl,
            'yaql.convertInputData': o.ci, 'yaql.limitIterators': 10000 if o.lim is None else o.lim,
            'yaql.memoryQuota': 10000000, 'yaql.convertOutputData': o.co}


_OPT_NAME = {'id': 'yaql.iterableDicts', 'tl': 'yaql.convertTuplesToLists', 'sl': 'yaql.convertSetsToLists',
             'ci': 'yaql.convertInputData', 'lim': 'yaql.limitIterators', 'co': 'yaql.convertOutputData'}

# (options of the base engine, the deltas of the derived members)
FAMILY_DEFS = [
    (dict(), [dict(tl=False), dict(id=True), dict(sl=False), dict(ci=False), dict(id=True, tl=False, sl=False),
              dict(ci=False, tl=False), dict(ci=False, id=True, sl=False), dict(lim=3), dict(lim=5, tl=False),
              dict(co=False), dict(co=False, ci=False), dict(co=False, lim=4)]),
    (dict(id=True, tl=False, sl=False), [dict(id=False), dict(tl=True), dict(sl=True), dict(id=False, tl=True, sl=True),
                                         dict(ci=False), dict(ci=False, tl=True, id=False), dict(lim=4), dict(co=False), dict(co=False, id=False, ci=False)]),
]
HOWS = ['copy', 'copy', 'fresh', 'percall']


def member_opts(fi, mi):
    base, deltas = FAMILY_DEFS[fi]
    d = dict(base)
    if mi:
        d.update(deltas[mi - 1])
    return Opts(**d)


def member_delta(fi, mi):
    return {_OPT_NAME[k]: v for k, v in FAMILY_DEFS[fi][1][mi - 1].items()}


class Family:
    def __init__(self, fi):
        import yaql
        self.fi = fi
        self.base = yaql.YaqlFactory().create(options=yaql_options(member_opts(fi, 0)))
        self.copies = {}

    def engine(self, mi, how):
        if mi == 0:
            return self.base
        if how == 'fresh':
            return self.base.copy(member_delta(self.fi, mi))
        if mi not in self.copies:
            self.copies[mi] = self.base.copy(member_delta(self.fi, mi))
        return self.copies[mi]


_FAMILIES = {}
MEMBER_HIST = {}


def family(fi):
    if fi not in _FAMILIES:
        _FAMILIES[fi] = Family(fi)
    return _FAMILIES[fi]


# ------------------------------------------------------------------ contexts and the history of create_context() calls
#
# The standard library a statement runs against is registered by `yaql.create_context(**flags)`; two of the flags change
# what C13's functions mean (`group_by_agg_fallback`: groupBy retries a failing aggregator in the pre-1.1.1 style;
# `no_sets`: no set functions).  A context made with given flags must behave as documented for THOSE flags whatever other
# contexts the process has made before: every job runs in a fresh process and begins by creating the contexts of all
# recipes - and decoys with every other keyword of create_context - in an order drawn with the job; a case picks a recipe
# and uses the context made then, or (now and then) one made on the spot, after all that history.

CONTEXT_RECIPES = [dict(), dict(), dict(group_by_agg_fallback=False), dict(group_by_agg_fallback=False), dict(no_sets=True),
                   dict(delegates=True), dict(group_by_agg_fallback=False, no_sets=True),
                   dict(group_by_agg_fallback=False, delegates=True), dict(own_root=True),
                   dict(own_root=True, group_by_agg_fallback=False)]
N_DECOYS = 6
_CONTEXTS = {}
HISTORY = []            # the order in which this process called create_context: recipe numbers, decoys as -1-k
CONTEXT_HIST = {}


def make_context(ri):
    import yaql
    from yaql.language import contexts, conventions
    if ri >= 0:
        kw = dict(CONTEXT_RECIPES[ri])
        if kw.pop('own_root', False):
            kw['context'] = contexts.Context(convention=conventions.CamelCaseConvention())   # a root supplied by the host
        return yaql.create_context(**kw)
    k = -1 - ri
    decoys = [dict(convention=conventions.PythonConvention()), dict(data=[1, {'a': 2}]), dict(strings=False, regex=False),
              dict(datetime=False, yaqlized=False, math=False), dict(convention=conventions.PythonConvention(), no_sets=True,
                                                                       group_by_agg_fallback=False),
              dict(delegates=True, data={'x': 1}, branching=False)]
    return yaql.create_context(**decoys[k % len(decoys)])


def setup_history(rng=None, order=None):
    """create the contexts of all recipes and the decoys, in a drawn (or replayed) order"""
    if HISTORY:
        return
    if order is None:
        order = list(range(len(CONTEXT_RECIPES))) + [-1 - k for k in range(N_DECOYS)]
        rng.shuffle(order)
    for ri in order:
        c = make_context(ri)
        HISTORY.append(ri)
        if ri >= 0:
            _CONTEXTS[ri] = c


def root_for(ctx):
    """the root context of a case: ctx = (recipe, fresh)"""
    ri, fresh = ctx
    if not HISTORY:
        setup_history(order=list(range(len(CONTEXT_RECIPES))))
    CONTEXT_HIST[(ri, fresh)] = CONTEXT_HIST.get((ri, fresh), 0) + 1
    if fresh or ri not in _CONTEXTS:
        HISTORY.append(ri)
        return make_context(ri)
    return _CONTEXTS[ri]


def case_opts(m, ctx=None):
    """the options of the member's engine and the flags of the context's recipe"""
    o = member_opts(m[0], m[1])
    r = CONTEXT_RECIPES[ctx[0]] if ctx else {}
    o.af, o.ns = r.get('group_by_agg_fallback', True), r.get('no_sets', False)
    return o


def show_ctx(ctx):
    if not ctx:
        return 'create_context()'
    r = dict(CONTEXT_RECIPES[ctx[0]])
    own = r.pop('own_root', False)
    return 'create_context(%s%s)%s' % ('context=<own root>, ' if own and r else 'context=<own root>' if own else '',
                                       ', '.join('%s=%r' % kv for kv in sorted(r.items())),
                                       ' made just now' if ctx[1] else '')


def pick_members(rng):
    """[(family, member, how)]: two or three members of one family with different options, in the order of use"""
    fi = rng.randrange(len(FAMILY_DEFS))
    n = len(FAMILY_DEFS[fi][1])
    k = rng.choice([2, 2, 2, 3])
    idx = rng.sample(range(n + 1), k)
    if 0 not in idx and rng.random() < 0.5:
        idx[rng.randrange(k)] = 0
    return [(fi, mi, 'base' if mi == 0 else rng.choice(HOWS)) for mi in idx]


def show_member(m):
    fi, mi, how = m
    if mi == 0:
        return 'base engine %r' % (member_opts(fi, 0),)
    return '%s of the base engine with %r' % ({'copy': 'engine.copy (kept)', 'fresh': 'engine.copy', 'percall':
                                               'engine(text, options)'}[how], member_delta(fi, mi))


# ------------------------------------------------------------------ the three evaluators

class Timeout(BaseException):
    pass


def _alarm(signum, frame):
    raise Timeout()


def to_input(v, top=True):
    """run-time form -> what a host program would pass as data"""
    if isinstance(v, seqgen.Iter):
        return iter([to_input(x, False) for x in v.items])
    if isinstance(v, tuple):
        # a host sequence is a list or a tuple (json.loads gives lists, database rows and host code often tuples), and
        # either may hold mutable containers; which one is chosen from the content, so a case replays identically
        items = [to_input(x, False) for x in v]
        return tuple(items) if zlib.crc32(repr(v).encode('utf8', 'replace')) % 3 == 0 else items
    if isinstance(v, dict):
        return {k: to_input(x, False) for k, x in v.items()}
    if isinstance(v, frozenset):
        return set(v)
    return v


class RawSet(list):
    """a set-like raw result (frozenset, keys / items view) with its members normalised"""


class RawDict(list):
    """a raw dictionary result as the list of its (key, value) pairs"""


class RawIter(list):
    """what came out of a lazy raw result when the host consumed it"""


def norm_raw(r, key=False):
    """a result handed out with yaql.convertOutputData off, consumed the way a host would: lazy things are iterated
    (an exception they raise propagates), container types are kept"""
    import collections.abc as abc
    if isinstance(r, (str, bytes)) or r is None or isinstance(r, (bool, int, float)):
        return r
    if isinstance(r, tuple):
        return tuple(norm_raw(x, key) for x in r)
    if isinstance(r, list):
        return [norm_raw(x) for x in r]
    if isinstance(r, abc.Mapping):
        return RawDict((norm_raw(k), norm_raw(v)) for k, v in r.items())         # (pairs: the harness hashes nothing)
    if isinstance(r, abc.Set):
        return RawSet(norm_raw(x) for x in r)
    if isinstance(r, abc.Iterable):
        return RawIter(norm_raw(x) for x in r)
    return r


class HostSet(frozenset):
    """a set that iterates in a given order (that of the host's set object)"""
    def __new__(cls, order):
        self = super().__new__(cls, order)
        self.order = list(order)
        return self

    def __iter__(self):
        return iter(self.order)


def prepare(value, opts=None):
    """(data for yaql, data for the reference as `$` is bound to it, JSON of the HOST data for the model)"""
    opts = opts or Opts()
    bind = seqref.convert_input if opts.ci else (lambda x: x)
    if isinstance(value, frozenset):
        # (an engine that does not convert its input gets a frozenset: a mutable set is not hashable, `set($)` raises)
        host = set(value) if opts.ci else frozenset(value)
        order = list(frozenset(x for x in host)) if opts.ci else list(host)     # built as convert_input_data builds it
        return host, HostSet(order), {'se': [values.enc(x) for x in order]}
    if isinstance(value, seqgen.Iter):
        items = [to_input(x, False) for x in value.items]
        return iter(items), iter([bind(to_input(x, False)) for x in value.items]), {'it': [values.enc(x) for x in items]}
    return to_input(value), bind(to_input(value)), values.enc(to_input(value))


def classify(e):
    return type(e).__name__


def same_host(a, b):
    """the host's document before and after the evaluation"""
    if type(a) is not type(b):
        return False
    if isinstance(a, (list, tuple)):
        return len(a) == len(b) and all(same_host(x, y) for x, y in zip(a, b))
    if isinstance(a, dict):
        return list(a.keys()) == list(b.keys()) and all(same_host(a[k], b[k]) for k in a)
    return a == b


def run_real_once(text, host_data, member, timeout=5, ctx=None):
    """-> ('ok', value) | ('err', class) ; the third component: the host's document was changed by the evaluation"""
    import copy
    fi, mi, how = member
    fam = family(fi)
    root = root_for(ctx or (0, False))
    MEMBER_HIST[how] = MEMBER_HIST.get(how, 0) + 1
    before = None if hasattr(host_data, '__next__') else copy.deepcopy(host_data)

    def changed():
        return before is not None and not same_host(before, host_data)
    try:
        eng = fam.engine(mi, how)
        if how != 'percall':
            eng(text)       # parsing errors surface outside the watchdog, as before
        signal.signal(signal.SIGALRM, _alarm)
        signal.setitimer(signal.ITIMER_REAL, timeout)
        try:
            if how == 'percall':
                r = fam.base(text, options=member_delta(fi, mi)).evaluate(data=host_data, context=root.create_child_context())
            elif how == 'fresh':
                r = eng(text).evaluate(data=host_data, context=root.create_child_context())
            else:
                # one of the equivalent host paths (plain / reused statement / engine.copy / per-call options / document
                # bound by the host) with this member's engine, chosen by the text: see harness/paths.py
                r = paths.evaluate(eng, root, text, host_data)
            if not member_opts(fi, mi).co:
                r = norm_raw(r)         # (consumed inside the watchdog)
            return ('ok', r, changed())
        finally:
            signal.setitimer(signal.ITIMER_REAL, 0)
    except Timeout:
        return ('err', 'Timeout', False)
    except RecursionError:
        return ('err', 'RecursionError', changed())
    except Exception as e:
        return ('err', classify(e), changed())


def size_of(f):
    if isinstance(f, (list, tuple)):
        return 1 + sum(size_of(x) for x in f)
    if isinstance(f, dict):
        return 1 + sum(size_of(x) for x in f.values())
    return 1


def run_real(text, make_host, member, timeout=5, ctx=None):
    """a timeout is only believed when it repeats with a much longer allowance (loaded machine)"""
    r = run_real_once(text, make_host(), member, timeout, ctx)
    if r[:2] == ('err', 'Timeout'):
        r = run_real_once(text, make_host(), member, 8 * timeout, ctx)
    return r


def run_ref(ref_data, ops, binder=None, obs=None, opts=None):
    try:
        if obs is not None:
            r = seqref.run_obs(ref_data, ops, binder, obs, opts)
        else:
            r = seqref.run_ref(ref_data, ops, binder, opts)
        if size_of(r) > 3000:
            return ('big', None)       # beyond the engine's collection / memory limits (C08's subject)
        return ('ok', r)
    except OOD:
        return ('ood', None)
    except RecursionError:
        return ('err', 'RecursionError')
    except Exception as e:
        return ('err', classify(e))


def case_json(value, ops, binder=None, obs=None, opts=None):
    opts = opts or Opts()
    _, _, dj = prepare(value, opts)
    return {'data': dj, 'ops': [seqref.op_json(a, values.enc) for a in ops],
            'let': None if binder is None else seqref.op_json(binder, values.enc),
            'obs': None if obs is None else seqref.obs_json(obs, values.enc), 'opts': opts.json()}


# ------------------------------------------------------------------ comparisons

def same_scalar(a, b):
    return type(a) is type(b) and a == b


def match_fin(f, r, opts=None):
    """reference result (finalised, sets marked FSet) against the real result.  With `opts` the comparison is type-strict
    (a tuple is a tuple, a list a list, a set a set or - with convertSetsToLists - a list); without, every sequence and
    set of the reference stands for a list (C14)."""
    strict = opts is not None
    raw = strict and not opts.co
    if isinstance(f, seqref.FDict):
        if type(r) is not RawDict or len(f) != len(r):
            return False
        left = list(r)
        for k, v in f:
            for i, (rk, rv) in enumerate(left):
                if match_fin(k, rk, opts) and match_fin(v, rv, opts):
                    del left[i]
                    break
            else:
                return False
        return True
    if isinstance(f, seqref.FIter):
        if raw:
            return type(r) is RawIter and len(f) == len(r) and all(match_fin(x, y, opts) for x, y in zip(f, r))
        return type(r) is list and len(f) == len(r) and all(match_fin(x, y, opts) for x, y in zip(f, r))
    if isinstance(f, seqref.FSet) or isinstance(f, tuple) and len(f) == 2 and f[0] == 'set':
        members = f if isinstance(f, seqref.FSet) else f[1]
        if raw:
            if type(r) is not RawSet or len(r) != len(members):
                return False
        elif strict and not opts.sl:
            if type(r) is not set or len(r) != len(members):
                return False
        elif type(r) is not list or len(r) != len(members):
            return False
        left = list(r)
        for x in members:
            for i, y in enumerate(left):
                if match_fin(x, y, opts):
                    del left[i]
                    break
            else:
                return False
        return True
    if isinstance(f, (list, tuple)):
        want = type(f) if strict else list
        return type(r) is want and len(f) == len(r) and all(match_fin(x, y, opts) for x, y in zip(f, r))
    if isinstance(f, dict):
        if not isinstance(r, dict) or len(f) != len(r):
            return False
        for k, v in f.items():
            hit = [rk for rk in r if (match_fin(k, rk, opts) if isinstance(k, (tuple, dict)) else same_scalar(rk, k))]
            if len(hit) != 1 or not match_fin(v, r[hit[0]], opts):
                return False
        return True
    return same_scalar(f, r)


def dec_model(j, strict=False, as_key=False, raw=False):
    """model value -> finalised python shape with sets marked (to match against the real result); strict: tuples stay
    tuples"""
    if j is None or isinstance(j, bool):
        return j
    (k, x), = j.items()
    if k == 'i':
        return int(x)
    if k == 'f':
        return values.bits2f(x)
    if k == 's':
        return ''.join(chr(c) for c in x)
    if k == 'tu' and strict:
        return tuple(dec_model(t, strict, as_key, raw) for t in x)
    if k == 'it' and strict:
        return seqref.FIter(dec_model(t, strict, False, raw) for t in x)
    if k in ('tu', 'li', 'it'):
        return [dec_model(t, strict, False, raw) for t in x]
    if k == 'se':
        return seqref.FSet(dec_model(t, strict, False, raw) for t in x)
    if k == 'd':
        if raw:
            return seqref.FDict((dec_model(a, strict, False, True), dec_model(b, strict, False, True)) for a, b in x)
        return (FD if as_key else dict)((dec_model(a, strict, True), dec_model(b, strict, as_key)) for a, b in x)
    raise ValueError(j)


def agree_real_ref(real, ref, opts=None):
    if ref[0] == 'ood':
        return None
    if real[0] != ref[0]:
        return False
    if real[0] == 'err':
        return real[1] == ref[1]
    return match_fin(ref[1], real[1], opts)


def agree_real_model(real, mod, opts=None):
    if mod is None or mod.get('err') == 'OOD':
        return None
    if 'err' in mod:
        return real[0] == 'err' and (mod['err'] == '*' or mod['err'] == real[1])
    if real[0] != 'ok':
        return False
    try:
        return match_fin(dec_model(mod['ok'], opts is not None, False, opts is not None and not opts.co), real[1], opts)
    except TypeError:
        return False


def show(r):
    return '%s %r' % (r[0], r[1]) if r[0] != 'ood' else 'out-of-domain'


def show_model(m):
    if m is None:
        return 'no-model'
    if 'err' in m:
        return 'err ' + m['err']
    try:
        return 'ok %r' % (dec_model(m['ok'], True),)
    except Exception:
        return 'ok ' + json.dumps(m['ok'])


# ------------------------------------------------------------------ one case

def case_text(ops, binder=None, obs=None):
    return seqref.render_obs(ops, binder, obs) if obs is not None else seqref.render(ops, binder)


def evaluate_case(value, ops, model_replies, binder=None, obs=None, members=None, ctx=None):
    """the same text through the members, in their order; `model_replies`: one per member.
    -> (failure or None, info) ; failure = (kind, what)"""
    members = members or [(0, 0, 'base')]
    text = case_text(ops, binder, obs)
    info = dict(text=text, real=None, ref=None, model=None, runs=[])
    failure = None
    handed_out = []                 # (member, result, snapshot): a result belongs to the host once it is handed out
    for i, (m, mr) in enumerate(zip(members, model_replies)):
        opts = case_opts(m, ctx)
        real3 = run_real(text, lambda: prepare(value, opts)[0], m, ctx=ctx)
        real, mutated = real3[:2], real3[2]
        if real[0] == 'ok':
            try:
                handed_out.append((m, real[1], copy.deepcopy(real[1])))
            except Exception:       # noqa
                pass
        _, refdata, _ = prepare(value, opts)
        ref = run_ref(refdata, ops, binder, obs, opts)
        if ref[0] == 'big':
            ref = ('ood', None)
            mr = None
        a_ref = agree_real_ref(real, ref, opts)
        a_mod = agree_real_model(real, mr, opts)
        info['runs'].append(dict(member=m, real=real, ref=ref, model=mr))
        if i == 0 or info['real'] is None:
            info.update(real=real, ref=ref, model=mr)
        if failure is not None:
            continue
        via = 'through %s (use %d of %d of this text in the family), context %s (%d-th create_context call of the process)' % (
            show_member(m), i + 1, len(members), show_ctx(ctx), len(HISTORY))
        if mutated:
            failure = ('oracle', '%s on %r %s: the evaluation changed the host\'s document' % (text, value, via))
        elif real == ('err', 'Timeout'):
            failure = ('oracle', '%s on %r %s: no result within the watchdog (reference: %s)' % (text, value, via, show(ref)))
        elif a_ref is False and a_mod is not True:
            failure = ('oracle', '%s on %r %s: real %s, documented meaning under these options %s (model: %s)' % (
                text, value, via, show(real), show(ref), show_model(mr)))
        elif a_ref is False:
            failure = ('mismatch', '%s on %r %s: the reference transcription gives %s but real and model agree on %s' % (
                text, value, via, show(ref), show(real)))
        elif a_mod is False:
            failure = ('mismatch', '%s on %r %s: real %s, model %s (reference %s)' % (
                text, value, via, show(real), show_model(mr), show(ref)))
        if failure is not None:
            info.update(real=real, ref=ref, model=mr)
    if failure is None:
        for m, r, snap in handed_out[:-1]:
            if not same_host(r, snap):
                failure = ('oracle', '%s on %r: the result handed out through %s (%r) was changed by a later evaluation of the same '
                           'text in the family (now %r)' % (text, value, show_member(m), snap, r))
                break
    return failure, info


def ask_model(drv, cases):
    if drv is None:
        return [None] * len(cases)
    out = []
    for i in range(0, len(cases), 200):
        out += drv.ask({'p': 'C13', 'cases': cases[i:i + 200]})['res']
    return out


def value_to_json(v):
    if isinstance(v, seqgen.Iter):
        return {'it': [values.enc(x) for x in v.items]}
    return values.enc(v)


def value_from_json(j):
    if isinstance(j, dict) and 'it' in j:
        return seqgen.Iter(dec_rt(x) for x in j['it'])
    return dec_rt(j)


def dec_rt(j):
    if j is None or isinstance(j, bool):
        return j
    (k, x), = j.items()
    if k == 'i':
        return int(x)
    if k == 'f':
        return values.bits2f(x)
    if k == 's':
        return ''.join(chr(c) for c in x)
    if k in ('tu', 'li'):
        return tuple(dec_rt(t) for t in x)
    if k == 'd':
        return FD((dec_rt(a), dec_rt(b)) for a, b in x)
    if k == 'se':
        return frozenset(dec_rt(t) for t in x)
    raise ValueError(j)


def op_from_json(j):
    a = {'op': j['op']}
    for k, v in j.items():
        if k == 'op':
            continue
        if k in ('l', 'l2', 'l3'):
            a[k] = None if v is None else lam_from_json(v)
        elif k in ('f2', 'g2'):
            a[k] = None if v is None else lam2_from_json(v)
        elif k in ('n', 'm', 'k', 'b', 'b2', 'name', 'names', 'alias', 'ns'):
            a[k] = v
        elif k in ('v', 'w'):
            a[k] = dec_rt(v)
        elif k == 'vs':
            a[k] = tuple(dec_rt(x) for x in v)
        elif k == 'vss':
            a[k] = tuple(tuple(dec_rt(x) for x in xs) for xs in v)
        elif k == 'kv':
            a[k] = dec_rt(v)
    return a


def lam_from_json(j):
    t = j[0]
    if t == 'arg':
        return ['arg']
    if t == 'const':
        return ['const', dec_rt(j[1])]
    if t == 'not':
        return ['not', lam_from_json(j[1])]
    if t == 'pair':
        return ['pair', lam_from_json(j[1]), lam_from_json(j[2])]
    if t == 'eq':
        return ['eq', lam_from_json(j[1]), dec_rt(j[2])]
    if t in ('len', 'single', 'sum', 'range', 'str', 'half'):
        return [t, lam_from_json(j[1])]
    if t in ('first', 'last'):
        return [t, lam_from_json(j[1]), [dec_rt(v) for v in j[2]]]
    if t in ('where', 'select'):
        return [t, lam_from_json(j[1]), lam_from_json(j[2])]
    return [t, lam_from_json(j[1]), j[2]]


def lam2_from_json(j):
    if j[0] == 'const':
        return ['const', dec_rt(j[1])]
    if j[0] in ('on1', 'on2', 'plusOn'):
        return [j[0], lam_from_json(j[1])]
    return [j[0]]


def replay_of(value, ops, binder=None, obs=None, members=None, ctx=None):
    return {'data': value_to_json(value), 'ops': [seqref.op_json(a, values.enc) for a in ops],
            'let': None if binder is None else seqref.op_json(binder, values.enc),
            'obs': None if obs is None else seqref.obs_json(obs, values.enc),
            'members': [list(m) for m in (members or [(0, 0, 'base')])],
            'ctx': list(ctx) if ctx else None, 'history': list(HISTORY)}


def obs_from_json(j):
    if not j:
        return None
    o = {'shape': j['shape'], 'u': op_from_json(j['u'])}
    if j.get('u2'):
        o['u2'] = op_from_json(j['u2'])
    return o


def model_replies(drv, value, ops, binder, obs, members, ctx=None):
    return ask_model(drv, [case_json(value, ops, binder, obs, case_opts(m, ctx)) for m in members])


def fails(value, ops, drv, kind, binder=None, obs=None, members=None, ctx=None):
    members = members or [(0, 0, 'base')]
    try:
        f, _ = evaluate_case(value, ops, model_replies(drv, value, ops, binder, obs, members, ctx), binder, obs, members, ctx)
    except Exception:
        return None
    return f if f and f[0] == kind else None


def shrink(value, ops, drv, kind, binder=None, obs=None, members=None, ctx=None):
    """fewer stages, then fewer elements, while the same kind of failure persists"""
    changed = True
    while changed:
        changed = False
        for i in range(len(ops) - 1, -1, -1):
            cand = ops[:i] + ops[i + 1:]
            if (cand or obs is not None) and fails(value, cand, drv, kind, binder, obs, members, ctx):
                ops, changed = cand, True
                break
        items = None
        if isinstance(value, seqgen.Iter):
            items = list(value.items)
        elif isinstance(value, tuple):
            items = list(value)
        if items:
            for i in range(len(items)):
                cand = items[:i] + items[i + 1:]
                cv = seqgen.Iter(cand) if isinstance(value, seqgen.Iter) else tuple(cand)
                if fails(cv, ops, drv, kind, binder, obs, members, ctx):
                    value, changed = cv, True
                    break
            else:
                # members of the inner lists
                for i, x in enumerate(items):
                    if not isinstance(x, tuple) or not x:
                        continue
                    hit = False
                    for j in range(len(x)):
                        cand = items[:i] + [x[:j] + x[j + 1:]] + items[i + 1:]
                        cv = seqgen.Iter(cand) if isinstance(value, seqgen.Iter) else tuple(cand)
                        if fails(cv, ops, drv, kind, binder, obs, members, ctx):
                            value, changed, hit = cv, True, True
                            break
                    if hit:
                        break
    return value, ops


# ------------------------------------------------------------------ per-function work (runs in a worker process)

def failure_key(ops, info, obs=None):
    names = '.'.join(a['op'] for a in ops)
    if obs is not None:
        names = '%s(%s)/%s' % (obs['shape'], '.'.join(o['op'] for o in (obs['u'], obs.get('u2')) if o), names)
    return names[:60]


def lam_tags(x, acc):
    """constructors used by the lambdas of an op (nested ones included)"""
    if isinstance(x, list) and x and isinstance(x[0], str) and x[0] in LAM_TAGS:
        acc[x[0]] = acc.get(x[0], 0) + 1
        for y in x[1:]:
            lam_tags(y, acc)
    return acc


LAZY_TAGS = ('where', 'select', 'take', 'range')
LAM_TAGS = frozenset('arg const add mul mod gt eq member index not pair len first last single sum where select take range '
                     'str half fst snd plus max on1 on2 plusOn'.split())


def gen_case(rng, fname):
    """(kind, profile, value, ops, binder, obs, members)"""
    members = pick_members(rng)
    with_dicts = any(member_opts(m[0], m[1]).id for m in members)
    if fname.startswith('obs:'):
        kind, prof, value, ops, binder, obs = seqgen.observe(rng, fname[4:])
    else:
        kind, prof, value, ops, binder = seqgen.pipeline(rng, fname, dict_bias=0.3 if with_dicts else 0.0)
        obs = None
    # the context: one of the recipes (those whose flags the function under test depends on more often), made at the
    # start of the job or - 15 % - just now
    uses_flag = fname == 'groupBy' or any(a['op'] == 'groupBy' for a in ops)
    pool = [2, 3, 6, 7, 9, 0] if uses_flag and rng.random() < 0.7 else list(range(len(CONTEXT_RECIPES)))
    ctx = (rng.choice(pool), rng.random() < 0.15)
    return kind, prof, value, ops, binder, obs, members, ctx


def work(args):
    fname, n_cases, seed, use_model = args[:4]
    rnd = args[4] if len(args) > 4 else 0          # (thorough: further rounds of the quick size, each with its own stream)
    salt = fname if rnd == 0 else '%s/round%d' % (fname, rnd)
    rng = common.make_rng(seed, 'C13/' + salt)
    setup_history(common.make_rng(seed, 'C13/history/' + salt))
    drv = common.Driver() if use_model else None
    out = dict(fname=fname, cases=[], failures=[], hist={}, n=0, ood=0, errs={}, kinds={}, sizes={}, stages={},
               profiles={}, lams={}, lazy_lambda=[0, 0, 0], dup_nested=0, twins=0, runs=0, by_opts={}, shapes={},
               dict_as_collection=0, raw_input=0, strict_shapes={}, contexts={}, contexts_fresh=0)
    try:
        batch = [gen_case(rng, fname) for _ in range(n_cases)]
        requests, index = [], []
        for kind, prof, value, ops, binder, obs, members, ctx in batch:
            index.append((len(requests), len(members)))
            requests += [case_json(value, ops, binder, obs, case_opts(m, ctx)) for m in members]
        replies = ask_model(drv, requests)
        info = real = None
        for (kind, prof, value, ops, binder, obs, members, ctx), (at, k) in zip(batch, index):
            mrs = replies[at:at + k]
            f, info = evaluate_case(value, ops, mrs, binder, obs, members, ctx)
            r0 = CONTEXT_RECIPES[ctx[0]]
            ctag = ','.join(sorted(k2 for k2 in r0)) or 'default'
            out['contexts'][ctag] = out['contexts'].get(ctag, 0) + 1
            out['contexts_fresh'] += 1 if ctx[1] else 0
            out['n'] += 1
            real, ref = info['real'], info['ref']
            ood = all(r['ref'][0] == 'ood' or (r['model'] or {}).get('err') == 'OOD' for r in info['runs'])
            if ood:
                out['ood'] += 1
            for r in info['runs']:
                out['runs'] += 1
                o = member_opts(r['member'][0], r['member'][1])
                tag = ','.join(n for n, on in (('iterableDicts', o.id), ('tuples', not o.tl), ('sets', not o.sl),
                                                ('rawInput', not o.ci), ('limit', o.lim is not None),
                                                ('rawOutput', not o.co)) if on) or 'default'
                bo = out['by_opts'].setdefault(tag, [0, 0, 0])          # runs, out of domain, real exceptions
                bo[0] += 1
                bo[1] += 1 if (r['ref'][0] == 'ood' or (r['model'] or {}).get('err') == 'OOD') else 0
                bo[2] += 1 if r['real'][0] == 'err' else 0
                if r['real'][0] == 'err':
                    out['errs'][r['real'][1]] = out['errs'].get(r['real'][1], 0) + 1
                if o.id and kind == 'dict' and r['real'][0] == 'ok':
                    out['dict_as_collection'] += 1
                if not o.ci:
                    out['raw_input'] += 1
                if r['real'][0] == 'ok':
                    sh = type(r['real'][1]).__name__
                    out['strict_shapes'][sh] = out['strict_shapes'].get(sh, 0) + 1
            if obs is not None:
                out['shapes'][obs['shape']] = out['shapes'].get(obs['shape'], 0) + 1
            out['kinds'][kind] = out['kinds'].get(kind, 0) + 1
            n_el = len(seqgen.Ctx(kind, prof, value).elems)
            out['sizes'][n_el] = out['sizes'].get(n_el, 0) + 1
            out['stages'][len(ops)] = out['stages'].get(len(ops), 0) + 1
            pr = out['profiles'].setdefault(prof, [0, 0, 0])        # cases, out of domain, real exceptions
            pr[0] += 1
            pr[1] += 1 if ood else 0
            pr[2] += 1 if real[0] == 'err' else 0
            tags = {}
            for a in ops:
                for k in ('l', 'l2', 'l3', 'f2', 'g2'):
                    lam_tags(a.get(k), tags)
            for k, v in tags.items():
                out['lams'][k] = out['lams'].get(k, 0) + 1
            if any(t in tags for t in LAZY_TAGS):                   # a lambda that returns a lazy sequence
                out['lazy_lambda'][0] += 1
                out['lazy_lambda'][1] += 1 if ood else 0
                out['lazy_lambda'][2] += 1 if real[0] == 'err' else 0
            els = seqgen.Ctx(kind, prof, value).elems
            nested = [x for x in els if isinstance(x, tuple)]
            if len(nested) != len(set(nested)):
                out['dup_nested'] += 1                              # the same inner list more than once
            flat = [y for x in els for y in (x if isinstance(x, tuple) else (x,)) if isinstance(y, (int, float))]
            if any(a == b and type(a) is not type(b) for i, a in enumerate(flat) for b in flat[i + 1:]):
                out['twins'] += 1                                   # equal scalars of different type side by side
            nontrivial = any(r['real'][0] == 'ok' and not (r['ref'][0] == 'ood' or (r['model'] or {}).get('err') == 'OOD')
                             for r in info['runs'])
            out['cases'].append((common.digest([info['text'], repr(value), [list(m) for m in members], list(ctx)]), nontrivial))
            if f and len(out['failures']) < 3:
                sv, sops = shrink(value, ops, drv, f[0], binder, obs, members, ctx)
                g = fails(sv, sops, drv, f[0], binder, obs, members, ctx) or f
                out['failures'].append((g[0], failure_key(sops, info, obs), g[1], replay_of(sv, sops, binder, obs, members, ctx)))
        out['sample'] = dict(text=info['text'], data=repr(value), real=repr(real)[:200]) if n_cases else None
        out['member_kinds'] = dict(MEMBER_HIST)
        out['history'] = list(HISTORY[:len(CONTEXT_RECIPES) + N_DECOYS])
    finally:
        if drv:
            drv.close()
    return out


FUNCTIONS = list(seqgen.ALL_OPS) + ['obs:' + u for u in seqgen.UPDATERS]


def generate():
    return srcobl.generate('C13')     # re-translate collections.py / queries.py (harness/py2lean.py -> Gen/SrcSeq ...)


# how a translated function is reached from a yaql pipeline: (receiver, op) of this check's case format
def _seq(c):
    return tuple(c)


def _it(c):
    return values.Iter(list(c))


SRC_OPS = {
    'list_insert': lambda c, n, v: (_seq(c), dict(op='insert', n=n, v=v)),
    'iter_insert': lambda c, n, v: (_it(c), dict(op='insert', n=n, v=v)),
    'insert_many': lambda c, n, vs: (_seq(c), dict(op='insertMany', n=n, vs=tuple(vs))),
    'delete': lambda c, n, k: (_seq(c), dict(op='delete', vs=(n, k))),
    'replace': lambda c, n, v, k: (_seq(c), dict(op='replace', n=n, m=k, v=v)),
    'replace_many': lambda c, n, vs, k: (_seq(c), dict(op='replaceMany', n=n, m=k, vs=tuple(vs))),
    'index_of': lambda c, v: (_seq(c), dict(op='indexOf', v=v)),
    'last_index_of': lambda c, v: (_seq(c), dict(op='lastIndexOf', v=v)),
    'enumerate_': lambda c, n: (_seq(c), dict(op='enumerate', n=n)),
    'append': lambda c, vs: (_seq(c), dict(op='append', vs=tuple(vs))),
    'skip': lambda c, n: (_seq(c), dict(op='skip', n=n)),
    'limit': lambda c, n: (_seq(c), dict(op='take', n=n)),
    'split_at': lambda c, n, f: (_seq(c), dict(op='splitAt', n=n)),
}
_SRC_DRV = [None]


def src_oracle(t, pyargs, real):
    """a candidate from the source-level differential, as a one-stage pipeline judged by this check's oracle (real
    engine vs the plain-Python transcription of the documented meaning)"""
    mk = SRC_OPS.get(t.name)
    if mk is None:
        return None
    try:
        value, op = mk(*pyargs)
        mr = ask_model(_SRC_DRV[0], [case_json(value, [op])])[0]
        f, info = evaluate_case(value, [op], mr)
    except Exception:       # the arguments cannot be spelled as a pipeline of this check
        return None
    if f and f[0] == 'oracle':
        return (failure_key([op], info), f[1] + '  [found through the source-level differential of %s]' % t.qual,
                replay_of(value, [op]))
    return None


def run(env, res):
    tier = env['tier']
    use_model = env['driver'] is not None
    _SRC_DRV[0] = env['driver']
    res.rule = ('every case: one text through 2-3 members of an engine family (options iterableDicts / convertTuplesToLists / '
                'convertSetsToLists / convertInputData / convertOutputData / limitIterators 3-5 differing from the base) in a '
                'drawn order, in a context made by create_context with drawn flags (group_by_agg_fallback, no_sets, delegates, '
                'own root) after a drawn history of other create_context calls in a fresh process, compared type-strictly under '
                'that member\'s options; per updating function u: observing programs let(x => P) -> [$x.u, $x] / [$x.u1, $x.u2, $x] '
                '/ let(y => $x.u1) -> [$y.u2, $y, $x] / P.select([$.u, $]) / memorized twice, P ending in every producer of lists / '
                'dicts / sets or empty (the document, also unconverted); '
                'per function f: pipelines of <= 4 stages containing f, on tuples / sets / dicts / one-shot iterators / '
                'scalars of size 0..6 with duplicates, nulls, nesting; element profiles include lists of small lists with '
                'REPEATED and empty inner lists and 1 / 1.0 / true, 0 / 0.0 / false side by side (top level and nested); '
                'lambdas from the Lam family, on nested profiles len / first / last / single / sum / str / halving and the '
                'lazy where / select / take / range, whose failures (StopIteration of first() on an empty inner list...) '
                'must surface with their class when the lazy result is consumed, after the prefix before them; integer '
                'arguments in [-len-2, len+2]; distinct = distinct (expression text, data); non-trivial = the real '
                'evaluation returns a value and the case is inside the modelled domain')
    if env['replay']:
        rp = json.load(open(env['replay']))
        case = rp['case']
        if 'src_target' in (case or {}):
            srcobl.differential(env, res, 'C13', oracle=src_oracle)
            return res
        value = value_from_json(case['data'])
        ops = [op_from_json(j) for j in case['ops']]
        binder = op_from_json(case['let']) if case.get('let') else None
        obs = obs_from_json(case.get('obs'))
        members = [tuple(m) for m in case.get('members') or [(0, 0, 'base')]]
        ctx = tuple(case['ctx']) if case.get('ctx') else None
        if case.get('history'):
            setup_history(order=case['history'])        # the create_context calls of the failing process, in their order
        mrs = model_replies(env['driver'], value, ops, binder, obs, members, ctx)
        f, info = evaluate_case(value, ops, mrs, binder, obs, members, ctx)
        res.case(common.digest([info['text'], repr(value)]), True, sample=info['text'])
        res.traces += 1
        if f:
            res.fail(f[0], failure_key(ops, info, obs), f[1], replay_of(value, ops, binder, obs, members, ctx))
        return res
    # quick: one round of 300 cases per function.  thorough: the same round, then further rounds (each with its own random
    # stream) while the wall-clock budget lasts - sized by time, not by count, so that it ends in <= ~10 min on any machine
    n_cases = 300
    max_rounds = 1 if tier == 'quick' else 40
    budget = float(os.environ.get('VERIF_THOROUGH_S') or 480)
    nproc = min(len(FUNCTIONS), max(1, (os.cpu_count() or 2) - 1), int(os.environ.get('VERIF_NPROC') or (8 if tier == 'quick' else 12)))
    t0 = time.time()
    results, rounds_run, stopped = [], 0, False
    for rnd in range(max_rounds):
        t1 = time.time()
        jobs = [(f, n_cases, env['seed'], use_model, rnd) for f in FUNCTIONS]
        with multiprocessing.Pool(nproc, maxtasksperchild=1) as pool:  # (a fresh process per job: its own create_context history)
            results += pool.map(work, jobs, chunksize=1)
        rounds_run += 1
        if any(out['failures'] for out in results):
            break
        if rnd + 1 < max_rounds and (time.time() - t0) + 1.15 * (time.time() - t1) > budget:
            stopped = True
            break
    per_fn, errs, kinds, sizes, stages, ood = {}, {}, {}, {}, {}, 0
    profiles, lams, lazy_lambda, dup_nested, twins = {}, {}, [0, 0, 0], 0, 0
    by_opts, shapes, member_kinds, strict_shapes, runs, dict_coll, raw = {}, {}, {}, {}, 0, 0, 0
    contexts, fresh, first_calls = {}, 0, {}
    for out in results:
        for sig, nt in out['cases']:
            res.case(sig, nt)
        res.traces += out['n'] if use_model else 0
        if out.get('sample') and len(res.samples) < 6:
            res.samples.append(out['sample'])
        for kind, key, what, replay in out['failures']:
            res.fail(kind, key, what, replay)
        pf = per_fn.setdefault(out['fname'], dict(cases=0, out_of_domain=0, errors=0))
        pf['cases'] += out['n']
        pf['out_of_domain'] += out['ood']
        pf['errors'] += sum(out['errs'].values())
        ood += out['ood']
        for src, dst in ((out['errs'], errs), (out['kinds'], kinds), (out['sizes'], sizes), (out['stages'], stages),
                         (out['lams'], lams), (out['shapes'], shapes), (out.get('member_kinds', {}), member_kinds),
                         (out['strict_shapes'], strict_shapes), (out['contexts'], contexts)):
            for k, v in src.items():
                dst[str(k)] = dst.get(str(k), 0) + v
        for k, v in out['profiles'].items():
            profiles[k] = [a + b for a, b in zip(profiles.get(k, [0, 0, 0]), v)]
        lazy_lambda = [a + b for a, b in zip(lazy_lambda, out['lazy_lambda'])]
        dup_nested += out['dup_nested']
        for k, v in out['by_opts'].items():
            by_opts[k] = [a + b for a, b in zip(by_opts.get(k, [0, 0, 0]), v)]
        runs += out['runs']
        fresh += out['contexts_fresh']
        h0 = (out.get('history') or [None])[0]
        first_calls[str(h0)] = first_calls.get(str(h0), 0) + 1
        dict_coll += out['dict_as_collection']
        raw += out['raw_input']
        twins += out['twins']
    srcobl.differential(env, res, 'C13', oracle=src_oracle)    # real function vs its translation vs the model
    res.extra['functions'] = len(FUNCTIONS)
    res.extra['per_function'] = per_fn
    res.extra['host_paths_this_process'] = dict(paths.HIST)
    res.extra['histogram'] = dict(receiver_kinds=kinds, sizes=sizes, stages=stages, real_error_classes=errs,
                                  out_of_domain=ood,
                                  element_profiles_cases_ood_errors=profiles,
                                  lambda_constructors_cases=lams,
                                  lazy_valued_lambda_cases_ood_errors=lazy_lambda,
                                  cases_with_repeated_inner_lists=dup_nested,
                                  cases_with_equal_scalars_of_different_type=twins,
                                  evaluations=runs,
                                  evaluations_by_member_options_runs_ood_errors=by_opts,
                                  member_kinds=member_kinds,
                                  observing_program_shapes=shapes,
                                  dictionaries_iterated_as_collections=dict_coll,
                                  evaluations_on_unconverted_input=raw,
                                  top_level_type_of_real_results=strict_shapes,
                                  cases_by_context_recipe=contexts, cases_with_context_made_on_the_spot=fresh,
                                  jobs_by_first_create_context_call_of_their_process=first_calls)
    res.extra['rounds_of_300_cases_per_function'] = rounds_run
    res.extra['stopped_by_wall_clock_budget_s'] = budget if stopped else None
    res.extra['correspondence_wall_s'] = round(time.time() - t0, 1)
    return res


LEVEL_TEXT = ('Lean 4 theorems, for collections of EVERY size, about a list-level reference model with one definition per '
              'function of queries.py / collections.py (+ unpack, memorize): ordering is a permutation, sorted and stable, '
              'and ANY stable sorted permutation equals it (stable_sort_unique - what licenses comparing with CPython\'s '
              'sorted); thenBy is the lexicographic comparator; groupBy partitions the input keeping encounter order with '
              'keys in first-occurrence order; the algebraic laws between where/select/take/skip/distinct/zip/slice/'
              'splitAt/splitWhere/sliceWhere/indexOf/insert/delete/replace/accumulate/aggregate/any/all/first; set algebra '
              'and dict laws under Python equality (1 == 1.0 == true); memorize and unpack (lists and one-shot iterators); '
              'lambdas are applied element by element - select is map including the position of an exception, a lazy '
              'select / where that ends without an exception has applied its lambda successfully to every element (never '
              'silently truncated), equal elements get equal results also when these are lazy sequences.  The model is tied '
              'to the code by running, per function, generated pipelines of <= 4 stages on the real engine, on the compiled '
              'model and on an independent plain-Python transcription of the documented meaning, and comparing finalised '
              'results / exception classes three ways.  The model takes the record of engine options and create_context flags '
              'the functions and the finaliser depend on (Opts: iterableDicts, convertTuplesToLists, convertSetsToLists, '
              'convertInputData, convertOutputData, limitIterators; group_by_agg_fallback, no_sets) - theorems: a dictionary '
              'is a collection exactly under iterableDicts, the limiter raises exactly on over-long collections after exactly n '
              'elements, the finaliser hands out no generator and (with convertTuplesToLists) no tuple, converted input holds no '
              'mutable list and is hashable; every case sends one text through several members of an engine family in a context '
              'made after a drawn history of create_context calls and compares type-strictly under that member\'s record.  '
              'Persistent updates: for every update, pipeline, document and option record the last component of an observing '
              'program let(x => P) -> [$x.u(..), .., $x] is what P alone returns and its first component what P.u(..) returns '
              '(observed_operand_is_pipeline_result, observed_update_is_unobserved_update); such programs are generated over '
              'the results of every list / dict / set producer and over the unconverted document.')
LEVEL_NOTE = ('trusted: Lean kernel; the hand-written model Yaql/Model/Seq.lean + SeqRun.lean (lambdas restricted to the closed '
              'family Lam/Lam2; Python ==/hash modelled by a canonical form; lazy sequences as "items then optional '
              'exception"; doubles by exact integer arithmetic on their bits, predicted only where the exact result is a '
              'double); harness/seqref.py; CPython sorted() being a stable sort. Doc-silent spots are modelled as '
              'implemented and listed in notes/C13.md. Out-of-domain (skipped, counted): results depending on the iteration '
              'order of a set built during evaluation, nested lazy projections, sets as sort keys, generators (lazy lambda '
              'results) that are hashed / compared / consumed twice or that raise after the lambda returned; for sorts that must raise, '
              'only "raises" is compared when the first exception depends on the sort algorithm.')
TECHNIQUE = 'Lean 4 proof (list induction, core mergeSort lemmas) + three-way differential run of generated pipelines'
DESIGN_REF = 'DESIGN.md section 5, C13'
