"""C13 - collection and query functions agree with their reference model.

For every function of queries.py / collections.py (+ unpack, memorize) generated
pipelines `$.f(...).g(...)...` (<= 4 stages) are evaluated three ways on the same input:
  real    engine(text).evaluate(data=...) of the yaql under test,
  ref     the plain-Python transcription of the documented meaning (harness/seqref.py),
  model   the compiled Lean model (Yaql.Model.Seq / SeqRun) the theorems are about.
Oracle (failing input): real differs from ref (and the model does not side with real).
Mismatch (tie broken): model differs from real although ref agrees with real, or ref is the odd one."""
import json
import multiprocessing
import os
import signal
import sys
import time

import zlib
import common
import paths
import values
import seqref
import seqgen
import srcobl
from seqref import FD, OOD

ID = 'C13'
LEAN_MODULES = ['Yaql.Props.C13'] + srcobl.modules('C13')   # Props/SrcSeq, SrcStream, SrcRepeat: model = current source
REQUIRED_THEOREMS = ['Yaql.Props.C13.' + n for n in (
    'orderBy_perm orderBy_sorted orderBy_stable orderBy_stable_pair stable_sort_unique thenBy_lex cmpFields_append '
    'descending_reverse_of_keys orderBy_sorted_int groupBy_partition groupBy_keys_distinct groupBy_group_content '
    'where_where select_select where_select_commute take_skip_append len_take reverse_reverse '
    'distinct_nodup_sublist distinct_idempotent distinct_complete zip_length zipLongest_length zip_rows_in_range '
    'slice_concat slice_sizes splitAt_append splitWhere_no_delims splitWhere_flatten sliceWhere_concat sliceWhere_uniform '
    'indexOf_first lastIndexOf_last indexWhere_first insert_delete_inverse iterInsert_delete_inverse replace_length '
    'delete_length accumulate_last_eq_aggregate sum_append any_all_demorgan first_eq_take1 '
    'mem_union mem_intersect mem_difference mem_symmetricDifference union_comm union_assoc intersect_comm '
    'intersect_assoc union_absorb intersect_absorb difference_is_complement symmetricDifference_eq SetInv_ops '
    'get_set combineDicts_right_biased combineDicts_assoc get_delete delete_then_containsKey mergeWith_disjoint '
    'memorize_same_elements memorize_interleaved memorize_interleaved_full unpack_binds unpack_binds_positional unpack_binds_named unpack_first '
    'mapM_pure filterM_pure flatMapM_pure takeWhileM_pure dropWhileM_pure distinctM_pure findM_pure reduceM_pure '
    'scanM2_pure groupsM_pure sortRun_pure run_where run_select run_take run_skip run_reverse run_distinct run_orderBy_iter '
    'select_map where_error_position takeWhile_error_position skipWhile_error_position select_never_truncates '
    'where_never_truncates select_congr_dup lam_where_eval lam_first_eval noLazy_of_hashable run_select_lazy run_where_lazy '
    'run_takeWhile_lazy run_skipWhile_lazy take_before_error take_past_error findM_error_position run_indexWhere_eager'
).split()] + srcobl.theorems('C13')
TRUSTED = ["CPython's sorted() is a stable sort (licensed by stable_sort_unique); Python ==/hash on the generated values "
           "is what Value.pyEq / canon model; iteration order of an input set is read from CPython",
           'harness/seqref.py (plain-Python transcription of the documented meaning, second opinion for every case)']
ASSUMPTIONS = ['elements are null/bool/int/float/str, nested lists, dicts; floats are finite, and arithmetic on them is predicted '
               'only where the exact result is a double (IEEE arithmetic is correctly rounded); sets and one-shot iterators '
               'in the input only at top level',
               'results that depend on the iteration order of a set built during evaluation are out of domain (skipped)',
               'lambdas come from the closed family Lam/Lam2 of Model/SeqRun.lean (arithmetic, comparison, member, index, '
               'constant; on nested collections len/first/last/single/sum, the lazy where/select/take/range, str, / 2)',
               'a generator returned by a lambda is followed through operations that hand elements on once without hashing, '
               'comparing or inspecting them (Op.linear) and into the finaliser; hashing / comparing / consuming it twice, '
               'and a generator that would raise when it is consumed after the lambda returned, are out of domain for the '
               'Lean model (the plain-Python reference still decides the oracle there)']

OPTIONS = {'yaql.convertSetsToLists': True, 'yaql.limitIterators': 10000, 'yaql.memoryQuota': 10000000}


# ------------------------------------------------------------------ the three evaluators

_ENGINE = None
_ROOT = None
_PARSED = {}


def engine():
    global _ENGINE, _ROOT
    if _ENGINE is None:
        import yaql
        _ENGINE = yaql.YaqlFactory().create(options=OPTIONS)
        _ROOT = yaql.create_context()
    return _ENGINE, _ROOT


class Timeout(BaseException):
    pass


def _alarm(signum, frame):
    raise Timeout()


def to_input(v):
    """run-time form -> what a host program would pass as data"""
    if isinstance(v, seqgen.Iter):
        return iter([to_input(x) for x in v.items])
    if isinstance(v, tuple):
        # a host sequence is a list or a tuple (json.loads gives lists, database rows and host code often tuples), and
        # either may hold mutable containers; which one is chosen from the content, so a case replays identically
        items = [to_input(x) for x in v]
        return tuple(items) if zlib.crc32(repr(v).encode('utf8', 'replace')) % 3 == 0 else items
    if isinstance(v, dict):
        return {k: to_input(x) for k, x in v.items()}
    if isinstance(v, frozenset):
        return set(v)
    return v


def prepare(value):
    """(data for yaql, data for the reference, JSON for the model)"""
    if isinstance(value, frozenset):
        host = set(value)
        seen = frozenset(x for x in host)       # built as convert_input_data builds it
        return host, seen, {'se': [values.enc(x) for x in seen]}
    if isinstance(value, seqgen.Iter):
        return to_input(value), iter(value.items), {'it': [values.enc(x) for x in value.items]}
    return to_input(value), value, values.enc(value)


def classify(e):
    return type(e).__name__


def run_real_once(text, host_data, timeout=5):
    eng, root = engine()
    try:
        eng(text)           # parsing errors surface outside the watchdog, as before
        signal.signal(signal.SIGALRM, _alarm)
        signal.setitimer(signal.ITIMER_REAL, timeout)
        try:
            # one of the equivalent host paths (plain / reused statement / engine.copy / per-call options / document bound
            # by the host), chosen by the text: see harness/paths.py
            return ('ok', paths.evaluate(eng, root, text, host_data))
        finally:
            signal.setitimer(signal.ITIMER_REAL, 0)
    except Timeout:
        return ('err', 'Timeout')
    except RecursionError:
        return ('err', 'RecursionError')
    except Exception as e:
        return ('err', classify(e))


def size_of(f):
    if isinstance(f, (list, tuple)):
        return 1 + sum(size_of(x) for x in f)
    if isinstance(f, dict):
        return 1 + sum(size_of(x) for x in f.values())
    return 1


def run_real(text, make_host, timeout=5):
    """a timeout is only believed when it repeats with a much longer allowance (loaded machine)"""
    r = run_real_once(text, make_host(), timeout)
    if r == ('err', 'Timeout'):
        r = run_real_once(text, make_host(), 8 * timeout)
    return r


def run_ref(ref_data, ops, binder=None):
    try:
        r = seqref.run_ref(ref_data, ops, binder)
        if size_of(r) > 3000:
            return ('big', None)       # beyond the engine's collection / memory limits (C08's subject)
        return ('ok', r)
    except OOD:
        return ('ood', None)
    except RecursionError:
        return ('err', 'RecursionError')
    except Exception as e:
        return ('err', classify(e))


def case_json(value, ops, binder=None):
    _, _, dj = prepare(value)
    return {'data': dj, 'ops': [seqref.op_json(a, values.enc) for a in ops],
            'let': None if binder is None else seqref.op_json(binder, values.enc)}


# ------------------------------------------------------------------ comparisons

def same_scalar(a, b):
    return type(a) is type(b) and a == b


def match_fin(f, r):
    """reference result (finalised, sets marked) against the real result"""
    if isinstance(f, tuple) and len(f) == 2 and f[0] == 'set':
        if not isinstance(r, list) or len(r) != len(f[1]):
            return False
        left = list(r)
        for x in f[1]:
            for i, y in enumerate(left):
                if match_fin(x, y):
                    del left[i]
                    break
            else:
                return False
        return True
    if isinstance(f, list):
        return isinstance(r, list) and len(f) == len(r) and all(match_fin(x, y) for x, y in zip(f, r))
    if isinstance(f, dict):
        if not isinstance(r, dict) or len(f) != len(r):
            return False
        for k, v in f.items():
            hit = [rk for rk in r if same_scalar(rk, k)]
            if len(hit) != 1 or not match_fin(v, r[hit[0]]):
                return False
        return True
    return same_scalar(f, r)


def enc_fin(f):
    if isinstance(f, tuple) and len(f) == 2 and f[0] == 'set':
        return {'se': [enc_fin(x) for x in f[1]]}
    if isinstance(f, list):
        return {'li': [enc_fin(x) for x in f]}
    if isinstance(f, dict):
        return {'d': [[enc_fin(k), enc_fin(v)] for k, v in f.items()]}
    return values.enc(f)


def norm_model(j):
    """model value -> the shape finalisation gives (tuples and iterators become lists)"""
    if isinstance(j, dict):
        (k, x), = j.items()
        if k in ('tu', 'li', 'it'):
            return {'li': [norm_model(t) for t in x]}
        if k == 'se':
            return {'se': [norm_model(t) for t in x]}
        if k == 'd':
            return {'d': [[norm_model(a), norm_model(b)] for a, b in x]}
    return j


def dec_model(j):
    """model value -> finalised python shape with sets marked (to match against the real result)"""
    if j is None or isinstance(j, bool):
        return j
    (k, x), = j.items()
    if k == 'i':
        return int(x)
    if k == 'f':
        return values.bits2f(x)
    if k == 's':
        return ''.join(chr(c) for c in x)
    if k in ('tu', 'li', 'it'):
        return [dec_model(t) for t in x]
    if k == 'se':
        return ('set', [dec_model(t) for t in x])
    if k == 'd':
        return {dec_model(a): dec_model(b) for a, b in x}
    raise ValueError(j)


def agree_real_ref(real, ref):
    if ref[0] == 'ood':
        return None
    if real[0] != ref[0]:
        return False
    if real[0] == 'err':
        return real[1] == ref[1]
    return match_fin(ref[1], real[1])


def agree_real_model(real, mod):
    if mod is None or mod.get('err') == 'OOD':
        return None
    if 'err' in mod:
        return real[0] == 'err' and (mod['err'] == '*' or mod['err'] == real[1])
    if real[0] != 'ok':
        return False
    try:
        return match_fin(dec_model(mod['ok']), real[1])
    except TypeError:
        return False


def show(r):
    return '%s %r' % (r[0], r[1]) if r[0] != 'ood' else 'out-of-domain'


def show_model(m):
    if m is None:
        return 'no-model'
    if 'err' in m:
        return 'err ' + m['err']
    try:
        return 'ok %r' % (dec_model(m['ok']),)
    except Exception:
        return 'ok ' + json.dumps(m['ok'])


# ------------------------------------------------------------------ one case

def evaluate_case(value, ops, model_reply, binder=None):
    """-> (failure or None, info) ; failure = (kind, what)"""
    text = seqref.render(ops, binder)
    real = run_real(text, lambda: prepare(value)[0])
    _, refdata, _ = prepare(value)
    ref = run_ref(refdata, ops, binder)
    if ref[0] == 'big':
        return None, dict(text=text, real=real, ref=('ood', None), model=model_reply)
    a_ref = agree_real_ref(real, ref)
    a_mod = agree_real_model(real, model_reply)
    info = dict(text=text, real=real, ref=ref, model=model_reply)
    if real == ('err', 'Timeout'):
        return ('oracle', '%s on %r: no result within the watchdog (reference: %s)' % (text, value, show(ref))), info
    if a_ref is False and a_mod is not True:
        return ('oracle', '%s on %r: real %s, documented meaning %s (model: %s)' % (
            text, value, show(real), show(ref), show_model(model_reply))), info
    if a_ref is False:
        return ('mismatch', '%s on %r: the reference transcription gives %s but real and model agree on %s' % (
            text, value, show(ref), show(real))), info
    if a_mod is False:
        return ('mismatch', '%s on %r: real %s, model %s (reference %s)' % (
            text, value, show(real), show_model(model_reply), show(ref))), info
    return None, info


def ask_model(drv, cases):
    if drv is None:
        return [None] * len(cases)
    out = []
    for i in range(0, len(cases), 200):
        out += drv.ask({'p': 'C13', 'cases': cases[i:i + 200]})['res']
    return out


def value_to_json(v):
    if isinstance(v, seqgen.Iter):
        return {'it': [values.enc(x) for x in v.items]}
    return values.enc(v)


def value_from_json(j):
    if isinstance(j, dict) and 'it' in j:
        return seqgen.Iter(dec_rt(x) for x in j['it'])
    return dec_rt(j)


def dec_rt(j):
    if j is None or isinstance(j, bool):
        return j
    (k, x), = j.items()
    if k == 'i':
        return int(x)
    if k == 'f':
        return values.bits2f(x)
    if k == 's':
        return ''.join(chr(c) for c in x)
    if k in ('tu', 'li'):
        return tuple(dec_rt(t) for t in x)
    if k == 'd':
        return FD((dec_rt(a), dec_rt(b)) for a, b in x)
    if k == 'se':
        return frozenset(dec_rt(t) for t in x)
    raise ValueError(j)


def op_from_json(j):
    a = {'op': j['op']}
    for k, v in j.items():
        if k == 'op':
            continue
        if k in ('l', 'l2', 'l3'):
            a[k] = None if v is None else lam_from_json(v)
        elif k in ('f2', 'g2'):
            a[k] = None if v is None else lam2_from_json(v)
        elif k in ('n', 'm', 'k', 'b', 'b2', 'name', 'names', 'alias', 'ns'):
            a[k] = v
        elif k in ('v', 'w'):
            a[k] = dec_rt(v)
        elif k == 'vs':
            a[k] = tuple(dec_rt(x) for x in v)
        elif k == 'vss':
            a[k] = tuple(tuple(dec_rt(x) for x in xs) for xs in v)
        elif k == 'kv':
            a[k] = dec_rt(v)
    return a


def lam_from_json(j):
    t = j[0]
    if t == 'arg':
        return ['arg']
    if t == 'const':
        return ['const', dec_rt(j[1])]
    if t == 'not':
        return ['not', lam_from_json(j[1])]
    if t == 'pair':
        return ['pair', lam_from_json(j[1]), lam_from_json(j[2])]
    if t == 'eq':
        return ['eq', lam_from_json(j[1]), dec_rt(j[2])]
    if t in ('len', 'single', 'sum', 'range', 'str', 'half'):
        return [t, lam_from_json(j[1])]
    if t in ('first', 'last'):
        return [t, lam_from_json(j[1]), [dec_rt(v) for v in j[2]]]
    if t in ('where', 'select'):
        return [t, lam_from_json(j[1]), lam_from_json(j[2])]
    return [t, lam_from_json(j[1]), j[2]]


def lam2_from_json(j):
    if j[0] == 'const':
        return ['const', dec_rt(j[1])]
    if j[0] in ('on1', 'on2', 'plusOn'):
        return [j[0], lam_from_json(j[1])]
    return [j[0]]


def replay_of(value, ops, binder=None):
    return {'data': value_to_json(value), 'ops': [seqref.op_json(a, values.enc) for a in ops],
            'let': None if binder is None else seqref.op_json(binder, values.enc)}


def fails(value, ops, drv, kind, binder=None):
    try:
        mr = ask_model(drv, [case_json(value, ops, binder)])[0]
        f, _ = evaluate_case(value, ops, mr, binder)
    except Exception:
        return None
    return f if f and f[0] == kind else None


def shrink(value, ops, drv, kind, binder=None):
    """fewer stages, then fewer elements, while the same kind of failure persists"""
    changed = True
    while changed:
        changed = False
        for i in range(len(ops) - 1, -1, -1):
            cand = ops[:i] + ops[i + 1:]
            if cand and fails(value, cand, drv, kind, binder):
                ops, changed = cand, True
                break
        items = None
        if isinstance(value, seqgen.Iter):
            items = list(value.items)
        elif isinstance(value, tuple):
            items = list(value)
        if items:
            for i in range(len(items)):
                cand = items[:i] + items[i + 1:]
                cv = seqgen.Iter(cand) if isinstance(value, seqgen.Iter) else tuple(cand)
                if fails(cv, ops, drv, kind, binder):
                    value, changed = cv, True
                    break
            else:
                # members of the inner lists
                for i, x in enumerate(items):
                    if not isinstance(x, tuple) or not x:
                        continue
                    hit = False
                    for j in range(len(x)):
                        cand = items[:i] + [x[:j] + x[j + 1:]] + items[i + 1:]
                        cv = seqgen.Iter(cand) if isinstance(value, seqgen.Iter) else tuple(cand)
                        if fails(cv, ops, drv, kind, binder):
                            value, changed, hit = cv, True, True
                            break
                    if hit:
                        break
    return value, ops


# ------------------------------------------------------------------ per-function work (runs in a worker process)

def failure_key(ops, info):
    names = '.'.join(a['op'] for a in ops)
    return names[:60]


def lam_tags(x, acc):
    """constructors used by the lambdas of an op (nested ones included)"""
    if isinstance(x, list) and x and isinstance(x[0], str) and x[0] in LAM_TAGS:
        acc[x[0]] = acc.get(x[0], 0) + 1
        for y in x[1:]:
            lam_tags(y, acc)
    return acc


LAZY_TAGS = ('where', 'select', 'take', 'range')
LAM_TAGS = frozenset('arg const add mul mod gt eq member index not pair len first last single sum where select take range '
                     'str half fst snd plus max on1 on2 plusOn'.split())


def work(args):
    fname, n_cases, seed, use_model = args
    rng = common.make_rng(seed, 'C13/' + fname)
    drv = common.Driver() if use_model else None
    out = dict(fname=fname, cases=[], failures=[], hist={}, n=0, ood=0, errs={}, kinds={}, sizes={}, stages={},
               profiles={}, lams={}, lazy_lambda=[0, 0, 0], dup_nested=0, twins=0)
    try:
        batch = []
        for _ in range(n_cases):
            kind, prof, value, ops, binder = seqgen.pipeline(rng, fname)
            batch.append((kind, prof, value, ops, binder))
        replies = ask_model(drv, [case_json(v, ops, b) for _, _, v, ops, b in batch])
        for (kind, prof, value, ops, binder), mr in zip(batch, replies):
            f, info = evaluate_case(value, ops, mr, binder)
            out['n'] += 1
            real, ref = info['real'], info['ref']
            ood = ref[0] == 'ood' or (mr or {}).get('err') == 'OOD'
            if ood:
                out['ood'] += 1
            if real[0] == 'err':
                out['errs'][real[1]] = out['errs'].get(real[1], 0) + 1
            out['kinds'][kind] = out['kinds'].get(kind, 0) + 1
            n_el = len(seqgen.Ctx(kind, prof, value).elems)
            out['sizes'][n_el] = out['sizes'].get(n_el, 0) + 1
            out['stages'][len(ops)] = out['stages'].get(len(ops), 0) + 1
            pr = out['profiles'].setdefault(prof, [0, 0, 0])        # cases, out of domain, real exceptions
            pr[0] += 1
            pr[1] += 1 if ood else 0
            pr[2] += 1 if real[0] == 'err' else 0
            tags = {}
            for a in ops:
                for k in ('l', 'l2', 'l3', 'f2', 'g2'):
                    lam_tags(a.get(k), tags)
            for k, v in tags.items():
                out['lams'][k] = out['lams'].get(k, 0) + 1
            if any(t in tags for t in LAZY_TAGS):                   # a lambda that returns a lazy sequence
                out['lazy_lambda'][0] += 1
                out['lazy_lambda'][1] += 1 if ood else 0
                out['lazy_lambda'][2] += 1 if real[0] == 'err' else 0
            els = seqgen.Ctx(kind, prof, value).elems
            nested = [x for x in els if isinstance(x, tuple)]
            if len(nested) != len(set(nested)):
                out['dup_nested'] += 1                              # the same inner list more than once
            flat = [y for x in els for y in (x if isinstance(x, tuple) else (x,)) if isinstance(y, (int, float))]
            if any(a == b and type(a) is not type(b) for i, a in enumerate(flat) for b in flat[i + 1:]):
                out['twins'] += 1                                   # equal scalars of different type side by side
            nontrivial = real[0] == 'ok' and not ood
            out['cases'].append((common.digest([info['text'], repr(value)]), nontrivial))
            if f and len(out['failures']) < 3:
                sv, sops = shrink(value, ops, drv, f[0], binder)
                g = fails(sv, sops, drv, f[0], binder) or f
                out['failures'].append((g[0], failure_key(sops, info), g[1], replay_of(sv, sops, binder)))
        out['sample'] = dict(text=info['text'], data=repr(value), real=repr(real)[:200]) if n_cases else None
    finally:
        if drv:
            drv.close()
    return out


FUNCTIONS = list(seqgen.ALL_OPS)


def generate():
    return srcobl.generate('C13')     # re-translate collections.py / queries.py (harness/py2lean.py -> Gen/SrcSeq ...)


# how a translated function is reached from a yaql pipeline: (receiver, op) of this check's case format
def _seq(c):
    return tuple(c)


def _it(c):
    return values.Iter(list(c))


SRC_OPS = {
    'list_insert': lambda c, n, v: (_seq(c), dict(op='insert', n=n, v=v)),
    'iter_insert': lambda c, n, v: (_it(c), dict(op='insert', n=n, v=v)),
    'insert_many': lambda c, n, vs: (_seq(c), dict(op='insertMany', n=n, vs=tuple(vs))),
    'delete': lambda c, n, k: (_seq(c), dict(op='delete', vs=(n, k))),
    'replace': lambda c, n, v, k: (_seq(c), dict(op='replace', n=n, m=k, v=v)),
    'replace_many': lambda c, n, vs, k: (_seq(c), dict(op='replaceMany', n=n, m=k, vs=tuple(vs))),
    'index_of': lambda c, v: (_seq(c), dict(op='indexOf', v=v)),
    'last_index_of': lambda c, v: (_seq(c), dict(op='lastIndexOf', v=v)),
    'enumerate_': lambda c, n: (_seq(c), dict(op='enumerate', n=n)),
    'append': lambda c, vs: (_seq(c), dict(op='append', vs=tuple(vs))),
    'skip': lambda c, n: (_seq(c), dict(op='skip', n=n)),
    'limit': lambda c, n: (_seq(c), dict(op='take', n=n)),
    'split_at': lambda c, n, f: (_seq(c), dict(op='splitAt', n=n)),
}
_SRC_DRV = [None]


def src_oracle(t, pyargs, real):
    """a candidate from the source-level differential, as a one-stage pipeline judged by this check's oracle (real
    engine vs the plain-Python transcription of the documented meaning)"""
    mk = SRC_OPS.get(t.name)
    if mk is None:
        return None
    try:
        value, op = mk(*pyargs)
        mr = ask_model(_SRC_DRV[0], [case_json(value, [op])])[0]
        f, info = evaluate_case(value, [op], mr)
    except Exception:       # the arguments cannot be spelled as a pipeline of this check
        return None
    if f and f[0] == 'oracle':
        return (failure_key([op], info), f[1] + '  [found through the source-level differential of %s]' % t.qual,
                replay_of(value, [op]))
    return None


def run(env, res):
    tier = env['tier']
    use_model = env['driver'] is not None
    _SRC_DRV[0] = env['driver']
    res.rule = ('per function f: pipelines of <= 4 stages containing f, on tuples / sets / dicts / one-shot iterators / '
                'scalars of size 0..6 with duplicates, nulls, nesting; element profiles include lists of small lists with '
                'REPEATED and empty inner lists and 1 / 1.0 / true, 0 / 0.0 / false side by side (top level and nested); '
                'lambdas from the Lam family, on nested profiles len / first / last / single / sum / str / halving and the '
                'lazy where / select / take / range, whose failures (StopIteration of first() on an empty inner list...) '
                'must surface with their class when the lazy result is consumed, after the prefix before them; integer '
                'arguments in [-len-2, len+2]; distinct = distinct (expression text, data); non-trivial = the real '
                'evaluation returns a value and the case is inside the modelled domain')
    if env['replay']:
        rp = json.load(open(env['replay']))
        case = rp['case']
        if 'src_target' in (case or {}):
            srcobl.differential(env, res, 'C13', oracle=src_oracle)
            return res
        value = value_from_json(case['data'])
        ops = [op_from_json(j) for j in case['ops']]
        binder = op_from_json(case['let']) if case.get('let') else None
        mr = ask_model(env['driver'], [case_json(value, ops, binder)])[0]
        f, info = evaluate_case(value, ops, mr, binder)
        res.case(common.digest([info['text'], repr(value)]), True, sample=info['text'])
        res.traces += 1
        if f:
            res.fail(f[0], failure_key(ops, info), f[1], replay_of(value, ops, binder))
        return res
    n_cases = 300 if tier == 'quick' else 10000
    jobs = [(f, n_cases, env['seed'], use_model) for f in FUNCTIONS]
    nproc = min(len(jobs), max(1, (os.cpu_count() or 2) - 1), 8 if tier == 'quick' else 12)
    t0 = time.time()
    with multiprocessing.Pool(nproc) as pool:
        results = pool.map(work, jobs, chunksize=1)
    per_fn, errs, kinds, sizes, stages, ood = {}, {}, {}, {}, {}, 0
    profiles, lams, lazy_lambda, dup_nested, twins = {}, {}, [0, 0, 0], 0, 0
    for out in results:
        for sig, nt in out['cases']:
            res.case(sig, nt)
        res.traces += out['n'] if use_model else 0
        if out.get('sample') and len(res.samples) < 6:
            res.samples.append(out['sample'])
        for kind, key, what, replay in out['failures']:
            res.fail(kind, key, what, replay)
        per_fn[out['fname']] = dict(cases=out['n'], out_of_domain=out['ood'], errors=sum(out['errs'].values()))
        ood += out['ood']
        for src, dst in ((out['errs'], errs), (out['kinds'], kinds), (out['sizes'], sizes), (out['stages'], stages),
                         (out['lams'], lams)):
            for k, v in src.items():
                dst[str(k)] = dst.get(str(k), 0) + v
        for k, v in out['profiles'].items():
            profiles[k] = [a + b for a, b in zip(profiles.get(k, [0, 0, 0]), v)]
        lazy_lambda = [a + b for a, b in zip(lazy_lambda, out['lazy_lambda'])]
        dup_nested += out['dup_nested']
        twins += out['twins']
    srcobl.differential(env, res, 'C13', oracle=src_oracle)    # real function vs its translation vs the model
    res.extra['functions'] = len(FUNCTIONS)
    res.extra['per_function'] = per_fn
    res.extra['host_paths_this_process'] = dict(paths.HIST)
    res.extra['histogram'] = dict(receiver_kinds=kinds, sizes=sizes, stages=stages, real_error_classes=errs,
                                  out_of_domain=ood,
                                  element_profiles_cases_ood_errors=profiles,
                                  lambda_constructors_cases=lams,
                                  lazy_valued_lambda_cases_ood_errors=lazy_lambda,
                                  cases_with_repeated_inner_lists=dup_nested,
                                  cases_with_equal_scalars_of_different_type=twins)
    res.extra['correspondence_wall_s'] = round(time.time() - t0, 1)
    return res


LEVEL_TEXT = ('Lean 4 theorems, for collections of EVERY size, about a list-level reference model with one definition per '
              'function of queries.py / collections.py (+ unpack, memorize): ordering is a permutation, sorted and stable, '
              'and ANY stable sorted permutation equals it (stable_sort_unique - what licenses comparing with CPython\'s '
              'sorted); thenBy is the lexicographic comparator; groupBy partitions the input keeping encounter order with '
              'keys in first-occurrence order; the algebraic laws between where/select/take/skip/distinct/zip/slice/'
              'splitAt/splitWhere/sliceWhere/indexOf/insert/delete/replace/accumulate/aggregate/any/all/first; set algebra '
              'and dict laws under Python equality (1 == 1.0 == true); memorize and unpack (lists and one-shot iterators); '
              'lambdas are applied element by element - select is map including the position of an exception, a lazy '
              'select / where that ends without an exception has applied its lambda successfully to every element (never '
              'silently truncated), equal elements get equal results also when these are lazy sequences.  The model is tied '
              'to the code by running, per function, generated pipelines of <= 4 stages on the real engine, on the compiled '
              'model and on an independent plain-Python transcription of the documented meaning, and comparing finalised '
              'results / exception classes three ways.')
LEVEL_NOTE = ('trusted: Lean kernel; the hand-written model Yaql/Model/Seq.lean + SeqRun.lean (lambdas restricted to the closed '
              'family Lam/Lam2; Python ==/hash modelled by a canonical form; lazy sequences as "items then optional '
              'exception"; doubles by exact integer arithmetic on their bits, predicted only where the exact result is a '
              'double); harness/seqref.py; CPython sorted() being a stable sort. Doc-silent spots are modelled as '
              'implemented and listed in notes/C13.md. Out-of-domain (skipped, counted): results depending on the iteration '
              'order of a set built during evaluation, nested lazy projections, sets as sort keys, generators (lazy lambda '
              'results) that are hashed / compared / consumed twice or that raise after the lambda returned; for sorts that must raise, '
              'only "raises" is compared when the first exception depends on the sort algorithm.')
TECHNIQUE = 'Lean 4 proof (list induction, core mergeSort lemmas) + three-way differential run of generated pipelines'
DESIGN_REF = 'DESIGN.md section 5, C13'
