"""C20 - date/time values denote instants consistently.

Correspondence: random expression trees over datetimes (years 1..9999, microsecond resolution, offsets in
(-24h, 24h), naive and aware host objects of several tzinfo classes bound as variables, or built with
datetime(...) / timespan(...)), timespans from signed integer components and numbers are evaluated by the real
engine (`yaql.convertOutputData` off, so datetime / timedelta objects come back) and by the compiled Lean model
(Yaql.Model.DateTime behind Drv/C20, which reads the declared class of every datetime parameter from the
generated table).  Results are compared exactly on (wall clock, offset) / microseconds / error class; float
results against the model's exact rational, correctly rounded, within 1 ulp.

Oracle (on the real code alone): (a) the laws of the statement checked on real results only - timestamp round
trips, utc, (d + t) - t, (d + t) - d, d2 - (d2 - d1), comparisons against the instants of the inputs, the unit
properties, naive = the same wall clock tagged UTC for every function; (b) every tree is also evaluated with
Python's own datetime / timedelta arithmetic on aware values (`pyref`) and the real result must be the same
value (error classes are left to the model correspondence).

Histories (statement reuse across operand kinds): ONE parsed statement `$a op $b` / `$a.prop` - and ONE lambda body,
`$rows.select($[0] op $[1])`, `$rows.select($ op $ref)` - is evaluated over a sequence of operand tuples whose kinds
change (null, ints, strings, timespans, datetimes without zone, aware datetimes; datetimes as equal / neighbouring
instants at different offsets) for every C20 operator and property (= != < <= > >= + -, .utc .offset .timestamp).
Oracle on the real code alone: position by position the result equals what a freshly parsed statement gives for that
tuple alone (history independence) and, for two datetimes under a comparison, what the instants say; correspondence:
the compiled model runs the same history (Model/DateTimeHist.runHistory).

The process runs with TZ=VRF-05:45 (a fixed UTC+05:45 host zone), so code that reads a naive value as host-local
time instead of UTC gives a visibly different answer."""
import datetime as pdt
import json
import math
import os
import time
from fractions import Fraction
import struct

os.environ['TZ'] = 'VRF-05:45'
time.tzset()

import common  # noqa: E402
import floatref  # noqa: E402
import pyfacts  # noqa: E402
import srcobl  # noqa: E402
import yaql  # noqa: E402
from dateutil import tz as dtz  # noqa: E402
from yaql.language import factory  # noqa: E402

ID = 'C20'
LEAN_MODULES = ['Yaql.Props.C20', 'Yaql.Props.C20Cal', 'Yaql.Props.C20Gen', 'Yaql.Props.C20Float', 'Yaql.Props.FloatRound',
                'Yaql.Props.C20Hist'] + \
    srcobl.modules('C20')      # Props/SrcDateTime: the operator payloads of date_time.py as they read now
REQUIRED_THEOREMS = [
    'Yaql.Props.C20.add_sub', 'Yaql.Props.C20.compare_instants', 'Yaql.Props.C20.utc_same_instant',
    'Yaql.Props.C20.timestamp_roundtrip', 'Yaql.Props.C20.naive_is_utc', 'Yaql.Props.C20.naive_is_utc_fields',
    'Yaql.Props.C20.units', 'Yaql.Props.C20.range_errors',
    'Yaql.Props.C20Cal.ord2ymd_ymd2ord', 'Yaql.Props.C20Cal.ymd2ord_ord2ymd', 'Yaql.Props.C20Cal.build_fields',
    'Yaql.Props.C20Cal.date_time_split',
    'Yaql.Props.C20.history_independent', 'Yaql.Props.C20.history_getElem', 'Yaql.Props.C20.history_compare_instants',
    'Yaql.Props.C20.history_add_sub', 'Yaql.Props.C20.history1_independent', 'Yaql.Props.C20.lastWinner_breaks_equality',
    'Yaql.Props.C20.lastWinner_breaks_rows', 'Yaql.Props.C20.lastWinner_exact', 'Yaql.Props.C20.exact_of_not_equality',
    'Yaql.Props.C20.not_exact_eq',
    'Yaql.Props.C20Gen.datetime_params_convert', 'Yaql.Props.C20Gen.modelled_signatures',
    'Yaql.Props.C20.units_float', 'Yaql.Props.C20.tsUnitF_single', 'Yaql.Props.C20.tsUnitF_exact', 'Yaql.Props.C20.tsUnitF_mono',
    'Yaql.Props.C20.tsUnitF_value', 'Yaql.Props.C20.timestamp_float', 'Yaql.Props.C20.timestamp_float_roundtrip',
    'Yaql.Props.C20.tsDivTs_float', 'Yaql.Props.C20.ts_scale_float',
    'Yaql.Props.FloatRound.roundRat_nearest', 'Yaql.Props.FloatRound.roundRat_exact', 'Yaql.Props.FloatRound.roundRat_tie_even',
    'Yaql.Props.FloatRound.roundRat_mono', 'Yaql.Props.FloatRound.roundRat_congr', 'Yaql.Props.FloatRound.divBits_pos',
] + srcobl.theorems('C20')
TRUSTED = ['CPython datetime/timedelta as the carrier of the real values (fixed-offset tzinfo only)',
           'one platform float step: the float -> microseconds rounding of datetime.fromtimestamp (a float multiplication '
           'by 1e6 inside _PyTime_ObjectToTimeval; the harness only feeds timestamps on which it agrees with exact rational '
           'rounding).  NOT trusted any more: float(int), int / int, float / float, float * float and '
           'timedelta(microseconds=<float>) - the unit properties, .timestamp, ts / ts, ts * number and ts / number are '
           'modelled step by step (FloatRound.roundRat / divBits / mulBits, roundRat proved correctly rounded) and compared '
           'bit for bit / microsecond for microsecond on arbitrary floats',
           'harness/gens/datetimedefs.py reads the declared parameter types of the live registrations']
ASSUMPTIONS = ['tzinfo objects are fixed-offset (dateutil tzutc/tzoffset, datetime.timezone, a custom fixed class); '
               'DST zones with PEP 495 folds are outside the model',
               'format / datetime(string) / now / localtz are not modelled (glibc and locale dependent)',
               'timestamps beyond +-10^13 s (platform gmtime/time_t errors) are only probed at a few points']

US = 10 ** 6
DAY = 86400 * US
MAXWALL = 3652059 * DAY
EPOCH = 719162 * DAY
HOST_OFF = 20700 * US
MIN = pdt.datetime.min
USTD = pdt.timedelta(microseconds=1)
EPOCH_UTC = pdt.datetime(1970, 1, 1, tzinfo=pdt.timezone.utc)
TS_MIN = -999999999 * DAY
TS_MAX = 1000000000 * DAY - 1

ENGINE = factory.YaqlFactory().create(options={'yaql.convertOutputData': False})
CTX = yaql.create_context()


def generate():
    info = dict(pyfacts.run(['DateTimeDefs'])['DateTimeDefs'])
    info.update(srcobl.generate('C20'))       # re-translate the operator payloads of date_time.py
    return info


# ------------------------------------------------------------------ host values

class FixedTz(pdt.tzinfo):
    """a host-defined fixed-offset zone (neither dateutil nor datetime.timezone)"""

    def __init__(self, us):
        self.us = us

    def utcoffset(self, dt):
        return pdt.timedelta(microseconds=self.us)

    def dst(self, dt):
        return None

    def tzname(self, dt):
        return 'fixed'


def mk_tz(off, flavour):
    if off is None:
        return None
    if flavour == 'tzutc' and off == 0:
        return dtz.tzutc()
    if flavour == 'tzoffset':
        return dtz.tzoffset(None, pdt.timedelta(microseconds=off))
    if flavour == 'custom':
        return FixedTz(off)
    return pdt.timezone(pdt.timedelta(microseconds=off))


def mk_dt(wall, off, flavour='timezone', fold=0):
    d = MIN + pdt.timedelta(microseconds=wall)
    return d.replace(tzinfo=mk_tz(off, flavour), fold=fold)


def mk_ts(us):
    return pdt.timedelta(microseconds=us)


def wall_of(d):
    return (d.replace(tzinfo=None) - MIN) // USTD


def off_of(d):
    if d.tzinfo is None:
        return None
    try:
        o = d.utcoffset()
    except ValueError:
        o = d.tzinfo.utcoffset(d)     # dateutil zones do not validate; CPython's wrapper does
    return None if o is None else o // USTD


def us_of(t):
    return t // USTD


def canon(v):
    if isinstance(v, bool):
        return ['b', v]
    if isinstance(v, pdt.datetime):
        return ['dt', wall_of(v), off_of(v)]
    if isinstance(v, pdt.timedelta):
        return ['ts', us_of(v)]
    if isinstance(v, int):
        return ['i', v]
    if isinstance(v, float):
        return ['fl', v]
    return ['other', repr(v)[:80]]


# ------------------------------------------------------------------ float steps (platform, transcribed)

def rhe(fr):
    """round-half-even of a Fraction"""
    q = fr.numerator // fr.denominator
    r = fr - q
    if 2 * r < 1:
        return q
    if 2 * r > 1:
        return q + 1
    return q if q % 2 == 0 else q + 1


def cpy_seconds_to_us(x):
    """microseconds datetime.fromtimestamp makes of x (_PyTime_ObjectToTimeval, ROUND_HALF_EVEN)"""
    if isinstance(x, int):
        return x * US
    frac, intp = math.modf(x)
    frac = float(round(frac * 1e6))
    if frac >= 1e6:
        frac -= 1e6
        intp += 1.0
    elif frac < 0:
        frac += 1e6
        intp -= 1.0
    return int(intp) * US + int(frac)


def float_ts_exact(x):
    """the platform's float rounding of x seconds agrees with exact rational rounding"""
    if isinstance(x, int):
        return True
    if x != x or x in (float('inf'), float('-inf')):
        return False
    return cpy_seconds_to_us(x) == rhe(Fraction(x) * US)


def close(real, fr, ulps=1):
    """real float is the correctly rounded value of the Fraction, within `ulps`"""
    if not isinstance(real, float):
        return False
    c = fr.numerator / fr.denominator
    lo = hi = c
    for _ in range(ulps):
        lo = math.nextafter(lo, -math.inf)
        hi = math.nextafter(hi, math.inf)
    return lo <= real <= hi


# ------------------------------------------------------------------ trees

BINOPS = ('+', '-', '*', '/', '<', '<=', '>', '>=', '=', '!=')
DT_PROPS = ('utc', 'offset', 'timestamp', 'date', 'time', 'weekday', 'year', 'month', 'day', 'hour', 'minute',
            'second', 'microsecond')
TS_PROPS = ('days', 'hours', 'minutes', 'seconds', 'milliseconds', 'microseconds')
UNIT = dict(days=86400 * US, hours=3600 * US, minutes=60 * US, seconds=US, milliseconds=1000, microseconds=1)


def L_dt(w, o, fl='timezone', fold=0):
    return dict(k='dt', w=w, o=o, fl=fl if o is not None else 'naive', fold=fold)


def L_ts(us):
    return dict(k='ts', us=us)


def L_i(n, var=False):
    return dict(k='i', n=n, var=var)


def L_fl(x):
    return dict(k='fl', x=x)


def C(f, a=(), kw=()):
    return dict(k='call', f=f, a=list(a), kw=[list(p) for p in kw])


def to_model(n):
    k = n['k']
    if k == 'dt':
        return {'dt': [n['w'], n['o']]}
    if k == 'ts':
        return {'ts': n['us']}
    if k == 'i':
        return {'i': n['n']}
    if k == 'fl':
        fr = Fraction(n['x'])
        return {'q': [fr.numerator, fr.denominator]}
    return {'f': n['f'], 'a': [to_model(x) for x in n['a']], 'kw': [[p[0], to_model(p[1])] for p in n['kw']]}


def to_yaql(n, binds):
    k = n['k']
    if k in ('dt', 'ts', 'fl') or (k == 'i' and n.get('var')):
        name = '$v%d' % len(binds)
        binds[name] = (mk_dt(n['w'], n['o'], n['fl'], n['fold']) if k == 'dt' else
                       mk_ts(n['us']) if k == 'ts' else n['x'] if k == 'fl' else n['n'])
        return name
    if k == 'i':
        return str(n['n']) if n['n'] >= 0 else '(-%d)' % -n['n']
    f = n['f']
    a = [to_yaql(x, binds) for x in n['a']]
    kw = ['%s => %s' % (p[0], to_yaql(p[1], binds)) for p in n['kw']]
    if f in BINOPS:
        return '(%s %s %s)' % (a[0], f, a[1])
    if f == 'neg':
        return '(-%s)' % a[0]
    if f == 'pos':
        return '(+%s)' % a[0]
    if f in DT_PROPS or f in TS_PROPS:
        return '%s.%s' % (a[0], f)
    if f == 'replace':
        return '%s.replace(%s)' % (a[0], ', '.join(kw))
    return '%s(%s)' % (f, ', '.join(a + kw))


def size(n):
    if n['k'] != 'call':
        return 1
    return 1 + sum(size(x) for x in n['a']) + sum(size(p[1]) for p in n['kw'])


def real_eval(n):
    binds = {}
    text = to_yaql(n, binds)
    c = CTX.create_child_context()
    for k, v in binds.items():
        c[k] = v
    try:
        return canon(ENGINE(text).evaluate(context=c)), text
    except Exception as e:  # noqa
        return ['err', type(e).__name__], text


# ------------------------------------------------------------------ python's own arithmetic (oracle reference)

class Unsup(Exception):
    pass


class Q(Fraction):
    """exact quotient that remembers its unreduced operands"""
    def __new__(cls, n, d):
        self = super().__new__(cls, n, d)
        self.raw = (n, d)
        return self


def ref_tz(off):
    if off is None:
        off = 0
    if not -DAY < off < DAY:
        raise Unsup('offset outside (-24h, 24h)')
    return pdt.timezone(pdt.timedelta(microseconds=off))


def num_of(v):
    if isinstance(v, bool) or not isinstance(v, (int, float, Fraction)):
        raise Unsup('number expected')
    return v


def pyref(n):
    v = pyref1(n)
    if isinstance(v, pdt.datetime) and not 0 <= wall_of(v) - off_of(v) < MAXWALL:
        # a wall clock within year 1..9999 whose UTC instant is not: python computes with it, `.utc` and
        # `.timestamp` (and fromtimestamp) cannot represent it - left to the model correspondence
        raise Unsup('instant outside year 1..9999')
    return v


def pyref1(n):
    """value of the tree by Python's datetime/timedelta arithmetic on aware values (naive = UTC);
    float-valued results are exact Fractions.  Raises the python exception of the first failing step,
    Unsup for what is left to the model correspondence."""
    k = n['k']
    if k == 'dt':
        return (MIN + pdt.timedelta(microseconds=n['w'])).replace(tzinfo=ref_tz(n['o']))
    if k == 'ts':
        return mk_ts(n['us'])
    if k == 'i':
        return n['n']
    if k == 'fl':
        return n['x']
    f = n['f']
    a = [pyref(x) for x in n['a']]
    kw = [(p[0], pyref(p[1])) for p in n['kw']]
    isdt = [isinstance(x, pdt.datetime) for x in a]
    ists = [isinstance(x, pdt.timedelta) for x in a]
    if f in ('<', '<=', '>', '>=', '=', '!='):
        if not (all(isdt) or all(ists)):
            raise Unsup(f)
        x, y = a
        return {'<': x < y, '<=': x <= y, '>': x > y, '>=': x >= y, '=': x == y, '!=': x != y}[f]
    if f == '+':
        if isdt == [True, True] or not all(i or j for i, j in zip(isdt, ists)):
            raise Unsup(f)
        return a[0] + a[1]
    if f == '-':
        if not (ists[1] or (isdt[0] and isdt[1])) or not (isdt[0] or ists[0]):
            raise Unsup(f)
        return a[0] - a[1]
    if f == '/' and all(ists):
        return Q(us_of(a[0]), us_of(a[1]))
    if f in ('*', '/'):
        raise Unsup(f)
    if f == 'utctz':
        return mk_ts(0)
    if f == 'neg':
        return -a[0]
    if f == 'pos':
        return a[0]
    if f in TS_PROPS:
        if not ists[0]:
            raise Unsup(f)
        return us_of(a[0]) if f == 'microseconds' else Q(us_of(a[0]), UNIT[f])
    if f == 'timespan':
        names = ['days', 'hours', 'minutes', 'seconds', 'milliseconds', 'microseconds']
        args = dict(zip(names, a))
        args.update(kw)
        if any(isinstance(v, bool) or not isinstance(v, int) for v in args.values()):
            raise Unsup(f)
        return pdt.timedelta(**args)
    if f == 'datetime':
        if len(a) >= 2 and isinstance(a[1], int):
            names = ['year', 'month', 'day', 'hour', 'minute', 'second', 'microsecond', 'offset']
            args = dict(zip(names, a))
            args.update(kw)
            off = args.pop('offset', mk_ts(0))
            return pdt.datetime(tzinfo=ref_tz(us_of(off)), **args)
        s = num_of(a[0])
        off = a[1] if len(a) > 1 else dict(kw).get('offset', mk_ts(0))
        if isinstance(s, Fraction):
            us = rhe(s * US)
        elif isinstance(s, float):
            if not float_ts_exact(s):
                raise Unsup('float step')
            us = cpy_seconds_to_us(s)
        else:
            us = s * US
        if abs(us) > 10 ** 15 * US:
            raise OverflowError('out of range')
        return (EPOCH_UTC + pdt.timedelta(microseconds=us)).astimezone(ref_tz(us_of(off)))
    if not isdt or not isdt[0]:
        raise Unsup(f)
    d = a[0]
    if f == 'utc':
        return d.astimezone(pdt.timezone.utc)
    if f == 'offset':
        return d.utcoffset()
    if f == 'timestamp':
        return Q(us_of(d - EPOCH_UTC), US)
    if f == 'date':
        return d.replace(hour=0, minute=0, second=0, microsecond=0)
    if f == 'time':
        return d - d.replace(hour=0, minute=0, second=0, microsecond=0)
    if f == 'weekday':
        return d.weekday()
    if f in ('year', 'month', 'day', 'hour', 'minute', 'second', 'microsecond'):
        return getattr(d, f)
    if f == 'replace':
        args = dict(kw)
        if 'offset' in args:
            args['tzinfo'] = ref_tz(us_of(args.pop('offset')))
        return d.replace(**args)
    raise Unsup(f)


def ref_eval(n):
    if n['k'] != 'call':
        return None      # a bare value passes through no function
    try:
        v = pyref(n)
    except Unsup:
        return None
    except RecursionError:
        return None
    except Exception as e:  # noqa
        return ['err', type(e).__name__]
    if isinstance(v, Q):
        return ['q', Fraction(v), v.raw[0], v.raw[1]]
    if isinstance(v, Fraction):
        return ['q', v]
    return canon(v)


# ------------------------------------------------------------------ comparison of one tree

def model_value(m):
    if m is None:
        return None
    if 'dt' in m:
        return ['dt', m['dt'][0], m['dt'][1]]
    if 'ts' in m:
        return ['ts', m['ts']]
    if 'i' in m:
        return ['i', m['i']]
    if 'b' in m:
        return ['b', m['b']]
    if 'q' in m:
        return ['q', Fraction(m['q'][0], m['q'][1]), m['q'][0], m['q'][1]]
    if 'fb' in m:      # a double computed by the model (FloatRound.roundRat / divBits), IEEE bits
        return ['fb', struct.unpack('>d', struct.pack('>Q', int(m['fb'])))[0]]
    return ['err', m.get('err', '?')]


def same(real, other):
    """real canonical value against a model / reference value.  A float result against the exact rational:
    equal to the correctly rounded quotient (1 ulp allowed) while numerator and denominator are exactly
    representable; beyond 2^53 the code's float(int) conversions of the operands round first, which can move the
    quotient by up to 3 ulps (0.5 + 1 + 1 + 0.5)"""
    if other[0] == 'fb':     # model: every float step of the code is modelled exactly -> bit for bit
        if os.environ.get('VERIF_C20_NO_BITS'):     # development aid (dev_float_mutants.py): what the old tolerance saw
            return real[0] == 'fl' and close(real[1], Fraction(other[1]), 3)
        return real[0] == 'fl' and struct.pack('>d', real[1]) == struct.pack('>d', other[1])
    if other[0] == 'q':
        fr = other[1]
        big = len(other) < 4 or abs(other[2]) >= 2 ** 53 or abs(other[3]) >= 2 ** 53     # the unreduced operands
        return real[0] == 'fl' and close(real[1], fr, 3 if big else 1)
    return real == other


def judge(n, model):
    """-> (kind, key, message) or None"""
    real, text = real_eval(n)
    ref = ref_eval(n)
    if ref is not None:
        if ref[0] == 'err':
            if real[0] != 'err':
                return ('oracle', 'wrapped-out-of-range',
                        '%s: python arithmetic on the same values raises %s, yaql returned %r' % (text, ref[1], real))
        elif not same(real, ref):
            return ('oracle', 'instant-arithmetic',
                    '%s: yaql gives %s, python datetime arithmetic on the instants gives %s' % (
                        text, show(real), show(ref)))
    mv = model_value(model)
    if mv is not None and not same(real, mv):
        return ('mismatch', 'model-vs-code', '%s: real %s, model %s' % (text, show(real), show(mv)))
    return None


def show(c):
    if c[0] == 'dt':
        try:
            d = MIN + pdt.timedelta(microseconds=c[1])
            return 'datetime(%s, offset %s)' % (d.isoformat(), 'none' if c[2] is None else mk_ts(c[2]))
        except Exception:  # noqa
            return repr(c)
    if c[0] == 'ts':
        return 'timespan(%d us)' % c[1]
    if c[0] == 'fb':
        return '%r (bits %016x)' % (c[1], struct.unpack('>Q', struct.pack('>d', c[1]))[0])
    if c[0] == 'q':
        return '%r (= %s/%s)' % (c[1].numerator / c[1].denominator, c[1].numerator, c[1].denominator)
    return repr(c[1])


# ------------------------------------------------------------------ generators

OFF_FLAVOURS = ('timezone', 'tzoffset', 'custom')

INTERESTING_DATES = [
    (1, 1, 1), (1, 1, 2), (1, 12, 31), (2, 1, 1), (4, 2, 29), (100, 2, 28), (100, 3, 1), (400, 2, 29),
    (1582, 10, 4), (1582, 10, 15), (1600, 2, 29), (1700, 2, 28), (1899, 12, 31), (1900, 2, 28), (1900, 3, 1),
    (1969, 12, 31), (1970, 1, 1), (1970, 1, 2), (1999, 12, 31), (2000, 2, 28), (2000, 2, 29), (2000, 3, 1),
    (2000, 12, 31), (2001, 1, 1), (2019, 12, 31), (2020, 2, 29), (2020, 3, 1), (2038, 1, 19), (2100, 2, 28),
    (2100, 3, 1), (2400, 2, 29), (9999, 1, 1), (9999, 12, 30), (9999, 12, 31)]
INTERESTING_TOD = [0, 1, 999999, US, 12 * 3600 * US, DAY - US, DAY - 1, DAY - 2, 3600 * US - 1, 3600 * US]


def gen_wall(rng):
    r = rng.random()
    if r < 0.30:
        y, m, d = rng.choice(INTERESTING_DATES)
        days = pdt.date(y, m, d).toordinal() - 1
        tod = rng.choice(INTERESTING_TOD) if rng.random() < 0.6 else rng.randrange(DAY)
        return days * DAY + tod
    if r < 0.40:
        return rng.choice([0, 1, MAXWALL - 1, MAXWALL - 2, EPOCH, EPOCH - 1, EPOCH + 1, DAY, MAXWALL - DAY,
                           rng.randrange(0, 2 * DAY), MAXWALL - 1 - rng.randrange(0, 2 * DAY)])
    if r < 0.70:
        # the era the library is used in
        return EPOCH + rng.randrange(-70 * 365 * DAY, 130 * 365 * DAY)
    return rng.randrange(MAXWALL)


def gen_off(rng, allow_none=True):
    """an offset in (-24h, 24h): minute resolution mostly; None = naive"""
    r = rng.random()
    if allow_none and r < 0.22:
        return None
    if r < 0.40:
        return 0
    if r < 0.60:
        return rng.choice([60, -60, 3 * 3600, -3 * 3600, 5 * 3600 + 1800, 5 * 3600 + 2700, -8 * 3600, 14 * 3600,
                           -12 * 3600, 86340, -86340, 12 * 3600 + 2700]) * US
    if r < 0.93:
        return rng.randrange(-1439, 1440) * 60 * US
    if r < 0.97:
        return rng.randrange(-86399, 86400) * US           # second resolution (beyond the statement)
    return rng.randrange(-DAY + 1, DAY)                     # microsecond resolution (beyond the statement)


def gen_dt_leaf(rng, allow_none=True):
    w = gen_wall(rng)
    o = gen_off(rng, allow_none)
    if o is None:
        return L_dt(w, None, 'naive', rng.randrange(2))
    fl = rng.choice(OFF_FLAVOURS + (('tzutc',) if o == 0 else ()))
    return L_dt(w, o, fl, rng.randrange(2) if rng.random() < 0.2 else 0)


def gen_ts_components(rng):
    """signed integer components -> the timespan(...) call"""
    style = rng.random()
    comps = {}
    names = ['days', 'hours', 'minutes', 'seconds', 'milliseconds', 'microseconds']
    if style < 0.10:
        return C('timespan')
    k = rng.choice([1, 1, 2, 2, 3, 6])
    for nm in rng.sample(names, k):
        mag = rng.choice([1, 2, 24, 59, 60, 61, 999, 1000, 1001, 86399, 86400, 10 ** 6 - 1, 10 ** 6, 10 ** 6 + 1,
                          rng.randrange(0, 100), rng.randrange(0, 100000), rng.randrange(0, 10 ** 9)])
        if nm == 'days':
            mag = rng.choice([0, 1, 2, 365, 366, 146097, rng.randrange(0, 1000), rng.randrange(0, 3652059),
                              999999999, 999999998, 1000000000])
        comps[nm] = mag if rng.random() < 0.55 else -mag
    if rng.random() < 0.5:
        # positional prefix, the rest by keyword
        pos = []
        for nm in names:
            if nm in comps and rng.random() < 0.7:
                pos.append(L_i(comps.pop(nm), rng.random() < 0.2))
            else:
                break
        # positional arguments must be a prefix of the names: fill gaps is not possible, so stop at the first gap
        return C('timespan', pos, [(nm, L_i(v, rng.random() < 0.2)) for nm, v in comps.items()])
    return C('timespan', [], [(nm, L_i(v, rng.random() < 0.2)) for nm, v in comps.items()])


def gen_ts_value(rng):
    r = rng.random()
    if r < 0.25:
        return rng.choice([0, 1, -1, US, -US, DAY, -DAY, DAY - 1, 1 - DAY, 3600 * US, 60 * US, 999, 1000, -1000,
                           365 * DAY, 366 * DAY, 146097 * DAY, 36524 * DAY, -36524 * DAY])
    if r < 0.65:
        return rng.randrange(-400 * DAY, 400 * DAY)
    if r < 0.85:
        return rng.randrange(-MAXWALL, MAXWALL)
    if r < 0.93:
        return rng.choice([TS_MIN, TS_MAX, TS_MIN + 1, TS_MAX - 1, TS_MAX - DAY + 1, MAXWALL, -MAXWALL, MAXWALL - 1])
    return rng.randrange(TS_MIN, TS_MAX + 1)


def gen_ts_leaf(rng):
    if rng.random() < 0.45:
        return gen_ts_components(rng)
    return L_ts(gen_ts_value(rng))


def off_node(rng, o):
    """a timespan expression worth o microseconds"""
    if o == 0 and rng.random() < 0.3:
        return C('utctz')
    if rng.random() < 0.5 or o % US:
        return L_ts(o)
    s = o // US
    sign = 1 if s >= 0 else -1
    s = abs(s)
    kw = []
    if s // 3600:
        kw.append(('hours', L_i(sign * (s // 3600))))
    if s % 3600 // 60:
        kw.append(('minutes', L_i(sign * (s % 3600 // 60))))
    if s % 60:
        kw.append(('seconds', L_i(sign * (s % 60))))
    return C('timespan', [], kw)


def gen_dt_ctor(rng):
    """datetime(y, m, d, ...) from a wall clock, sometimes with an invalid / extreme field"""
    w = gen_wall(rng)
    d = MIN + pdt.timedelta(microseconds=w)
    vals = [d.year, d.month, d.day, d.hour, d.minute, d.second, d.microsecond]
    names = ['year', 'month', 'day', 'hour', 'minute', 'second', 'microsecond']
    if rng.random() < 0.18:
        i = rng.randrange(7)
        bad = [[0, 10000, -1, 2 ** 31, -2 ** 31 - 1, 2 ** 31 - 1], [0, 13, -1, 2 ** 40], [0, 32, 31, 30, 29, -1],
               [24, -1, 25], [60, -1], [60, 61, -1], [10 ** 6, -1, 2 ** 31]][i]
        vals[i] = rng.choice(bad)
    npos = rng.choice([3, 3, 4, 5, 6, 7, 7])
    a = [L_i(v, rng.random() < 0.1) for v in vals[:npos]]
    kw = []
    if rng.random() < 0.4:
        for nm, v in list(zip(names, vals))[npos:]:
            kw.append((nm, L_i(v)))
    else:
        a = a[:3] + [L_i(v) for v in vals[3:npos]]
    r = rng.random()
    if r < 0.7:
        o = gen_off(rng, allow_none=False)
        kw.append(('offset', off_node(rng, o)))
    elif r < 0.75:
        kw.append(('offset', L_ts(rng.choice([DAY, -DAY, DAY + 60 * US, 2 * DAY]))))   # not a legal utcoffset
    return C('datetime', a, kw)


def gen_timestamp(rng):
    r = rng.random()
    lo, hi = -62135596800, 253402300799
    if r < 0.12:
        return L_i(rng.choice([0, 1, -1, lo, hi, lo - 1, hi + 1, lo + 86400, hi - 86400, 2 ** 31 - 1, 2 ** 31, -2 ** 31,
                               10 ** 13, -10 ** 13, 1256953732]), rng.random() < 0.3)
    if r < 0.14:
        return L_i(rng.choice([7 * 10 ** 16, -7 * 10 ** 16, 10 ** 19, -10 ** 19, 67768036191676799, 67768036191676800,
                               -67768040609740800, -67768040609740801, 2 ** 63 - 1, 2 ** 63, -2 ** 63, -2 ** 63 - 1]), True)
    if r < 0.45:
        return L_i(rng.randrange(-10 ** 9, 4 * 10 ** 9), rng.random() < 0.3)
    if r < 0.60:
        return L_i(rng.randrange(lo - 10 ** 6, hi + 10 ** 6), rng.random() < 0.3)
    for _ in range(20):
        if r < 0.85:
            x = rng.randrange(-10 ** 9 * US, 4 * 10 ** 9 * US) / 1e6
        elif r < 0.93:
            x = rng.choice([0.5, -0.5, 1.5e-6, 2.5e-6, -1.5e-6, 0.0000005, 1e-7, -1e-7, 1000.5, 0.999999, 0.9999995,
                            -0.9999995, float(rng.randrange(-10 ** 9, 10 ** 9))])
        else:
            x = rng.uniform(lo - 1000, hi + 1000)
        if float_ts_exact(x):
            return L_fl(x)
    return L_i(0)


def gen_dt(rng, depth, hist):
    r = rng.random()
    if depth <= 0 or r < 0.30:
        r2 = rng.random()
        if r2 < 0.55:
            return gen_dt_leaf(rng)
        if r2 < 0.85:
            return gen_dt_ctor(rng)
        ts = gen_timestamp(rng)
        if rng.random() < 0.6:
            o = gen_off(rng, allow_none=False)
            if rng.random() < 0.5:
                return C('datetime', [ts, off_node(rng, o)])
            return C('datetime', [ts], [('offset', off_node(rng, o))])
        return C('datetime', [ts])
    if r < 0.45:
        return C('+', [gen_dt(rng, depth - 1, hist), gen_ts(rng, depth - 1, hist)])
    if r < 0.55:
        return C('+', [gen_ts(rng, depth - 1, hist), gen_dt(rng, depth - 1, hist)])
    if r < 0.70:
        return C('-', [gen_dt(rng, depth - 1, hist), gen_ts(rng, depth - 1, hist)])
    if r < 0.82:
        return C('utc', [gen_dt(rng, depth - 1, hist)])
    if r < 0.88:
        return C('date', [gen_dt(rng, depth - 1, hist)])
    # replace
    kw = []
    for nm, pool in (('year', [1, 2000, 2001, 9999, 0, 10000, 1970]), ('month', [1, 2, 12, 13, 0]),
                     ('day', [1, 28, 29, 30, 31, 0, 32]), ('hour', [0, 23, 24]), ('minute', [0, 59, 60]),
                     ('second', [0, 59, 60]), ('microsecond', [0, 999999, 1000000])):
        if rng.random() < 0.25:
            kw.append((nm, L_i(rng.choice(pool))))
    if rng.random() < 0.5:
        kw.append(('offset', off_node(rng, gen_off(rng, allow_none=False))))
    rng.shuffle(kw)
    return C('replace', [gen_dt(rng, depth - 1, hist)], kw)


MODEL_ASK = [None]      # set by run(): asks the driver for a list of trees


def ref_us(n):
    """microseconds of a timespan subtree (python arithmetic, else the model), None if it has no value"""
    r = ref_eval(n) if n['k'] == 'call' else (['ts', n['us']] if n['k'] == 'ts' else None)
    if r is None and MODEL_ASK[0] is not None:
        r = model_value(MODEL_ASK[0]([n])[0])
    return r[1] if r and r[0] == 'ts' else None


def float_step_inexact(fl, exact):
    """the platform's float result, rounded to microseconds, differs from the exactly computed one (counted only: the
    model performs the float steps itself)"""
    try:
        return rhe(Fraction(fl())) != rhe(exact())
    except (OverflowError, ValueError, ZeroDivisionError):
        return True


def gen_ts(rng, depth, hist):
    r = rng.random()
    if depth <= 0 or r < 0.35:
        return gen_ts_leaf(rng)
    if r < 0.50:
        return C('-', [gen_dt(rng, depth - 1, hist), gen_dt(rng, depth - 1, hist)])
    if r < 0.60:
        return C(rng.choice('+-'), [gen_ts(rng, depth - 1, hist), gen_ts(rng, depth - 1, hist)])
    if r < 0.66:
        return C(rng.choice(['neg', 'pos']), [gen_ts(rng, depth - 1, hist)])
    if r < 0.74:
        return C('offset', [gen_dt(rng, depth - 1, hist)])
    if r < 0.80:
        return C('time', [gen_dt(rng, depth - 1, hist)])
    t = gen_ts(rng, depth - 1, hist)
    us = ref_us(t)
    if r < 0.90:
        # ts * n, n * ts: an int factor is exact; a float factor is float(us) * x (one IEEE multiplication), then
        # timedelta(microseconds=<float>) - every step is in the model (tsMulNumF), so any float may be fed
        if rng.random() < 0.5:
            n = L_i(rng.choice([0, 1, -1, 2, 3, 7, -5, 1000, 10 ** 6, rng.randrange(-100, 100)]), rng.random() < 0.2)
        else:
            x = rng.choice([0.5, 1.5, -0.5, 0.25, 2.5, 1e-3, 0.1, 1 / 3, rng.uniform(-4, 4), 1e6, 1e-6, 0.0, -0.0, 1e-300,
                            2.0 ** -1074, 1e300, -1e300, 0.1 + rng.random() * 1e-9])
            n = L_fl(x)
            if us is not None and float_step_inexact(lambda: float(us) * x, lambda: Fraction(us) * Fraction(x)):
                hist['float-step-inexact'] = hist.get('float-step-inexact', 0) + 1
        return C('*', [t, n] if rng.random() < 0.5 else [n, t])
    # ts / n: int / int is one correctly rounded division, int / float is float(us) then one IEEE division (tsDivNumF)
    x = rng.choice([1, 2, 3, -2, 7, 1000, 10 ** 6, 0, rng.randrange(-50, 50), 0.5, 1.5, -0.25, 0.0, 1e3, 1e-300, 3e-9,
                    rng.uniform(-4, 4), 1 / 3, 10 ** 20 + 1])
    if us is not None and x != 0 and float_step_inexact(lambda: us / x, lambda: Fraction(us) / Fraction(x)):
        hist['float-step-inexact'] = hist.get('float-step-inexact', 0) + 1
    return C('/', [t, L_fl(x) if isinstance(x, float) else L_i(x, rng.random() < 0.2)])


def gen_top(rng, hist):
    """an observation: a datetime / timespan value, one of its properties, or a comparison"""
    depth = rng.choice([0, 1, 1, 2, 2, 3])
    r = rng.random()
    if r < 0.22:
        return gen_dt(rng, depth, hist)
    if r < 0.36:
        return gen_ts(rng, depth, hist)
    if r < 0.56:
        return C(rng.choice(DT_PROPS), [gen_dt(rng, depth, hist)])
    if r < 0.68:
        return C(rng.choice(TS_PROPS), [gen_ts(rng, depth, hist)])
    if r < 0.88:
        op = rng.choice(['<', '<=', '>', '>=', '=', '!='])
        a = gen_dt(rng, max(depth - 1, 0), hist)
        if rng.random() < 0.45:
            # the same instant at another offset, or one microsecond apart
            ra = ref_eval(a)
            if ra and ra[0] == 'dt':
                o2 = gen_off(rng)
                inst = ra[1] - (ra[2] or 0) + rng.choice([0, 0, 0, 1, -1])
                w2 = inst + (o2 or 0)
                if 0 <= w2 < MAXWALL:
                    b = L_dt(w2, o2, rng.choice(OFF_FLAVOURS) if o2 is not None else 'naive', 0)
                    return C(op, [a, b] if rng.random() < 0.5 else [b, a])
        return C(op, [a, gen_dt(rng, max(depth - 1, 0), hist)])
    if r < 0.94:
        op = rng.choice(['<', '<=', '>', '>=', '=', '!='])
        a = gen_ts(rng, max(depth - 1, 0), hist)
        us = ref_us(a)
        if us is not None and TS_MIN <= us <= TS_MAX and rng.random() < 0.4:
            return C(op, [a, L_ts(max(TS_MIN, min(TS_MAX, us + rng.choice([0, 0, 1, -1]))))])
        return C(op, [a, gen_ts(rng, max(depth - 1, 0), hist)])
    return C('/', [gen_ts(rng, depth, hist), gen_ts(rng, max(depth - 1, 0), hist)])


def walk(n):
    yield n
    if n['k'] == 'call':
        for x in n['a']:
            yield from walk(x)
        for p in n['kw']:
            yield from walk(p[1])


def tally(n, hist):
    for x in walk(n):
        if x['k'] == 'call':
            key = 'f:' + x['f']
            if x['f'] == 'datetime':
                key = 'f:datetime/' + ('components' if len(x['a']) >= 2 else 'timestamp')
        elif x['k'] == 'dt':
            key = 'leaf:dt/' + x['fl'] + ('/fold' if x['fold'] else '')
            y = (MIN + pdt.timedelta(microseconds=x['w'])).year
            b = 'year:' + ('1' if y == 1 else '9999' if y == 9999 else '2-1899' if y < 1900 else
                           '1900-2100' if y <= 2100 else '2101-9998')
            hist[b] = hist.get(b, 0) + 1
            o = x['o']
            ob = 'off:' + ('naive' if o is None else 'zero' if o == 0 else 'minutes' if o % (60 * US) == 0 else
                           'seconds' if o % US == 0 else 'microseconds')
            hist[ob] = hist.get(ob, 0) + 1
        elif x['k'] == 'ts':
            key = 'leaf:ts'
        else:
            key = 'leaf:' + x['k'] + ('/var' if x.get('var') else '')
        hist[key] = hist.get(key, 0) + 1


# ------------------------------------------------------------------ shrinking

def subtrees(n):
    if n['k'] != 'call':
        return
    for x in n['a']:
        yield x
    for p in n['kw']:
        yield p[1]


def replace_child(n, idx, new):
    m = dict(n, a=list(n['a']), kw=[list(p) for p in n['kw']])
    if idx < len(m['a']):
        m['a'][idx] = new
    else:
        m['kw'][idx - len(m['a'])][1] = new
    return m


def leaf_of(c):
    if c is None:
        return None
    if c[0] == 'dt' and c[2] is not None and not -DAY < c[2] < DAY:
        return None
    if c[0] == 'dt':
        return L_dt(c[1], c[2], 'timezone' if c[2] is not None else 'naive', 0)
    if c[0] == 'ts':
        return L_ts(c[1])
    if c[0] == 'i':
        return L_i(c[1])
    return None


def shrink(n, fails, budget=200):
    """smaller tree with the same kind of failure: descend into failing subtrees, replace call children by
    the literal value the real code gives them"""
    changed = True
    while changed and budget > 0:
        changed = False
        for s in subtrees(n):
            if s['k'] == 'call':
                budget -= 1
                if fails(s):
                    n = s
                    changed = True
                    break
        if changed:
            continue
        kids = list(subtrees(n))
        for i, s in enumerate(kids):
            if s['k'] != 'call':
                continue
            lf = leaf_of(real_eval(s)[0])
            if lf is None:
                continue
            cand = replace_child(n, i, lf)
            budget -= 1
            if fails(cand):
                n = cand
                changed = True
                break
    return n


# ------------------------------------------------------------------ the laws of the statement, on the real code alone

def ev(text, **binds):
    c = CTX.create_child_context()
    for k, v in binds.items():
        c['$' + k] = v
    try:
        return canon(ENGINE(text).evaluate(context=c))
    except Exception as e:  # noqa
        return ['err', type(e).__name__]


def inst(d):
    """instant of an input leaf, microseconds since 0001-01-01T00:00 UTC; naive = UTC"""
    return d['w'] - (d['o'] or 0)


def host(d):
    return mk_dt(d['w'], d['o'], d['fl'], d['fold'])


def aware(d):
    return ['dt', d['w'], d['o'] or 0]


def show_in(d):
    """an input leaf as the host object it is"""
    iso = (MIN + pdt.timedelta(microseconds=d['w'])).isoformat()
    if d['o'] is None:
        return 'host datetime(%s) without zone%s' % (iso, ', fold=1' if d['fold'] else '')
    return 'host datetime(%s, %s offset %s%s)' % (iso, d['fl'], mk_ts(d['o']), ', fold=1' if d['fold'] else '')


def law_roundtrip_s(case):
    """datetime(s, o).timestamp = s"""
    s, o = case['s'], case['o']
    us = cpy_seconds_to_us(s)
    r = ev('datetime($s, $o).timestamp', s=s, o=mk_ts(o))
    u = EPOCH + us
    if not (0 <= u < MAXWALL and 0 <= u + o < MAXWALL):
        if r[0] != 'err':
            return 'datetime(%r, %s).timestamp: the instant or its wall clock is outside year 1..9999 but %r came back' % (
                s, mk_ts(o), r)
        return None
    if r[0] != 'fl' or not close(r[1], Fraction(us, US)):
        return 'datetime(%r, timespan %s).timestamp = %r, expected %r' % (s, mk_ts(o), r[1], us / US)
    r2 = ev('datetime($s, $o)', s=s, o=mk_ts(o))
    if r2 != ['dt', u + o, o]:
        return 'datetime(%r, timespan %s) = %s, expected instant %d us at that offset' % (s, mk_ts(o), show(r2), u)
    return None


def law_roundtrip_d(case):
    """datetime(d.timestamp, d.offset) = d"""
    d = case['d']
    i = inst(d)
    r = ev('datetime($d.timestamp, $d.offset)', d=host(d))
    if not 0 <= i < MAXWALL:
        return None if r[0] == 'err' else 'instant of %s out of range but round trip gave %r' % (show_in(d), r)
    ts = (i - EPOCH) / US
    tol = 0 if abs(ts) < 2 ** 32 else int(math.ulp(ts) * US) + 1
    if r[0] == 'err' and tol and not (tol <= i < MAXWALL - tol and tol <= d['w'] < MAXWALL - tol):
        return None     # rounding may push a boundary value out of range
    if r[0] != 'dt' or r[2] != (d['o'] or 0) or abs(r[1] - d['w']) > tol:
        return 'datetime(d.timestamp, d.offset) for d = %s gives %s (tolerance %d us)' % (show_in(d), show(r), tol)
    if tol == 0:
        e = ev('datetime($d.timestamp, $d.offset) = $d', d=host(d))
        if e != ['b', True]:
            return 'datetime(d.timestamp, d.offset) = d is %r for d = %s' % (e, show_in(d))
    return None


def law_utc(case):
    """d.utc is the same instant at offset zero"""
    d = case['d']
    i = inst(d)
    r = ev('$d.utc', d=host(d))
    if not 0 <= i < MAXWALL:
        return None if r[0] == 'err' else 'instant of %s is outside year 1..9999 but .utc gave %s' % (
            show_in(d), show(r))
    if r != ['dt', i, 0]:
        return '%s .utc = %s, expected the instant %s at offset zero' % (show_in(d), show(r), show(['dt', i, 0]))
    for text, want in (('$d.utc = $d', ['b', True]), ('$d.utc != $d', ['b', False]), ('$d.utc.offset', ['ts', 0]),
                       ('$d.utc - $d', ['ts', 0]), ('$d.utc <= $d and $d.utc >= $d', ['b', True])):
        g = ev(text, d=host(d))
        if g != want:
            return '%s is %s for d = %s' % (text, show(g), show_in(d))
    return None


def law_add_sub(case):
    """(d + t) - t = d, (d + t) - d = t, d2 - (d2 - d1) = d1"""
    d, t, d2 = case['d'], case['t'], case['d2']
    w = d['w'] + t
    if 0 <= w < MAXWALL:
        for text in ('($d + $t) - $t', '($t + $d) - $t'):
            r = ev(text, d=host(d), t=mk_ts(t))
            if r != aware(d):
                return '%s = %s for d = %s, t = %d us' % (text, show(r), show_in(d), t)
        r = ev('($d + $t) - $d', d=host(d), t=mk_ts(t))
        if r != ['ts', t]:
            return '(d + t) - d = %s for d = %s, t = %d us' % (show(r), show_in(d), t)
        r = ev('($d + $t) - $t = $d', d=host(d), t=mk_ts(t))
        if r != ['b', True]:
            return '(d + t) - t = d is %r for d = %s, t = %d us' % (r, show_in(d), t)
        r = ev('($d - $t) + $t', d=host(d), t=mk_ts(t))
        if 0 <= d['w'] - t < MAXWALL and r != aware(d):
            return '(d - t) + t = %s for d = %s, t = %d us' % (show(r), show_in(d), t)
    else:
        r = ev('$d + $t', d=host(d), t=mk_ts(t))
        if r[0] != 'err':
            return 'd + t leaves year 1..9999 but gave %s for d = %s, t = %d us' % (show(r), show_in(d), t)
    r = ev('$b - ($b - $a)', a=host(d), b=host(d2))
    w = d2['w'] - (inst(d2) - inst(d))
    if 0 <= w < MAXWALL:
        if r != ['dt', w, d2['o'] or 0]:
            return 'd2 - (d2 - d1) = %s for d1 = %s, d2 = %s' % (show(r), show_in(d), show_in(d2))
        r = ev('$b - ($b - $a) = $a', a=host(d), b=host(d2))
        if r != ['b', True]:
            return 'd2 - (d2 - d1) = d1 is %r for d1 = %s, d2 = %s' % (r, show_in(d), show_in(d2))
    elif r[0] != 'err':
        return 'd2 - (d2 - d1) leaves year 1..9999 but gave %s' % show(r)
    r = ev('$b - $a', a=host(d), b=host(d2))
    if r != ['ts', inst(d2) - inst(d)]:
        return 'd2 - d1 = %s, the instants differ by %d us (d1 = %s, d2 = %s)' % (
            show(r), inst(d2) - inst(d), show_in(d), show_in(d2))
    return None


def law_compare(case):
    """equality and ordering compare instants"""
    a, b = case['d'], case['d2']
    ia, ib = inst(a), inst(b)
    want = {'=': ia == ib, '!=': ia != ib, '<': ia < ib, '<=': ia <= ib, '>': ia > ib, '>=': ia >= ib}
    for op, w in want.items():
        r = ev('$a %s $b' % op, a=host(a), b=host(b))
        if r != ['b', w]:
            return 'a %s b is %r, the instants say %r (a = %s, b = %s)' % (op, r[1], w, show_in(a), show_in(b))
    return None


def law_units(case):
    """the unit properties are one quantity; timespan(microseconds => x.microseconds) = x"""
    x = case['t']
    t = mk_ts(x)
    vals = {}
    for u, k in UNIT.items():
        r = ev('$x.' + u, x=t)
        if u == 'microseconds':
            if r != ['i', x]:
                return 'x.microseconds = %r for a timespan of %d us' % (r[1], x)
            continue
        if r[0] != 'fl' or not close(r[1], Fraction(x, k), 1 if abs(x) < 2 ** 53 else 3):
            return 'x.%s = %r for a timespan of %d us, expected %r' % (u, r[1], x, x / k)
        vals[u] = r[1]
    for big, small, f in (('days', 'hours', 24), ('hours', 'minutes', 60), ('minutes', 'seconds', 60),
                          ('seconds', 'milliseconds', 1000)):
        r = ev('$x.%s * %d' % (big, f), x=t)
        if r[0] != 'fl' or abs(r[1] - vals[small]) > 8 * math.ulp(vals[small]):
            return 'x.%s * %d = %r but x.%s = %r (timespan of %d us)' % (big, f, r[1], small, vals[small], x)
    r = ev('$x.milliseconds * 1000', x=t)
    if r[0] != 'fl' or abs(r[1] - x) > 8 * math.ulp(float(x)):
        return 'x.milliseconds * 1000 = %r but x.microseconds = %d' % (r[1], x)
    r = ev('timespan(microseconds => $x.microseconds)', x=t)
    if r != ['ts', x]:
        return 'timespan(microseconds => x.microseconds) = %s for x of %d us' % (show(r), x)
    r = ev('timespan(microseconds => $x.microseconds) = $x', x=t)
    if r != ['b', True]:
        return 'timespan(microseconds => x.microseconds) = x is %r for x of %d us' % (r, x)
    return None


NAIVE_EXPRS = ['$d.utc', '$d.timestamp', '$d.offset', '$d.date', '$d.time', '$d.weekday', '$d.year', '$d.month',
               '$d.day', '$d.hour', '$d.minute', '$d.second', '$d.microsecond', '$d + $t', '$t + $d', '$d - $t',
               '$d - $e', '$e - $d', '$d = $e', '$e = $d', '$d != $e', '$e != $d', '$d < $e', '$e < $d', '$d <= $e',
               '$e <= $d', '$d > $e', '$e > $d', '$d >= $e', '$e >= $d', '$d.replace(hour => 1)',
               '$d.replace(offset => $o)', '$d.replace(offset => $o).utc', '$d.utc.offset',
               'datetime($d.timestamp) = $d', '[$d.utc, $d.date, $d + $t].select($.offset)']


def law_naive(case):
    """a host datetime without zone is taken as UTC: the same result as the same wall clock tagged UTC"""
    d, e, t, o = case['d'], case['d2'], case['t'], case['o']
    nv = mk_dt(d['w'], None, 'naive', d['fold'])
    for flavour in ('tzutc', 'timezone'):
        tagged = mk_dt(d['w'], 0, flavour, d['fold'])
        for text in NAIVE_EXPRS:
            c1 = CTX.create_child_context()
            c2 = CTX.create_child_context()
            for c, dv in ((c1, nv), (c2, tagged)):
                c['$d'] = dv
                c['$e'] = host(e)
                c['$t'] = mk_ts(t)
                c['$o'] = mk_ts(o)
            rs = []
            for c in (c1, c2):
                try:
                    v = ENGINE(text).evaluate(context=c)
                    rs.append(canon(v) if isinstance(v, (pdt.datetime, pdt.timedelta, int, float)) else
                              ['list', [canon(x) for x in v]])
                except Exception as ex:  # noqa
                    rs.append(['err', type(ex).__name__])
            if rs[0] != rs[1]:
                return '%s with d = %s without zone gives %s, tagged UTC (%s) gives %s (e = %s, t = %d us)' % (
                    text, (MIN + pdt.timedelta(microseconds=d['w'])).isoformat(), rs[0], flavour, rs[1],
                    show_in(e), t)
    return None


LAWS = dict(roundtrip_s=law_roundtrip_s, roundtrip_d=law_roundtrip_d, utc=law_utc, add_sub=law_add_sub,
            compare=law_compare, units=law_units, naive=law_naive)
LAW_KEY = dict(roundtrip_s='timestamp-roundtrip', roundtrip_d='timestamp-roundtrip', utc='utc-instant',
               add_sub='add-sub', compare='compare-instants', units='units', naive='naive-not-utc')


def gen_law_case(rng, law):
    case = dict(law=law)
    if law == 'roundtrip_s':
        n = gen_timestamp(rng)
        case['s'] = n['n'] if n['k'] == 'i' else n['x']
        case['o'] = gen_off(rng, allow_none=False)
        if abs(case['s']) > 10 ** 12:
            case['s'] = 0
        return case
    if law == 'units':
        case['t'] = us_or(rng)
        return case
    case['d'] = gen_dt_leaf(rng)
    case['d2'] = gen_dt_leaf(rng)
    if rng.random() < 0.5:
        # same or neighbouring instant at another offset
        o2 = gen_off(rng)
        w2 = inst(case['d']) + rng.choice([0, 0, 1, -1]) + (o2 or 0)
        if 0 <= w2 < MAXWALL:
            case['d2'] = L_dt(w2, o2, rng.choice(OFF_FLAVOURS) if o2 is not None else 'naive', 0)
    case['t'] = gen_ts_value(rng)
    case['o'] = gen_off(rng, allow_none=False)
    return case


def us_or(rng):
    r = ref_us(gen_ts_leaf(rng))
    return r if r is not None and TS_MIN <= r <= TS_MAX else gen_ts_value(rng)


def shrink_law(case, fn):
    """simplify the inputs of a failing law instance (wall clocks to midnight / the epoch, offsets to hours)"""
    def fails(c):
        try:
            return fn(c) is not None
        except Exception:  # noqa
            return False
    MID = EPOCH + 50 * 365 * DAY       # 2019-12-20, an unremarkable day
    steps = [lambda d: dict(d, fold=0),
             lambda d: dict(d, fl='timezone') if d['o'] is not None else d,
             lambda d: dict(d, o=(d['o'] // (3600 * US)) * 3600 * US) if d['o'] else d,
             lambda d: dict(d, w=MID + d['w'] % DAY),
             lambda d: dict(d, w=d['w'] - d['w'] % (3600 * US)),
             lambda d: dict(d, w=d['w'] - d['w'] % DAY)]
    for key in ('d', 'd2'):
        for step in steps:
            if key in case:
                cand = step(case[key])
                if cand != case[key] and 0 <= cand['w'] < MAXWALL and fails(dict(case, **{key: cand})):
                    case = dict(case, **{key: cand})
    for key, cands in (('t', [0, DAY, 3600 * US, US, 1]), ('o', [3600 * US, 0]), ('s', [0, 1000, 1000.5])):
        if key in case:
            for v in cands:
                c2 = dict(case, **{key: v})
                if v != case[key] and fails(c2):
                    case = c2
                    break
    return case


# ------------------------------------------------------------------ histories: ONE expression node, many operand kinds

HIST_OPS2 = ('=', '!=', '<', '<=', '>', '>=', '+', '-')
HIST_OPS1 = ('utc', 'offset', 'timestamp')
HIST_STRS = ('', 'a', 'ab', 'b', 'A', 'z\u00e9', '2021-03-04')


def H_null():
    return dict(k='null')


def H_str(x):
    return dict(k='s', s=x)


def gen_hist_scalar(rng, kind):
    if kind == 'null':
        return H_null()
    if kind == 'i':
        return L_i(rng.choice([0, 1, -1, 2, 7, 10 ** 6, rng.randrange(-50, 50), rng.randrange(-10 ** 18, 10 ** 18)]), var=True)
    if kind == 's':
        return H_str(rng.choice(HIST_STRS))
    if kind == 'ts':
        return L_ts(gen_ts_value(rng))
    return gen_dt_leaf(rng)


def gen_dt_pair(rng):
    """two datetimes: 70 % the same or a neighbouring instant written at another offset, at least one side often
    WITHOUT zone (a host value)"""
    a = gen_dt_leaf(rng)
    if rng.random() < 0.5:
        a = L_dt(a['w'], None, 'naive', 0)
    b = gen_dt_leaf(rng)
    if rng.random() < 0.7:
        o2 = gen_off(rng, allow_none=a['o'] is not None and rng.random() < 0.5)
        w2 = inst(a) + rng.choice([0, 0, 0, 1, -1]) + (o2 or 0)
        if 0 <= w2 < MAXWALL:
            b = L_dt(w2, o2, rng.choice(OFF_FLAVOURS) if o2 is not None else 'naive', 0)
    return [a, b] if rng.random() < 0.5 else [b, a]


def gen_history(rng, op, form):
    """operand tuples for ONE node: kinds change along the history (null, int, string, timespan, datetime
    without / with zone); datetimes come as equal instants at different offsets"""
    n = rng.choice([2, 2, 3, 3, 4, 5, 6])
    rows = []
    if op in HIST_OPS1:
        for _ in range(n):
            rows.append([gen_dt_leaf(rng)])
        return rows
    ref = None
    for _ in range(n):
        r = rng.random()
        if r < 0.45:
            pair = gen_dt_pair(rng)
        elif r < 0.75:
            k = rng.choice(['null', 'i', 's', 'ts', 'ts'])
            pair = [gen_hist_scalar(rng, k), gen_hist_scalar(rng, k)]
            if rng.random() < 0.4:
                pair[1] = dict(pair[0])
        elif r < 0.88 and op in ('+', '-'):
            pair = [gen_dt_leaf(rng), L_ts(rng.randrange(-400 * DAY, 400 * DAY))]
            if rng.random() < 0.3:
                pair.reverse()
        else:
            pair = [gen_hist_scalar(rng, rng.choice(['null', 'i', 's', 'ts', 'dt'])),
                    gen_hist_scalar(rng, rng.choice(['null', 'i', 's', 'ts', 'dt']))]
        if form == 'ref':
            # `$rows.select($ op $ref)`: one right-hand operand for the whole column
            if ref is None:
                ref = gen_dt_leaf(rng) if rng.random() < 0.8 else pair[1]
            if pair[0]['k'] == 'dt' and ref['k'] == 'dt' and rng.random() < 0.7:
                o2 = gen_off(rng)
                w2 = inst(ref) + rng.choice([0, 0, 1, -1]) + (o2 or 0)
                if 0 <= w2 < MAXWALL:
                    pair[0] = L_dt(w2, o2, rng.choice(OFF_FLAVOURS) if o2 is not None else 'naive', 0)
            pair[1] = ref
        rows.append(pair)
    return rows


def hist_value(leaf):
    k = leaf['k']
    if k == 'null':
        return None
    if k == 's':
        return leaf['s']
    if k == 'i':
        return leaf['n']
    if k == 'ts':
        return mk_ts(leaf['us'])
    return mk_dt(leaf['w'], leaf['o'], leaf['fl'], leaf['fold'])


def hist_model_operand(leaf):
    k = leaf['k']
    if k == 'null':
        return None
    if k == 's':
        return {'s': [ord(c) for c in leaf['s']]}
    if k == 'i':
        return {'i': leaf['n']}
    if k == 'ts':
        return {'ts': leaf['us']}
    return {'dt': [leaf['w'], leaf['o']]}


def hist_show(leaf):
    k = leaf['k']
    if k == 'dt':
        return show_in(leaf)
    if k == 'ts':
        return 'timespan(%d us)' % leaf['us']
    return repr(hist_value(leaf))


def hist_canon(v):
    if v is None:
        return ['null']
    if isinstance(v, str):
        return ['s', v]
    return canon(v)


def hist_outcome(fn):
    try:
        return fn()
    except Exception as e:  # noqa
        n = type(e).__name__
        return ['err', 'NoMatching' if n.startswith('NoMatching') else n]


def hist_text(op, form):
    if op in HIST_OPS1:
        return '$a.%s' % op if form == 'stmt' else '$rows.select($[0].%s)' % op
    if form == 'stmt':
        return '$a %s $b' % op
    if form == 'rows':
        return '$rows.select($[0] %s $[1])' % op
    return '$rows.select($ %s $ref)' % op


def hist_alone(op, row):
    """the operand tuple evaluated ALONE: a freshly parsed statement that has never seen anything else"""
    c = CTX.create_child_context()
    c['a'] = hist_value(row[0])
    if len(row) > 1:
        c['b'] = hist_value(row[1])
    text = hist_text(op, 'stmt')
    return hist_outcome(lambda: hist_canon(ENGINE(text).evaluate(context=c)))


def hist_real(op, form, rows):
    """results of ONE parsed statement over the history -> list of canonical results (one per tuple)"""
    text = hist_text(op, form)
    stmt = ENGINE(text)
    if form == 'stmt':
        out = []
        for row in rows:
            c = CTX.create_child_context()
            c['a'] = hist_value(row[0])
            if len(row) > 1:
                c['b'] = hist_value(row[1])
            out.append(hist_outcome(lambda: hist_canon(stmt.evaluate(context=c))))
        return out
    c = CTX.create_child_context()
    if form == 'ref':
        c['rows'] = tuple(hist_value(r[0]) for r in rows)
        c['ref'] = hist_value(rows[0][1])
    else:
        c['rows'] = tuple(tuple(hist_value(x) for x in r) for r in rows)
    r = hist_outcome(lambda: [hist_canon(x) for x in stmt.evaluate(context=c)])
    if r and r[0] == 'err' and isinstance(r[1], str):
        return [r] * len(rows)          # the whole select raised
    return r


def hist_model_value(m):
    if m is not None and 's' in m:
        return ['s', ''.join(chr(c) for c in m['s'])]
    return model_value(m)


def hist_law(op, row):
    """what the statement says about this tuple alone (both datetimes, comparison): the instants decide"""
    if op in ('=', '!=', '<', '<=', '>', '>=') and len(row) == 2 and row[0]['k'] == 'dt' and row[1]['k'] == 'dt':
        ia, ib = inst(row[0]), inst(row[1])
        return ['b', {'=': ia == ib, '!=': ia != ib, '<': ia < ib, '<=': ia <= ib, '>': ia > ib, '>=': ia >= ib}[op]]
    return None


def judge_history(case, ask_hist):
    """-> (kind, key, message) or None"""
    op, form, rows = case['op'], case['form'], case['rows']
    alone = [hist_alone(op, r) for r in rows]
    if form != 'stmt':
        # an error in one row aborts the whole select: keep the rows that evaluate alone
        keep = [i for i, a in enumerate(alone) if a[0] != 'err']
        rows = [rows[i] for i in keep]
        alone = [alone[i] for i in keep]
        if not rows:
            return None
    real = hist_real(op, form, rows)
    text = hist_text(op, form)

    def tell(i):
        ops = ', '.join('%s = %s' % (n, hist_show(x)) for n, x in zip('ab', rows[i]))
        before = '; '.join('(' + ', '.join(hist_show(x) for x in r) + ')' for r in rows[:i]) or 'nothing'
        return ops, before
    if len(real) != len(rows):
        return ('oracle', 'history-dependent', '%s over %d rows returned %r' % (text, len(rows), real))
    for i, (r, a) in enumerate(zip(real, alone)):
        law = hist_law(op, rows[i])
        ops, before = tell(i)
        if law is not None and r != law and r[0] != 'err':
            return ('oracle', 'compare-instants',
                    'equality and ordering compare instants: the parsed statement %s, evaluated before with %s, gives %r for '
                    '%s; the instants say %r' % (text, before, r[1], ops, law[1]))
        if not same_hist(r, a):
            return ('oracle', 'history-dependent',
                    'the parsed statement %s, evaluated before with %s, gives %s for %s; a freshly parsed statement gives %s '
                    'for the same operands' % (text, before, show(r) if r[0] != 'err' else r, ops, show(a) if a[0] != 'err' else a))
    if ask_hist is not None:
        model = ask_hist(op, rows)
        for i, (r, m) in enumerate(zip(real, model)):
            mv = hist_model_value(m)
            if mv is not None and not (same(r, mv) if r[0] != 'err' else r == mv):
                ops, before = tell(i)
                return ('mismatch', 'model-vs-code', '%s, history position %d (%s; before: %s): real %r, model %r' % (
                    text, i, ops, before, r, mv))
    return None


def same_hist(r, a):
    if r[0] == 'fl' and a[0] == 'fl':
        return struct.pack('>d', r[1]) == struct.pack('>d', a[1])
    return r == a


def shrink_history(case, fails):
    rows = case['rows']
    changed = True
    while changed and len(rows) > 1:
        changed = False
        for i in range(len(rows)):
            cand = dict(case, rows=rows[:i] + rows[i + 1:])
            if fails(cand):
                case, rows, changed = cand, cand['rows'], True
                break
    return case


# ------------------------------------------------------------------ run

def run(env, res):
    drv = env['driver']
    tier = env['tier']
    rng = common.make_rng(env['seed'], 'C20')
    hist = {}
    res.rule = ('random typed expression trees (depth <= 3) over datetime/timespan/number values: host objects '
                '(naive, tzutc, tzoffset, datetime.timezone, a custom fixed tzinfo; fold 0/1) and datetime(...)/'
                'timespan(...) constructors, wall clocks over years 1..9999 biased to boundaries, leap days and '
                'microsecond extremes, offsets in (-24h, 24h) by minutes (some by seconds/microseconds), signed '
                'component timespans up to +-999999999 days, int/float timestamps; plus instances of each law of '
                'the statement on leaf inputs; plus histories of one parsed statement / one lambda body over operand tuples of '
                'changing kinds (null, int, string, timespan, zoneless and aware datetimes for equal instants) per operator and '
                'property.  distinct = distinct tree / law input / history; non-trivial = the tree has an '
                'operator or property applied to a value with a non-zero offset or no zone, or the law instance has one')

    def ask(trees):
        if drv is None:
            return [None] * len(trees)
        return drv.ask(dict(p='C20', host=HOST_OFF, cases=[to_model(t) for t in trees]))['r']

    MODEL_ASK[0] = ask if drv is not None else None

    def fails_like(kind):
        def f(t):
            j = judge(t, ask([t])[0])
            return j is not None and j[0] == kind
        return f

    def report_tree(t, j):
        small = shrink(t, fails_like(j[0]))
        j2 = judge(small, ask([small])[0]) or j
        res.fail(j2[0], j2[1], j2[2], dict(kind='tree', tree=small))

    def ask_hist(op, rows):
        if op in HIST_OPS1:
            req = dict(op1=op, rows=[[hist_model_operand(x) for x in r] for r in rows])
        else:
            req = dict(op=op, mode='off', rows=[[hist_model_operand(x) for x in r] for r in rows])
        return drv.ask(dict(p='C20', host=HOST_OFF, hist=[req]))['h'][0]

    ASK_HIST = ask_hist if drv is not None else None

    def report_history(case, j):
        small = shrink_history(case, lambda c: (judge_history(c, ASK_HIST) or ('', ''))[:2] == j[:2])
        j2 = judge_history(small, ASK_HIST) or j
        res.fail(j2[0], j2[1], j2[2], dict(kind='hist', case=small))

    def report_law(case, msg):
        fn = LAWS[case['law']]
        small = shrink_law(case, fn)
        res.fail('oracle', LAW_KEY[case['law']], '%s: %s' % (fn.__doc__.strip(), fn(small) or msg),
                 dict(kind='law', case=small))

    if env['replay']:
        rp = json.load(open(env['replay']))['case']
        if rp.get('section') == 'floatround':
            floatref.replay(env, res, rp)
            return res
        if rp['kind'] == 'hist':
            res.case(common.digest(rp['case']), True, sample=rp['case'])
            j = judge_history(rp['case'], ASK_HIST)
            res.traces += 1
            if j:
                res.fail(j[0], j[1], j[2], rp)
            return res
        if rp['kind'] == 'tree':
            t = rp['tree']
            res.case(common.digest(t), True, sample=to_yaql(t, {}))
            j = judge(t, ask([t])[0])
            res.traces += 1
            if j:
                res.fail(j[0], j[1], j[2], rp)
        else:
            msg = LAWS[rp['case']['law']](rp['case'])
            res.case(common.digest(rp['case']), True, sample=rp['case'])
            if msg:
                res.fail('oracle', LAW_KEY[rp['case']['law']], msg, rp)
        return res

    # a broken proof obligation (a re-typed parameter, a dropped overload) directs more of the budget to the
    # naive-host-value law, where such a change shows
    obligations_broken = bool(env.get('broken'))
    n_trees = 8000 if tier == 'quick' else 120000
    n_law = 300 if tier == 'quick' else 5000
    law_weights = dict(roundtrip_s=2, roundtrip_d=2, utc=2, add_sub=2, compare=3, units=1,
                       naive=4 if obligations_broken else 1)
    t_end = time.time() + (70 if tier == 'quick' else 520)

    # ---- laws on the real code alone
    law_hist = {}
    for law, wgt in law_weights.items():
        fn = LAWS[law]
        for i in range(n_law * wgt // (3 if law == 'naive' else 1) + 1):
            case = gen_law_case(rng, law)
            nontriv = any(case.get(k) and case[k]['o'] != 0 for k in ('d', 'd2')) or bool(case.get('o')) or law == 'units'
            res.case(common.digest(case), nontriv, sample=case if i == 0 else None)
            law_hist[law] = law_hist.get(law, 0) + 1
            msg = fn(case)
            if msg:
                report_law(case, msg)
                break
        if len(res.failures) >= 8:
            break

    # ---- histories: one parsed statement / one lambda body over operand tuples of changing kinds
    hist_stats = dict(histories=0, tuples=0, forms={}, ops={}, kinds={}, dt_pairs_same_instant=0, after_other_kind=0)
    n_hist = 700 if tier == 'quick' else 12000
    for i in range(n_hist):
        if len(res.failures) >= 8:
            break
        op = (HIST_OPS2 + HIST_OPS1)[i % 11] if i % 3 else rng.choice(('=', '!='))
        form = rng.choice(['stmt', 'stmt', 'rows', 'ref']) if op in HIST_OPS2 else rng.choice(['stmt', 'rows'])
        case = dict(op=op, form=form, rows=gen_history(rng, op, form))
        hist_stats['histories'] += 1
        hist_stats['tuples'] += len(case['rows'])
        hist_stats['forms'][form] = hist_stats['forms'].get(form, 0) + 1
        hist_stats['ops'][op] = hist_stats['ops'].get(op, 0) + 1
        seen_other = False
        for r in case['rows']:
            kk = '/'.join(('dt-naive' if x['k'] == 'dt' and x['o'] is None else x['k']) for x in r)
            hist_stats['kinds'][kk] = hist_stats['kinds'].get(kk, 0) + 1
            if all(x['k'] == 'dt' for x in r):
                if len(r) == 2 and inst(r[0]) == inst(r[1]) and r[0]['o'] != r[1]['o']:
                    hist_stats['dt_pairs_same_instant'] += 1
                hist_stats['after_other_kind'] += seen_other
            else:
                seen_other = True
        nontriv = len(set(tuple(x['k'] for x in r) for r in case['rows'])) > 1 or any(
            x['k'] == 'dt' and x['o'] != 0 for r in case['rows'] for x in r)
        res.case(common.digest(case), nontriv, sample=case if i == 1 else None)
        j = judge_history(case, ASK_HIST)
        if drv is not None:
            res.traces += 1
        if j:
            report_history(case, j)

    # ---- trees: model vs code, and python arithmetic vs code
    batch = 250
    done = 0
    out_kinds = {}
    while done < n_trees and time.time() < t_end and len(res.failures) < 12:
        trees = [gen_top(rng, hist) for _ in range(batch)]
        models = ask(trees)
        for t, m in zip(trees, models):
            tally(t, hist)
            nontriv = t['k'] == 'call' and any(x['k'] == 'dt' and x['o'] != 0 for x in walk(t)) or any(
                x['k'] == 'call' and x['f'] == 'datetime' for x in walk(t))
            res.case(common.digest(t), nontriv, sample=to_yaql(t, {}) if done < 3 else None)
            mv = model_value(m)
            if mv is not None:
                ok = 'model:' + (mv[1] if mv[0] == 'err' else mv[0])
                out_kinds[ok] = out_kinds.get(ok, 0) + 1
            j = judge(t, m)
            if drv is not None:
                res.traces += 1
            done += 1
            if j:
                report_tree(t, j)
                if len(res.failures) >= 12:
                    break
    fr_hist = floatref.run_section(env, res, ID, 500 if tier == 'quick' else 6000)
    res.extra['histogram'] = dict(constructs=dict(sorted(hist.items())), outcomes=dict(sorted(out_kinds.items())),
                                  law_instances=law_hist, trees=done, floatround=fr_hist, histories=hist_stats)
    return res


LEVEL_TEXT = ('Lean 4 theorems over a code-shaped model of date_time.py on top of a model of CPython datetime '
              'arithmetic with fixed-offset zones, for ALL wall clocks, offsets, timespans and timestamps (range '
              'hypotheses explicit, out-of-range results are proved to be errors, never wrapped values): '
              '(d + t) - t = d, (d + t) - d = t, d2 - (d2 - d1) = d1; = != < <= > >= on datetimes are those of the '
              'instants; d.utc is the same instant at offset zero; datetime(s, o).timestamp = s and '
              'datetime(d.timestamp, d.offset) = d on microsecond-exact rationals; the unit properties are exact '
              'rationals of one microsecond count and timespan(microseconds => x.microseconds) = x; the DOUBLES returned are '
              'modelled too (C20Float over FloatRound.roundRat, the correctly rounded rational -> binary64 conversion proved '
              'nearest / ties-to-even / exact / monotone): x.hours is float(x.microseconds) / 3600000000.0 - two correctly rounded '
              'steps, one rounding of the exact quotient up to 2**53 us (units_float, tsUnitF_single), exact on whole units, '
              'monotone for all x; .timestamp is ONE correctly rounded division microseconds / 10**6 (timestamp_float) and '
              'datetime(s, o).timestamp is the double s itself for microsecond-exact s (timestamp_float_roundtrip); a value without '
              'zone is treated as the same wall clock at UTC by every function whose parameter is declared '
              'yaqltypes.DateTime(), and the field readers do not depend on the zone; the transcribed calendar is a '
              'bijection between the dates of years 1..9999 and their ordinals, so datetime(y, m, d, ...) is read back '
              'by the field properties and d.date + d.time = d.  That every datetime parameter '
              'of every definition registered by date_time.py is so declared is re-proved by the kernel over a table '
              'regenerated from the live registrations.  Under statement REUSE (C20Hist over Model/DateTimeHist: overload '
              'resolution of = != < <= > >= + - across operand kinds null / int / string / timespan / datetime, and a per-node '
              'state): the results of one expression node over any history of operand pairs are the results of the pairs alone '
              '(history_independent), hence comparisons of datetimes are those of the instants at every position of every '
              'history (history_compare_instants); a node that remembers its last overload breaks = / != (lastWinner_breaks_'
              'equality / _rows) and is harmless exactly when every accepting overload is the resolved one (lastWinner_exact, '
              'exact_of_not_equality, not_exact_eq).  The model is tied to the code by evaluating random '
              'expression trees on the real engine and on the compiled model and comparing exactly, and the laws are '
              'also checked on real results alone and against Python\'s own aware datetime arithmetic; histories of ONE parsed '
              'statement / ONE lambda body over operand tuples of changing kinds (zoneless host and aware datetimes for equal '
              'instants among nulls, ints, strings, timespans) must give, position by position, what a freshly parsed statement '
              'gives for that tuple alone, what the instants say, and what the model\'s history gives.')
LEVEL_NOTE = ('trusted: Lean kernel; hand-written model Yaql/Model/DateTime.lean (offsets in microseconds, fixed-offset '
              'zones, calendar transcribed from CPython _pydatetime - proved to be a bijection dates <-> ordinals in C20Cal); the '
              'float-valued results (unit properties, .timestamp, ts / ts) are computed by the model as IEEE doubles '
              '(float(int), int / int and float / float = FloatRound.roundRat / divBits) and compared with the real results BIT FOR '
              'BIT; the property-level oracle on the real code alone keeps "up to float rounding" (1 ulp, 3 ulps beyond 2**53 us). '
              'ts * number and ts / number run through the modelled float steps too (any float is fed; the histogram counts the '
              'cases where the float result differs from exact rational rounding).  Still outside the model: the float -> '
              'microseconds rounding of fromtimestamp (inputs fed only where platform rounding equals exact rounding).  '
              'format/parse, now, localtz are not modelled.')
TECHNIQUE = 'Lean 4 proof (linear integer arithmetic) + kernel-decided table of declared parameter types + differential evaluation of expression trees'
DESIGN_REF = 'DESIGN.md section 5, C20'
