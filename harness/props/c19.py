"""C19 - string and regex functions agree with their reference model.

Three parties are compared on every generated case:
  real   - `engine(text).evaluate(data=...)` of the yaql under test (finalised result or error class)
  oracle - a plain-Python transcription of each function's DOCUMENTED meaning (`ref_*` below; str
           methods and `re` used directly, never yaql)
  model  - the compiled Lean model (Yaql.Model.Strings / Yaql.Model.Regex, the latter with the
           executable backtracking matcher), the object of the theorems in Props/C19*.lean
real != oracle            -> the property fails on that input (kind 'oracle', a failing input)
real == oracle != model   -> the model is wrong (kind 'mismatch')
"""
import json
import multiprocessing
import os
import re
import string as S

import common
import paths
import pyfacts
import srcobl
import values

ID = 'C19'
LEAN_MODULES = ['Yaql.Props.C19', 'Yaql.Props.C19Regex', 'Yaql.Props.C19Exec', 'Yaql.Props.C19Gen'] + \
    srcobl.modules('C19')        # Props/SrcStrings: the model functions equal the translation of the current source
REQUIRED_THEOREMS = [
    'Yaql.Props.C19.split_join', 'Yaql.Props.C19.join_split', 'Yaql.Props.C19.substring_spec',
    'Yaql.Props.C19.indexOf_spec', 'Yaql.Props.C19.lastIndexOf_spec', 'Yaql.Props.C19.trim_idem',
    'Yaql.Props.C19.norm_none_iff_empty', 'Yaql.Props.C19.isEmpty_iff', 'Yaql.Props.C19.replace_count',
    'Yaql.Props.C19.replace_dict_sequential', 'Yaql.Props.C19.starts_ends',
    'Yaql.Props.C19Regex.searchAll_disjoint_ordered', 'Yaql.Props.C19Regex.split_matches_reassemble',
    'Yaql.Props.C19Regex.replace_splice', 'Yaql.Props.C19Regex.publish_binds',
    'Yaql.Props.C19Exec.execMatcher_sane',
] + srcobl.theorems('C19')
TRUSTED = ["CPython's str methods and `re` (differentially tested against the Lean model, not verified)",
           'rendering of generated regex ASTs / replacement templates / selectors to text (harness)',
           'generated tables Yaql/Gen/StrTables.lean: whitespace class, string-module constants, re.escape set, '
           'case mapping of the sampled non-ASCII characters']
ASSUMPTIONS = ['arguments are well typed (strings, ints, null where the signature allows it); no booleans for ints',
               'start >= -len(s) for substring and the 4-argument indexOf/lastIndexOf (the quantifier of the property)',
               'no lone surrogates; case mapping compared on ASCII and on the sampled ranges of StrTables only',
               'regex patterns, templates and selectors come from the generated family (see notes/C19.md)']


def generate():
    info = dict(pyfacts.run(['StrTables'])['StrTables'])
    info.update(srcobl.generate('C19'))       # re-translate strings.py (harness/py2lean.py -> Gen/SrcStrings.lean)
    return info


# how a translated function of strings.py is reached from a yaql expression: (case function, argument builder)
SRC_CASE = {
    'substring': ('substring', lambda s, st, ln: [s, st, ln]),
    'index_of': ('indexOf', lambda s, sub, st: [s, sub, st]),
    'index_of4': ('indexOf', lambda s, sub, st, ln: [s, sub, st, ln]),
    'last_index_of': ('lastIndexOf', lambda s, sub, st: [s, sub, st]),
    'last_index_of4': ('lastIndexOf', lambda s, sub, st, ln: [s, sub, st, ln]),
    'trim': ('trim', lambda s, ch: [s, ch]),
    'trim_left': ('trimLeft', lambda s, ch: [s, ch]),
    'trim_right': ('trimRight', lambda s, ch: [s, ch]),
    'norm': ('norm', lambda s, ch: [s, ch]),
    'is_empty': ('isEmpty', lambda s, t, ch: [s, t, ch]),
    'replace': ('replace', lambda s, o, n, c: [s, o, n, c]),
    'replace_with_dict': ('replaceDict', lambda s, f, d, c: [s, d, c]),
    'join': ('join', lambda seq, sep, f: [list(seq), sep]),
    'join2': ('join_', lambda sep, seq, f: [sep, list(seq)]),
    'split': ('split', lambda s, sep, k: [s, sep, k]),
    'right_split': ('rightSplit', lambda s, sep, k: [s, sep, k]),
    'in_': ('in', lambda a, b: [a, b]),
    'starts_with': ('startsWith', lambda s, ps: [s] + list(ps)),
    'ends_with': ('endsWith', lambda s, ps: [s] + list(ps)),
    'concat': ('concat', lambda args: list(args)),
    'len_': ('len', lambda s: [s]),
    'to_char_array': ('toCharArray', lambda s: [s]),
    'str_': ('str', lambda v: [v]),
    'string_by_int': ('*', lambda s, n, engine: [s, n]),
    'int_by_string': ('*', lambda n, s, engine: [n, s]),
}


def src_oracle(t, pyargs, real):
    """a candidate input from the source-level differential (the current source of `t` disagrees with the model on
    it), judged by the property's own oracle: the yaql expression that reaches the function, evaluated by the real
    engine, against the transcription of the documented meaning"""
    spec = SRC_CASE.get(t.name)
    if spec is None:
        return None
    c = dict(f=spec[0], a=spec[1](*pyargs), form=0)
    if c['f'] in ('startsWith', 'endsWith') and len(c['a']) < 2:
        return None
    try:
        j = judge(c, None)
    except Exception:     # the case cannot be spelled as an expression (e.g. an integer beyond the literal grammar)
        return None
    if j is not None and j[0] == 'oracle':
        try:
            small = shrink(c, None, 'oracle', j[2])
            j2 = judge(small, None)
            if j2 is not None and j2[0] == 'oracle':
                c, j = small, j2
        except Exception:
            pass
        return j[2], j[1] + '  [found through the source-level differential of %s]' % t.qual, c
    return None


# ------------------------------------------------------------------ oracle: strings.py by its docstrings

def str_of(v):
    """`str`: null/true/false spelled the yaql way"""
    if v is None:
        return 'null'
    if v is True:
        return 'true'
    if v is False:
        return 'false'
    return str(v)


def ref_split(s, sep=None, k=-1):
    if sep is None:
        out, i, n = [], 0, len(s)
        while True:
            while i < n and s[i].isspace():
                i += 1
            if i == n:
                return out
            if 0 <= k == len(out):
                out.append(s[i:])
                return out
            j = i
            while j < n and not s[j].isspace():
                j += 1
            out.append(s[i:j])
            i = j
    if sep == '':
        raise ValueError('empty separator')
    out, i = [], 0
    while True:
        j = s.find(sep, i) if (k < 0 or len(out) < k) else -1
        if j < 0:
            out.append(s[i:])
            return out
        out.append(s[i:j])
        i = j + len(sep)


def ref_rsplit(s, sep=None, k=-1):
    if sep is None:
        out, j = [], len(s)
        while True:
            while j > 0 and s[j - 1].isspace():
                j -= 1
            if j == 0:
                return out[::-1]
            if 0 <= k == len(out):
                out.append(s[:j])
                return out[::-1]
            i = j
            while i > 0 and not s[i - 1].isspace():
                i -= 1
            out.append(s[i:j])
            j = i
    if sep == '':
        raise ValueError('empty separator')
    out, j = [], len(s)
    while True:
        i = s.rfind(sep, 0, j) if (k < 0 or len(out) < k) else -1
        if i < 0:
            out.append(s[:j])
            return out[::-1]
        out.append(s[i + len(sep):j])
        j = i


def ref_trim(s, chars=None, left=True, right=True):
    test = (lambda c: c.isspace()) if chars is None else (lambda c: c in chars)
    i, j = 0, len(s)
    while left and i < j and test(s[i]):
        i += 1
    while right and j > i and test(s[j - 1]):
        j -= 1
    return s[i:j]


def ref_replace(s, old, new, count=-1):
    if old == '':
        return s.replace(old, new, count)      # doc-silent: Python's meaning of the empty pattern
    out, i, n = [], 0, 0
    while count < 0 or n < count:
        j = s.find(old, i)
        if j < 0:
            break
        out += [s[i:j], new]
        i = j + len(old)
        n += 1
    out.append(s[i:])
    return ''.join(out)


def ref_index(s, sub, start=0, length=None, last=False):
    n = len(s)
    a = start + n if start < 0 else start
    if length is None:
        b = n
    else:
        b = n if length < 0 else min(n, a + length)
    cands = [i for i in range(max(a, 0), n + 1) if i + len(sub) <= b and s[i:i + len(sub)] == sub]
    if not cands:
        return -1
    return cands[-1] if last else cands[0]


def ref_substring(s, start, length=-1):
    n = len(s)
    a = start + n if start < 0 else start
    return ''.join(s[i] for i in range(n) if i >= a and (length < 0 or i < a + length))


CLASSES = [('digits', S.digits), ('hexdigits', S.hexdigits), ('asciiLowercase', S.ascii_lowercase),
           ('asciiUppercase', S.ascii_uppercase), ('asciiLetters', S.ascii_letters), ('letters', S.ascii_letters),
           ('octdigits', S.octdigits), ('punctuation', S.punctuation), ('printable', S.printable),
           ('lowercase', S.ascii_lowercase), ('uppercase', S.ascii_uppercase), ('whitespace', S.whitespace)]


ESCAPE_KEEPS = S.ascii_letters + S.digits + '_'
REGEX_META = '.^$*+?{}[]\\|()'


def codes(x):
    return [ord(c) for c in x]


def ref_strings(f, a):
    """documented meaning of function `f` of strings.py on positional arguments `a` (receiver first)"""
    if f == 'toUpper':
        return a[0].upper()
    if f == 'toLower':
        return a[0].lower()
    if f == 'len':
        return len(a[0])
    if f == 'toCharArray':
        return [c for c in a[0]]
    if f == 'split':
        return ref_split(*a)
    if f == 'rightSplit':
        return ref_rsplit(*a)
    if f == 'join':
        return a[1].join(str_of(x) for x in a[0])
    if f == 'join_':
        return a[0].join(str_of(x) for x in a[1])
    if f == 'str':
        return str_of(a[0])
    if f == 'hex':
        if a[0] is None:
            raise TypeError('null')
        return ('-' if a[0] < 0 else '') + '0x' + format(abs(a[0]), 'x')
    if f in ('concat', '+'):
        return ''.join(a)
    if f == 'trim':
        return ref_trim(*a)
    if f == 'trimLeft':
        return ref_trim(*a, right=False) if len(a) == 2 else ref_trim(a[0], None, right=False)
    if f == 'trimRight':
        return ref_trim(*a, left=False) if len(a) == 2 else ref_trim(a[0], None, left=False)
    if f == 'norm':
        if a[0] is None:
            return None
        return ref_trim(*a) or None
    if f == 'isEmpty':
        if a[0] is None:
            return True
        if len(a) > 1 and not a[1]:
            return a[0] == ''
        return ref_trim(a[0], a[2] if len(a) > 2 else None) == ''
    if f == 'replace':
        return ref_replace(*a)
    if f == 'replaceDict':
        s = a[0]
        for k, v in a[1].items():
            s = ref_replace(s, str_of(k), str_of(v), a[2] if len(a) > 2 else -1)
        return s
    if f == '*':
        s, n = (a[0], a[1]) if isinstance(a[0], str) else (a[1], a[0])
        return ''.join(s for _ in range(max(n, 0)))
    if f == 'in':
        return any(a[1][i:i + len(a[0])] == a[0] for i in range(len(a[1]) + 1))
    if f == 'substring':
        return ref_substring(*a)
    if f == 'indexOf':
        return ref_index(*a)
    if f == 'lastIndexOf':
        return ref_index(*a, last=True)
    if f == 'characters':
        return sorted(set(''.join(cs for (_, cs), on in zip(CLASSES, a) if on)))
    if f == 'startsWith':
        return any(a[0][:len(p)] == p for p in a[1:])
    if f == 'endsWith':
        return any(a[0][len(a[0]) - len(p):] == p and len(p) <= len(a[0]) for p in a[1:])
    if f == 'isString':
        return isinstance(a[0], str)
    if f == '<':
        return codes(a[0]) < codes(a[1])
    if f == '>':
        return codes(a[0]) > codes(a[1])
    if f == '<=':
        return codes(a[0]) <= codes(a[1])
    if f == '>=':
        return codes(a[0]) >= codes(a[1])
    if f == 'escapeRegex':
        # docstring: "all the characters that have a special meaning in a regular expression escaped
        # (as re.escape does)" - the special characters of Python's re syntax, written out here
        return ''.join('\\' + c if c in '()[]{}?*+-|^$\\.&~# \t\n\r\x0b\x0c' else c for c in a[0])
    raise KeyError(f)


# ------------------------------------------------------------------ the generated regex family

def render_re(r, prec=0):
    """AST -> pattern text.  prec: 0 alternation allowed, 1 inside a sequence, 2 operand of a quantifier"""
    t = r['t']
    if t == 'eps':
        out, p = '', 1
    elif t == 'lit':
        out, p = re.escape(chr(r['c'])), 2
    elif t == 'cls':
        out, p = '[' + ('^' if r['neg'] else '') + ''.join(re.escape(chr(c)) for c in r['cs']) + ']', 2
    elif t == 'dot':
        out, p = '.', 2
    elif t == 'bol':
        out, p = '^', 1
    elif t == 'eol':
        out, p = '$', 1
    elif t == 'seq':
        out, p = render_re(r['a'], 1) + render_re(r['b'], 1), 1
    elif t == 'alt':
        out, p = render_re(r['a'], 0) + '|' + render_re(r['b'], 0), 0
    elif t in ('star', 'plus', 'opt'):
        out = render_re(r['r'], 2) + {'star': '*', 'plus': '+', 'opt': '?'}[t] + ('' if r['g'] else '?')
        p = 1                      # never stack quantifiers: `a**` is a syntax error, `(?:a*)*` is meant
    elif t == 'grp':
        out, p = ('(?P<%s>' % r['name'] if r.get('name') else '(') + render_re(r['r'], 0) + ')', 2
    else:
        raise ValueError(t)
    if p < prec or (t == 'eps' and prec == 2):
        out = '(?:' + out + ')'
    return out


RE_LITS = ['a', 'b', 'A', ' ', ',', '\n', 'é', 'É']
GROUP_NAMES = ['n', 'ab', 'x1']


def gen_re(rng, depth):
    """random AST (groups not yet numbered)"""
    r = rng.random()
    if depth <= 0 or r < 0.22:
        k = rng.random()
        if k < 0.55:
            return dict(t='lit', c=ord(rng.choice(RE_LITS[:3] if rng.random() < 0.7 else RE_LITS)))
        if k < 0.72:
            cs = sorted(set(ord(rng.choice(RE_LITS)) for _ in range(rng.randrange(1, 4))))
            return dict(t='cls', neg=rng.random() < 0.3, cs=cs)
        if k < 0.86:
            return dict(t='dot')
        if k < 0.92:
            return dict(t='bol')
        if k < 0.98:
            return dict(t='eol')
        return dict(t='eps')
    if r < 0.45:
        return dict(t='seq', a=gen_re(rng, depth - 1), b=gen_re(rng, depth - 1))
    if r < 0.58:
        return dict(t='alt', a=gen_re(rng, depth - 1), b=gen_re(rng, depth - 1))
    if r < 0.80:
        return dict(t=rng.choice(['star', 'plus', 'opt']), g=rng.random() < 0.8, r=gen_re(rng, depth - 1))
    return dict(t='grp', r=gen_re(rng, depth - 1), named=rng.random() < 0.4)


def number_groups(r, st):
    """number the groups in the order of their opening parenthesis, hand out names"""
    t = r['t']
    if t == 'grp':
        st['n'] += 1
        r['i'] = st['n']
        if r.pop('named', False) and st['free']:
            r['name'] = st['free'].pop(0)
            st['names'].append([r['name'], r['i']])
        number_groups(r['r'], st)
    elif t in ('seq', 'alt'):
        number_groups(r['a'], st)
        number_groups(r['b'], st)
    elif t in ('star', 'plus', 'opt'):
        number_groups(r['r'], st)


def re_literals(r):
    """the characters a pattern mentions"""
    t = r['t']
    if t == 'lit':
        return {chr(r['c'])}
    if t == 'cls':
        return {chr(c) for c in r['cs']}
    out = set()
    for k in ('a', 'b', 'r'):
        if k in r:
            out |= re_literals(r[k])
    return out


def gen_pattern(rng):
    ast = gen_re(rng, rng.choice([1, 2, 2, 3, 3]))
    st = dict(n=0, names=[], free=list(GROUP_NAMES))
    rng.shuffle(st['free'])
    number_groups(ast, st)
    return dict(ast=ast, ng=st['n'], names=st['names'], text=render_re(ast))


def key_text(k):
    if 'n' in k:
        return '$' if (k['n'] == 1 and k.get('bare')) else '$%d' % k['n']
    return '$' + k['name']


def atom_text(a):
    t = a['t']
    if t == 'var':
        return key_text(a)
    if t == 'field':
        return '%s.%s' % (key_text(a), a['f'])
    if t == 'strField':
        return 'str(%s.%s)' % (key_text(a), a['f'])
    return "'%s'" % a['s']


def sel_text(sel):
    if sel['t'] == 'one':
        return atom_text(sel['a'])
    if sel['t'] == 'list':
        return '[' + ', '.join(atom_text(a) for a in sel['l']) + ']'
    return 'concat(' + ', '.join(atom_text(a) for a in sel['l']) + ')'


def gen_key(rng, pat, bound_only):
    ks = [dict(n=i) for i in range(1, pat['ng'] + 2)] + [dict(name=n) for n, _ in pat['names']]
    if not bound_only and rng.random() < 0.2:
        return dict(n=pat['ng'] + rng.choice([2, 3]))          # never published: resolves to null
    k = dict(rng.choice(ks))
    if k.get('n') == 1 and rng.random() < 0.4:
        k['bare'] = True
    return k


def gen_atom(rng, pat, kinds):
    t = rng.choice(kinds)
    if t == 'var':
        return dict(t='var', **gen_key(rng, pat, False))
    if t == 'lit':
        return dict(t='lit', s=rng.choice(['-', 'x', '', 'ab']))
    return dict(t=t, f=rng.choice(['value', 'start', 'end']), **gen_key(rng, pat, True))


def gen_sel(rng, pat, for_replace):
    r = rng.random()
    if for_replace:
        # replaceBy wants a string (or null): mostly string-valued selectors, some that are not
        if r < 0.35:
            return dict(t='one', a=gen_atom(rng, pat, ['strField', 'lit', 'field', 'field']))
        if r < 0.9:
            return dict(t='concat', l=[gen_atom(rng, pat, ['strField', 'lit', 'strField', 'field'])
                                       for _ in range(rng.randrange(1, 4))])
        return dict(t='one', a=gen_atom(rng, pat, ['var', 'field']))
    if r < 0.35:
        return dict(t='one', a=gen_atom(rng, pat, ['var', 'field', 'strField']))
    if r < 0.85:
        return dict(t='list', l=[gen_atom(rng, pat, ['var', 'field', 'field', 'strField', 'lit'])
                                 for _ in range(rng.randrange(1, 5))])
    return dict(t='concat', l=[gen_atom(rng, pat, ['strField', 'lit', 'field']) for _ in range(rng.randrange(1, 4))])


def sel_for_model(sel):
    def key(a):
        return dict(n=a['n']) if 'n' in a else dict(name=codes(a['name']))

    def atom(a):
        if a['t'] == 'lit':
            return dict(t='lit', s=codes(a['s']))
        d = dict(t=a['t'], **key(a))
        if 'f' in a:
            d['f'] = a['f']
        return d
    if sel is None:
        return None
    if sel['t'] == 'one':
        return dict(t='one', a=atom(sel['a']))
    return dict(t=sel['t'], l=[atom(a) for a in sel['l']])


def template_text(items):
    out = ''
    for it in items:
        if it['t'] == 'lit':
            out += it['s'].replace('\\', '\\\\')
        elif it['t'] == 'num':
            out += ('\\%d' % it['n']) if it.get('short') else '\\g<%d>' % it['n']
        else:
            out += '\\g<%s>' % it['s']
    return out


def gen_template(rng, pat):
    items = []
    for _ in range(rng.randrange(0, 4)):
        r = rng.random()
        if r < 0.45 or (pat['ng'] == 0 and r < 0.8):
            items.append(dict(t='lit', s=rng.choice(['x', '-', 'ab', '\\', ' ', ''])))
        elif r < 0.8:
            n = rng.randrange(0 if rng.random() < 0.3 else 1, pat['ng'] + 1) if pat['ng'] else 0
            items.append(dict(t='num', n=n, short=(n > 0 and rng.random() < 0.5)))
        elif pat['names']:
            items.append(dict(t='name', s=rng.choice(pat['names'])[0]))
    # `\1` directly followed by a literal digit would read as another reference: no digits in literals
    return items


# ------------------------------------------------------------------ oracle: regex.py by its docstrings

def py_flags(c):
    fl = re.UNICODE
    if c['i']:
        fl |= re.IGNORECASE
    if c['m']:
        fl |= re.MULTILINE
    if c['d']:
        fl |= re.DOTALL
    return fl


def match_vars(m):
    """what the selector sees: $1 = whole match, $k+1 = group k, $name = the named group"""
    def rec(i):
        return {'value': m.group(i), 'start': m.start(i), 'end': m.end(i)}
    v = {1: rec(0)}
    for k in range(1, (m.re.groups or 0) + 1):
        v[k + 1] = rec(k)
    for name in m.re.groupindex:
        v[name] = rec(name)
    return v


class NoMatching(Exception):
    pass


def eval_sel(sel, v):
    def key(a):
        return a['n'] if 'n' in a else a['name']

    def atom(a):
        if a['t'] == 'lit':
            return a['s']
        r = v.get(key(a))
        if a['t'] == 'var':
            return r
        if r is None:
            raise NoMatching()
        x = r[a['f']]
        return str_of(x) if a['t'] == 'strField' else x
    if sel['t'] == 'one':
        return atom(sel['a'])
    vals = [atom(a) for a in sel['l']]
    if sel['t'] == 'list':
        return vals
    if not all(isinstance(x, str) for x in vals):
        raise NoMatching()
    return ''.join(vals)


def ref_regex(c):
    rx = re.compile(c['ptext'], py_flags(c)) if c.get('compiled', True) else re.compile(c['ptext'])
    s, sel, f = c['s'], c.get('sel'), c['f']
    if f == 're.matches':
        return rx.search(s) is not None
    if f == 're.notMatches':
        return rx.search(s) is None
    if f == 're.search':
        m = rx.search(s)
        if m is None:
            return None
        return m.group() if sel is None else eval_sel(sel, match_vars(m))
    if f == 're.searchAll':
        if c.get('lazy') and sel is not None:
            return [[eval_sel(sel, match_vars(m))] for m in rx.finditer(s)]
        return [m.group() if sel is None else eval_sel(sel, match_vars(m)) for m in rx.finditer(s)]
    if f == 're.split':
        return rx.split(s, c['count'])
    if f == 're.replace':
        return rx.sub(template_text(c['repl']), s, c['count'])
    if f == 're.replaceBy':
        def repl(m):
            x = eval_sel(sel, match_vars(m))
            if x is not None and not isinstance(x, str):
                raise TypeError('replacement is not a string')
            return x or ''
        return rx.sub(repl, s, c['count'])
    raise KeyError(f)


# ------------------------------------------------------------------ yaql expression of a case

def arg_refs(n, first=0):
    return ['$.a%d' % i for i in range(first, n)]


def doc_keywords(fn):
    """the arguments after the receiver as the docstring's `:signature:` spells them:
    [keyword name | None for a positional one]"""
    m = re.search(r':signature:(.*?)(?=\n\s*:(?:arg|receiverArg|returnType))', fn.__doc__ or '', re.S)
    sig = ' '.join(m.group(1).split())
    inner = sig[sig.index('(') + 1:sig.rindex(')')]
    return [(part.split('=>')[0].strip() if '=>' in part else None) for part in inner.split(',') if part.strip()]


_KW = {}


def documented_keywords():
    """function (harness name) -> keyword spelling per argument, read from the docstrings of the yaql under
    test: the documented signature is part of the documented meaning"""
    if not _KW:
        from yaql.standard_library import regex as yregex
        from yaql.standard_library import strings as ystrings
        for name, fn in [('split', ystrings.split), ('rightSplit', ystrings.right_split), ('trim', ystrings.trim),
                         ('trimLeft', ystrings.trim_left), ('trimRight', ystrings.trim_right), ('norm', ystrings.norm),
                         ('isEmpty', ystrings.is_empty), ('replace', ystrings.replace),
                         ('replaceDict', ystrings.replace_with_dict), ('substring', ystrings.substring),
                         ('indexOf', ystrings.index_of), ('lastIndexOf', ystrings.last_index_of),
                         ('re.split', yregex.split), ('re.replace', yregex.replace), ('re.replaceBy', yregex.replace_by),
                         ('regex', yregex.regex)]:
            try:
                _KW[name] = doc_keywords(fn)
            except Exception:          # an unreadable docstring: positional spelling only
                _KW[name] = []
    return _KW


def expr_strings(f, a, form):
    """(text, data) of the yaql expression for function f on positional args a.  `form` selects among
    equivalent spellings (method / function / keyword arguments as the docstring names them)."""
    data = {'a%d' % i: v for i, v in enumerate(a)}
    n = len(a)
    if f in ('+', '*', 'in', '<', '>', '<=', '>='):
        return '$.a0 %s $.a1' % f, data
    if f in ('str', 'hex', 'escapeRegex', 'isString'):
        return '%s($.a0)' % f, data
    if f == 'concat':
        return 'concat(%s)' % ', '.join(arg_refs(n)), data
    if f == 'characters':
        if form % 2:
            return 'characters(%s)' % ', '.join(arg_refs(n)), data
        return 'characters(%s)' % ', '.join('%s => true' % k for (k, _), on in zip(CLASSES, a) if on), {}
    name = {'join_': 'join', 'replaceDict': 'replace'}.get(f, f)
    kw = documented_keywords().get(f)
    refs = arg_refs(n, 1)
    if kw and form % 3 == 1 and len(kw) >= len(refs) and not (f in ('indexOf', 'lastIndexOf') and n == 4):
        refs = [(r if kw[i] is None else '%s => %s' % (kw[i], r)) for i, r in enumerate(refs)]
    if f in ('len', 'norm', 'isEmpty') and form % 3 == 2:        # extension methods: function call syntax
        return '%s(%s)' % (name, ', '.join(['$.a0'] + refs)), data
    return '$.a0.%s(%s)' % (name, ', '.join(refs)), data


def expr_regex(c):
    data = dict(p=c['ptext'], s=c['s'], i=c['i'], m=c['m'], d=c['d'], n=c.get('count', 0))
    form = c.get('form', 0)
    KW = documented_keywords()
    fk = [k for k in KW.get('regex', []) if k] or ['ignoreCase', 'multiLine', 'dotAll']
    if form % 2 or len(fk) != 3:
        rx = 'regex($.p, $.i, $.m, $.d)'
    else:
        rx = 'regex($.p, %s => $.i, %s => $.m, %s => $.d)' % tuple(fk)

    def count_kw(fn, dflt):
        ks = [k for k in KW.get(fn, []) if k and k != 'selector']
        return ks[-1] if ks else dflt
    f, sel = c['f'], c.get('sel')
    st = sel_text(sel) if sel is not None else None
    if f == 're.matches':
        if not c.get('compiled', True):
            return ['$.s.matches($.p)', '$.s =~ $.p'][form // 2 % 2], data
        return ['%s.matches($.s)' % rx, '$.s =~ %s' % rx][form // 2 % 2], data
    if f == 're.notMatches':
        if not c.get('compiled', True):
            return '$.s !~ $.p', data
        return '$.s !~ %s' % rx, data
    if f in ('re.search', 're.searchAll'):
        name = f[3:]
        if c.get('lazy') and st is not None:
            # the selector hands back a LAZY sequence built from the match records; it is consumed only after
            # searchAll has gone through ALL matches (toList / reverse materialise the list of per-match results)
            tail = ['.toList()', '.reverse().reverse()', '.toList().reverse().reverse()'][c['form'] % 3]
            return '%s.%s($.s, [$1].select(%s))%s' % (rx, name, st, tail), data
        return ('%s.%s($.s)' % (rx, name)) if st is None else ('%s.%s($.s, %s)' % (rx, name, st)), data
    if f == 're.split':
        cnt = ['', ', $.n', ', %s => $.n' % count_kw('re.split', 'maxSplit')][form // 2 % 3 if c['count'] == 0 else 1 + form // 2 % 2]
        return ['%s.split($.s%s)' % (rx, cnt), '$.s.split(%s%s)' % (rx, cnt)][form // 6 % 2], data
    if f == 're.replace':
        data['r'] = template_text(c['repl'])
        cnt = ['', ', $.n', ', %s => $.n' % count_kw('re.replace', 'count')][form // 2 % 3 if c['count'] == 0 else 1 + form // 2 % 2]
        return ['%s.replace($.s, $.r%s)' % (rx, cnt), '$.s.replace(%s, $.r%s)' % (rx, cnt)][form // 6 % 2], data
    if f == 're.replaceBy':
        cnt = ['', ', $.n', ', %s => $.n' % count_kw('re.replaceBy', 'count')][form // 2 % 3 if c['count'] == 0 else 1 + form // 2 % 2]
        return ['%s.replaceBy($.s, %s%s)' % (rx, st, cnt), '$.s.replaceBy(%s, %s%s)' % (rx, st, cnt)][form // 6 % 2], data
    raise KeyError(f)


def yaql_literal(v):
    """the spelling of a plain value as a yaql literal (single-quoted strings, C16.roundtrip_single), or None"""
    if v is None:
        return 'null'
    if isinstance(v, bool):
        return 'true' if v else 'false'
    if isinstance(v, int):
        return str(v) if v >= 0 else '(%d)' % v
    if isinstance(v, str):
        if any(0xD800 <= ord(ch) <= 0xDFFF for ch in v):
            return None
        return "'" + v.replace('\\', '\\\\').replace("'", "\\'") + "'"
    if isinstance(v, (list, tuple)):
        parts = [yaql_literal(x) for x in v]
        return None if any(x is None for x in parts) else '[' + ', '.join(parts) + ']'
    return None


def inline_literals(text, data):
    """the same expression with its plain arguments written as literals instead of `$.name` references: the text of
    the expression then CONTAINS the strings (the engine sees many expressions that differ only inside a literal)"""
    for k in sorted(data, key=len, reverse=True):
        lit = yaql_literal(data[k])
        if lit is not None:
            text = re.sub(r'\$\.%s(?![A-Za-z0-9_])' % re.escape(k), lambda m: lit, text)
    return text


# (convention of the context the case runs in, index into paths.CONV_ORDERS = creation order of the contexts of that
# process); the first one is the default context created first - the others: PythonConvention, and either of them
# created after contexts of other conventions
COMBOS = [(conv, oi) for oi in range(len(paths.CONV_ORDERS)) for conv in ('camel', 'python')]
COMBO_WEIGHTS = [6] + [2] * (len(COMBOS) - 1)


def case_conv(c):
    return COMBOS[c.get('cv', 0)]


def conv_overrides(c, conv):
    """names with several promised spellings, settled by what the case calls: `replaceBy` is `replace_by` (python name,
    translated) on a regex receiver but keeps the explicit `@specs.name('replaceBy')` on a string receiver"""
    if c['f'] == 're.replaceBy':
        byp = paths.naming_table()['by_payload']
        string_receiver = c.get('form', 0) // 6 % 2 == 1
        return {'replaceBy': byp[('yaql.standard_library.regex',
                                  'replace_by_string' if string_receiver else 'replace_by')][conv]}
    return None


def case_expr(c):
    text, data = expr_regex(c) if c['f'].startswith('re.') else expr_strings(c['f'], c['a'], c.get('form', 0))
    conv = case_conv(c)[0]
    if conv != 'camel':
        text = paths.respell(text, conv, overrides=conv_overrides(c, conv))
    if c.get('form', 0) % 5 == 4 and c['f'] not in ('characters',):
        text = inline_literals(text, data)
    return text, data


def case_for_model(c):
    if c['f'].startswith('re.'):
        return dict(f=c['f'], pat=c['ast'], ng=c['ng'], names=[[codes(n), i] for n, i in c['names']],
                    i=bool(c['i'] and c.get('compiled', True)), m=bool(c['m'] and c.get('compiled', True)),
                    d=bool(c['d'] and c.get('compiled', True)), s=codes(c['s']), sel=sel_for_model(c.get('sel')),
                    count=c.get('count', 0),
                    repl=[dict(t=it['t'], n=it.get('n', 0), s=codes(it.get('s', ''))) for it in c.get('repl', [])])
    return dict(f='concat' if c['f'] == '+' else c['f'], a=[values.enc(x) for x in c['a']])


# ------------------------------------------------------------------ running a case on the three parties

_ENGINE = {}
_ORDER = None           # index into paths.CONV_ORDERS of THIS process (set by the pool initializer); None in the main process
_SIDE = {}


def _init_worker(order_index):
    """first thing a worker process does: the root contexts of every convention, in the order of this pool"""
    global _ORDER
    _ORDER = order_index
    _ENGINE.clear()
    _engine()


def _engine():
    if not _ENGINE:
        if _ORDER is None:
            raise RuntimeError('C19: the main process creates no yaql context (cases run in worker processes)')
        from yaql.language import factory
        _ENGINE['roots'] = paths.create_roots(paths.CONV_ORDERS[_ORDER])
        _ENGINE['eng'] = factory.YaqlFactory().create()
        _ENGINE['parsed'] = {}
    return _ENGINE


def _side_pool(order_index):
    """a one-process pool with the creation order `order_index` (replay, shrinking: single cases from the main process)"""
    if order_index not in _SIDE:
        _SIDE[order_index] = multiprocessing.get_context('fork').Pool(1, initializer=_init_worker, initargs=(order_index,))
    return _SIDE[order_index]


def _close_side_pools():
    for p in _SIDE.values():
        p.terminate()
    _SIDE.clear()


def err_class(e):
    n = type(e).__name__
    if n in ('NoMatchingFunctionException', 'NoMatchingMethodException', 'NoMatching'):
        return 'NoMatching'
    if isinstance(e, re.error):
        return 'ReError'
    return n


def plain(v):
    """finalised yaql results and oracle results in one shape: tuples as lists"""
    if isinstance(v, (list, tuple)):
        return [plain(x) for x in v]
    if isinstance(v, dict):
        return {k: plain(x) for k, x in v.items()}
    return v


def outcome(fn, sort=False):
    try:
        v = plain(fn())
        if sort:
            v = sorted(v)
        return ['v', values.enc(v)]
    except Exception as e:      # the error class is the observation
        return ['e', err_class(e)]


def run_real(c):
    conv, oi = case_conv(c)
    if _ORDER is None:
        return _side_pool(oi).apply_async(run_real, (c,)).get(timeout=120)
    if _ORDER != oi:
        raise RuntimeError('C19: case of creation order %d in a process of order %d' % (oi, _ORDER))
    E = _engine()
    text, data = case_expr(c)
    return outcome(lambda: paths.evaluate(E['eng'], E['roots'][conv], text, data), sort=c['f'] == 'characters')


def run_oracle(c):
    if c['f'].startswith('re.'):
        return outcome(lambda: ref_regex(c))
    return outcome(lambda: ref_strings(c['f'], c['a']))


def _work(chunk):
    return [(run_real(c), run_oracle(c)) for c in chunk]


def model_outcome(r, sort):
    if 'e' in r:
        return ['e', r['e']]
    v = r['v']
    if sort and isinstance(v, dict) and 'se' in v:
        v = {'li': sorted(v['se'], key=lambda t: t['s'])}
    return ['v', v]


def lazy_wrap(c, mo):
    """the model evaluates the selector of a `lazy` case itself; the expression wraps every per-match result in a
    one-element sequence"""
    if c.get('lazy') and c.get('sel') is not None and mo[0] == 'v' and isinstance(mo[1], dict) and 'li' in mo[1]:
        return ['v', {'li': [{'li': [x]} for x in mo[1]['li']]}]
    return mo


def same(a, b):
    return a[0] == b[0] and (values.same(a[1], b[1]) if a[0] == 'v' else a[1] == b[1])


DOC_KEYS = ('escapeRegex-doc-stale', 'isEmpty-doc-keyword')


def failure_key(c, real):
    """signature of an oracle failure (matched against known_findings.json).  Two narrow signatures name
    places where the docstring and the code disagree; anything else is keyed by the function."""
    f = c['f']
    if f == 'escapeRegex' and real[0] == 'v' and 's' in (real[1] or {}):
        out, s = values.dec(real[1]), c['a'][0]
        # the code escapes exactly a set of special characters: every regex metacharacter, no ASCII
        # letter / digit / '_'; only the claim "everything else is escaped" fails
        i, ok, plain_ = 0, True, []
        while i < len(out):
            if out[i] == '\\' and i + 1 < len(out):
                ok = ok and out[i + 1] not in ESCAPE_KEEPS
                plain_.append(out[i + 1])
                i += 2
            else:
                ok = ok and out[i] not in REGEX_META
                plain_.append(out[i])
                i += 1
        if ok and ''.join(plain_) == s:
            return 'escapeRegex-doc-stale'
    if f == 'isEmpty' and real == ['e', 'NoMatching'] and 'trimSpaces =>' in case_expr(c)[0]:
        return 'isEmpty-doc-keyword'
    return f


def judge(c, drv, want=None):
    """(kind, message) or None for one case, all three parties run here (used for shrinking / replay)"""
    real, orc = run_real(c), run_oracle(c)
    mod = None
    if drv is not None:
        mod = model_outcome(drv.ask(dict(p='C19', cases=[case_for_model(c)]))['r'][0], c['f'] == 'characters')
    if not same(real, orc) and want != 'mismatch':
        return 'oracle', describe(c, real, orc, mod), failure_key(c, real)
    if mod is not None and not same(real, mod):
        return 'mismatch', describe(c, real, orc, mod), c['f']
    return None


def show(o):
    if o is None:
        return '-'
    if o[0] == 'e':
        return 'raises ' + o[1]
    return repr(values.dec(o[1], frozen=False))


def describe(c, real, orc, mod):
    text, data = case_expr(c)
    conv, oi = case_conv(c)
    where = '' if (conv, oi) == COMBOS[0] else '[%s context, contexts created in the order %s] ' % (
        conv, '>'.join(paths.CONV_ORDERS[oi]))
    return '%s%s with data %s: yaql %s, documented meaning %s, model %s' % (
        where, text, json.dumps(data, ensure_ascii=True, default=repr), show(real), show(orc), show(mod))


def shrink(c, drv, kind, key):
    """shorten the string arguments while the same failure (kind and key) persists"""
    def variants(c):
        if c['f'].startswith('re.'):
            for i in range(len(c['s'])):
                yield dict(c, s=c['s'][:i] + c['s'][i + 1:])
            if c.get('count'):
                yield dict(c, count=0)
        else:
            for k, x in enumerate(c['a']):
                if isinstance(x, str):
                    for i in range(len(x)):
                        yield dict(c, a=c['a'][:k] + [x[:i] + x[i + 1:]] + c['a'][k + 1:])
    progress = True
    while progress:
        progress = False
        for v in variants(c):
            j = judge(v, drv, kind)
            if j and j[0] == kind and j[2] == key:
                c, progress = v, True
                break
    return c


# ------------------------------------------------------------------ case generators

A_CORE = ['a', 'b', ' ', ',']
A_UNI = ['é', 'É', 'ß', 'Д', 'д', 'İ', 'ŉ', 'µ', 'A', 'Z', 'z',
         # strings that are NOT in a Unicode normal form: base letter + combining mark, conjoining Hangul jamo - a string is
         # its code points; nothing on the way to a function may compose or decompose them
         'e', '\u0301', '\u0327', '\u1100', '\u1161']
A_WS = ['\t', '\n', '\u00a0', '\u2003', '\u1680', '\x1c', '\x0b']


def all_strings(alpha, maxlen):
    out = ['']
    layer = ['']
    for _ in range(maxlen):
        layer = [x + c for x in layer for c in alpha]
        out += layer
    return out


def rand_str(rng, alpha, maxlen):
    return ''.join(rng.choice(alpha) for _ in range(rng.randrange(0, maxlen + 1)))


def rstr(rng, maxlen=6):
    r = rng.random()
    if r < 0.6:
        return rand_str(rng, A_CORE, maxlen)
    if r < 0.8:
        return rand_str(rng, A_CORE + A_UNI, maxlen)
    return rand_str(rng, A_CORE + A_WS, maxlen)


def gen_index_cases(tier):
    """substring / indexOf / lastIndexOf: EVERY start in [-len, len+2] and length in [-2, len+2], for every
    string up to length 4 (thorough: 5) over a small alphabet"""
    out = []
    top = 4 if tier == 'quick' else 5
    for s in all_strings(['a', 'b', ' '], 4) + ([x for x in all_strings(['a', 'b'], 5) if len(x) == 5] if top == 5 else []):
        n = len(s)
        for st in range(-n, n + 3):
            out.append(dict(f='substring', a=[s, st], form=st))
            for ln in range(-2, n + 3):
                out.append(dict(f='substring', a=[s, st, ln], form=st + ln))
    subs = ['', 'a', 'b', 'ab', 'ba', 'aa']
    for s in all_strings(['a', 'b'], top):
        n = len(s)
        for sub in subs:
            for f in ('indexOf', 'lastIndexOf'):
                out.append(dict(f=f, a=[s, sub], form=0))
                for st in range(-n - 2, n + 3):
                    out.append(dict(f=f, a=[s, sub, st], form=st))
                for st in range(-n, n + 3):
                    for ln in range(-2, n + 3):
                        out.append(dict(f=f, a=[s, sub, st, ln], form=0))
    return out


def gen_string_cases(rng, n):
    out = []
    seps = [',', ' ', 'ab', 'aa', ', ', 'a', '']
    chars_opts = [None, 'a', 'ab', ' ,', 'ba ', '', 'éa']
    keys = ['ab', 'abc', 'a', 'b', 'ba', '', ' ', 'aa', 1, 'c']
    vals = ['x', 'ab', '', 'b', 'a', 1, None, True, 'ba']
    for _ in range(n):
        r = rng.random()
        form = rng.randrange(6)
        s = rstr(rng)
        if r < 0.10:
            f = rng.choice(['split', 'rightSplit'])
            a = [s]
            if rng.random() < 0.85:
                a.append(rng.choice(seps + [None, None]))
                if rng.random() < 0.7:
                    a.append(rng.randrange(-2, 5))
        elif r < 0.16:
            seq = [rng.choice(['a', 'b', '', 'ab', ',', 1, None, True, -3, 'a,b']) for _ in range(rng.randrange(0, 5))]
            sep = rng.choice(seps)
            f, a = rng.choice([('join', [seq, sep]), ('join_', [sep, seq])])
        elif r < 0.24:
            f = rng.choice(['trim', 'trimLeft', 'trimRight'])
            a = [s] + ([rng.choice(chars_opts)] if rng.random() < 0.7 else [])
        elif r < 0.30:
            f = 'norm'
            a = [None if rng.random() < 0.1 else s] + ([rng.choice(chars_opts)] if rng.random() < 0.6 else [])
        elif r < 0.37:
            f = 'isEmpty'
            a = [None if rng.random() < 0.1 else s]
            if rng.random() < 0.7:
                a.append(rng.random() < 0.6)
                if rng.random() < 0.6:
                    a.append(rng.choice(chars_opts))
        elif r < 0.47:
            f = 'replace'
            a = [s, rng.choice(['a', 'ab', 'aa', '', 'b ', ',']), rng.choice(['x', '', 'ab', 'aa'])]
            if rng.random() < 0.7:
                a.append(rng.randrange(-2, 5))
        elif r < 0.57:
            f = 'replaceDict'
            d = {}
            for _k in range(rng.randrange(0, 4)):
                d[rng.choice(keys)] = rng.choice(vals)
            a = [s, d] + ([rng.randrange(-2, 4)] if rng.random() < 0.5 else [])
        elif r < 0.63:
            f = rng.choice(['startsWith', 'endsWith'])
            a = [s] + [rng.choice([s[:rng.randrange(0, 4)], s[-rng.randrange(1, 4):], 'a', 'b', '', 'ab', ' '])
                       for _ in range(rng.randrange(0, 4))]
        elif r < 0.69:
            f = rng.choice(['toUpper', 'toLower', 'len', 'toCharArray', 'isString', 'escapeRegex'])
            a = [rand_str(rng, A_CORE + A_UNI + ['.', '*', '_', '1', '\\', '-', '~'], 6) if f != 'isString'
                 else rng.choice([s, 1, None, True, [s]])]
        elif r < 0.74:
            f, a = rng.choice([('str', [rng.choice([None, True, False, 0, -12, 255, 10 ** 20, s])]),
                               ('hex', [rng.choice([0, 1, -1, 255, -255, 4096, 10 ** 20, None])])])
        elif r < 0.79:
            f = rng.choice(['concat', '+'])
            a = [rstr(rng, 3) for _ in range(2 if f == '+' else rng.randrange(1, 4))]
        elif r < 0.84:
            f = '*'
            a = [rstr(rng, 3), rng.randrange(-2, 5)]
            if rng.random() < 0.5:
                a.reverse()
        elif r < 0.90:
            f = rng.choice(['in', '<', '>', '<=', '>='])
            a = [rstr(rng, 3), rstr(rng, 4)]
        elif r < 0.94:
            f = 'characters'
            a = [rng.random() < 0.25 for _ in CLASSES]
        else:
            # index functions on longer strings and Unicode samples, random start / length
            f = rng.choice(['substring', 'indexOf', 'lastIndexOf'])
            n_ = len(s)
            if f == 'substring':
                a = [s, rng.randrange(-n_, n_ + 3)] + ([rng.randrange(-2, n_ + 3)] if rng.random() < 0.7 else [])
            else:
                a = [s, rng.choice([s[1:3], 'a', 'ab', '', ' '])]
                if rng.random() < 0.8:
                    a.append(rng.randrange(-n_, n_ + 3))
                    if rng.random() < 0.6:
                        a.append(rng.randrange(-2, n_ + 3))
        out.append(dict(f=f, a=a, form=form))
    return out


def gen_regex_cases(rng, n):
    out = []
    while len(out) < n:
        pat = gen_pattern(rng)
        try:
            re.compile(pat['text'])
        except re.error:      # the renderer keeps to valid syntax; anything else is not part of the family
            continue
        lits = sorted(re_literals(pat['ast'])) or ['a']
        for fl in range(8):                      # all 8 flag combinations of every pattern
            s = rand_str(rng, rng.choice([RE_LITS[:3], RE_LITS, lits + ['a'], lits + ['a', 'b', '\n']]), 6)
            f = rng.choice(['re.matches', 're.notMatches', 're.search', 're.search', 're.searchAll', 're.searchAll',
                            're.split', 're.replace', 're.replaceBy', 're.replaceBy'])
            c = dict(f=f, ast=pat['ast'], ng=pat['ng'], names=pat['names'], ptext=pat['text'], s=s,
                     i=bool(fl & 1), m=bool(fl & 2), d=bool(fl & 4), form=rng.randrange(24))
            if f in ('re.matches', 're.notMatches') and rng.random() < 0.3:
                c['compiled'] = False            # pattern given as a string: no flags
            if f in ('re.search', 're.searchAll') and rng.random() < 0.8:
                c['sel'] = gen_sel(rng, pat, False)
                if f == 're.searchAll' and rng.random() < 0.35:
                    c['lazy'] = True
            if f in ('re.split', 're.replace', 're.replaceBy'):
                c['count'] = rng.choice([0, 0, 0, 1, 2, 3, -1])
            if f == 're.replace':
                c['repl'] = gen_template(rng, pat)
            if f == 're.replaceBy':
                c['sel'] = gen_sel(rng, pat, True)
            out.append(c)
    return out[:n]


# ------------------------------------------------------------------ the check

def features(c):
    if not c['f'].startswith('re.'):
        return []
    ft = ['groups' if c['ng'] else 'no-groups']
    if c['names']:
        ft.append('named-group')
    ft.append('flags=' + ''.join(k for k in 'imd' if c[k]) if (c['i'] or c['m'] or c['d']) else 'flags=none')
    if c.get('sel'):
        ft.append('selector')
    return ft


def run(env, res):
    drv, tier = env['driver'], env['tier']
    rng = common.make_rng(env['seed'], 'C19')
    res.rule = ('index functions: every string over {a,b,space} / {a,b} up to length 4 (thorough 5) with EVERY start in '
                '[-len, len+2] and length in [-2, len+2]; other string functions: random arguments over '
                '{a,b,space,comma} + Unicode / whitespace samples, length <= 6, overlapping replacement keys; regex: '
                'random patterns of the generated family, each under all 8 flag combinations, random selectors over '
                'every published variable.  distinct = distinct (function, arguments, spelling); non-trivial = the '
                'subject string is not empty')
    if env['replay'] and 'src_target' in (json.load(open(env['replay'])).get('case') or {}):
        srcobl.differential(env, res, 'C19', oracle=src_oracle)
        return res
    if env['replay']:
        rp = json.load(open(env['replay']))
        cases = [rp['case']]
    else:
        quick = tier == 'quick'
        cases = gen_index_cases(tier)
        cases += gen_string_cases(rng, 30000 if quick else 500000)
        cases += gen_regex_cases(rng, 16000 if quick else 300000)
        # the naming dimension: which convention's context the case runs in, and in which order the contexts of that
        # process were created
        crng = common.make_rng(env['seed'], 'C19/conv')
        for c in cases:
            c['cv'] = crng.choices(range(len(COMBOS)), COMBO_WEIGHTS)[0]
    hist, outcomes, feats, wins, nmatch, lens, convs = {}, {}, {}, {}, {}, {}, {}
    paths.naming_table_in_child()       # the promised names, computed where it creates no context in this process
    # real code and oracle: in worker processes (the evaluation of one yaql expression costs 0.5-4 ms); one pool per
    # creation order, each worker creates its contexts in that order before anything else
    nproc = 1 if len(cases) < 50 else max(1, min(8, (os.cpu_count() or 2) - 2))
    results = [None] * len(cases)
    if nproc > 1:
        pools = []
        by_order = {}
        for i, c in enumerate(cases):
            by_order.setdefault(case_conv(c)[1], []).append(i)
        share = max(1, nproc // max(1, len(by_order)))
        for oi, idx in sorted(by_order.items()):
            chunks = [idx[i:i + 200] for i in range(0, len(idx), 200)]
            pool = multiprocessing.get_context('fork').Pool(share, initializer=_init_worker, initargs=(oi,))
            pools.append((pool, chunks, pool.map_async(_work, [[cases[i] for i in ch] for ch in chunks])))
        try:
            for pool, chunks, job in pools:
                # watchdog: a change that makes an evaluation hang must not hang the check (-> harness error, exit 2)
                done = job.get(timeout=600 if tier == 'quick' else 3000)
                for ch, rs in zip(chunks, done):
                    for i, r in zip(ch, rs):
                        results[i] = r
        finally:
            for pool, _, _ in pools:
                pool.terminate()
    else:
        results = _work(cases)
    # the model: batches through the driver
    models = []
    if drv is not None:
        for i in range(0, len(cases), 1000):
            rs = drv.ask(dict(p='C19', cases=[case_for_model(c) for c in cases[i:i + 1000]]))['r']
            models += [lazy_wrap(c, model_outcome(r, c['f'] == 'characters')) for r, c in zip(rs, cases[i:i + 1000])]
    else:
        models = [None] * len(cases)
    reported = set()
    for k, (c, (real, orc), mod) in enumerate(zip(cases, results, models)):
        f = c['f']
        hist[f] = hist.get(f, 0) + 1
        oc = 'value' if real[0] == 'v' else real[1]
        outcomes[oc] = outcomes.get(oc, 0) + 1
        for ft in features(c):
            feats[ft] = feats.get(ft, 0) + 1
        if f in ('substring', 'indexOf', 'lastIndexOf') and len(c['a']) > 2 - (f == 'substring'):
            n_ = len(c['a'][0])
            st = c['a'][1 if f == 'substring' else 2]
            hk = 'start:' + ('negative' if st < 0 else 'zero' if st == 0 else 'inside' if st < n_ else 'at-end' if st == n_ else 'beyond')
            wins[hk] = wins.get(hk, 0) + 1
            if len(c['a']) > 3 - (f == 'substring'):
                ln = c['a'][-1]
                hk = 'length:' + ('negative' if ln < 0 else 'zero' if ln == 0 else 'within' if st + ln <= n_ else 'beyond')
                wins[hk] = wins.get(hk, 0) + 1
        if f == 're.searchAll' and real[0] == 'v':
            hk = min(len(real[1].get('li', [])), 6)
            nmatch[hk] = nmatch.get(hk, 0) + 1
        subject = c['s'] if f.startswith('re.') else next((x for x in c['a'] if isinstance(x, str)), '')
        lens[len(subject)] = lens.get(len(subject), 0) + 1
        text, data = case_expr(c)
        ck = '%s context, contexts created %s' % (case_conv(c)[0], '>'.join(paths.CONV_ORDERS[case_conv(c)[1]]))
        convs[ck] = convs.get(ck, 0) + 1
        if '=>' in text:
            convs['keyword spelling, %s context' % case_conv(c)[0]] = convs.get('keyword spelling, %s context' % case_conv(c)[0], 0) + 1
        res.case(common.digest(repr((text, data, c.get('cv', 0)))), nontrivial=bool(subject),
                 sample=dict(expr=text, data=data, result=show(real)) if k % 2999 == 0 else None)
        if mod is not None:
            res.traces += 1
        fails = []
        if not same(real, orc):
            fails.append(('oracle', failure_key(c, real)))
        if mod is not None and not same(real, mod) and (same(real, orc) or fails[0][1] == 'escapeRegex-doc-stale'):
            fails.append(('mismatch', f))
        for kind, key in fails:
            if (kind, key) in reported or len(reported) >= 10:
                continue
            reported.add((kind, key))
            small = shrink(c, drv, kind, key)
            j = judge(small, drv, kind)
            res.fail(kind, key, j[1] if j else describe(c, real, orc, mod), small)
    if not env['replay']:
        # source-level differential: real function vs its Lean translation vs the model expression of the theorem
        srcobl.differential(env, res, 'C19', oracle=src_oracle)
    _close_side_pools()
    res.extra['naming_conventions_and_creation_orders'] = convs
    res.extra['function_histogram'] = hist
    res.extra['outcome_histogram'] = outcomes
    res.extra['regex_features'] = feats
    res.extra['index_argument_classes'] = wins
    res.extra['searchAll_match_counts'] = {('%d' % k if k < 6 else '6+'): v for k, v in sorted(nmatch.items())}
    res.extra['subject_length_histogram'] = {str(k): v for k, v in sorted(lens.items())}
    res.extra['workers'] = nproc
    return res


LEVEL_TEXT = ('Lean 4 theorems over a code-shaped model of strings.py and regex.py: split/join are inverse for every '
              'non-empty separator; substring / indexOf / lastIndexOf are characterised by windows and first / last '
              'occurrences for every string and every integer argument with start >= -len; trim is idempotent and '
              'characterised; norm / isEmpty; replace by its first-occurrence recursion (count forms) and the dict form as '
              'a left fold; startsWith / endsWith.  Regex wrappers for EVERY matcher: the matches of searchAll / split / '
              'replace are ordered and disjoint, split pieces interleaved with the matches give the string back, replace '
              'splices the replacement texts between the same pieces, and _publish_match binds $1, $k+1 and $name to the '
              'value/start/end records.  Tied to the code by running the compiled model (with an executable backtracking '
              'matcher for the generated pattern family), the real engine and a plain-Python transcription of the '
              'docstrings on the same generated inputs.')
LEVEL_NOTE = ('trusted: Lean kernel; the hand-written models; CPython str methods and `re` (differentially tested only); '
              'generated tables (whitespace, string constants, case mapping samples, re.escape set) re-dumped and '
              're-proved per run; the harness and its renderers.  Doc-silent spots follow the code (notes/C19.md).')
TECHNIQUE = 'Lean 4 proof (induction over strings / match lists) + three-way differential run (model, engine, docstring oracle)'
DESIGN_REF = 'DESIGN.md section 5, C19'
