"""C18 - concurrent evaluations do not interfere.

(A) statements: 2-4 real threads, each evaluating a statement of ONE engine in its own child of ONE shared
    prepared context (frozen documents incl. FrozenDicts used as dict keys / set members, registered host
    functions, a def'd function, a yaqlized object), released one step at a time by a deterministic scheduler.
    Scheduling points: `yaql.language.runner.call` entry (module-level patch), `__next__` of instrumented
    sources, `__hash__`/`__eq__` of harness-owned key objects.  Exhaustive interleavings for short traces,
    bounded-preemption (<= 3) systematic schedules for medium, seeded random for long ones.
    Oracle (real code alone): every thread's outcome == the outcome of the same statement evaluated alone
    (fresh engine, fresh parse, fresh equal context), and the snapshot of the shared context chain (data,
    function sets, every field of every shared FunctionDefinition) is unchanged.
(B) the module-level `yaql.eval` path with its three caches (reset before every case), extra points at
    `YaqlFactory.create`, engine `__call__`, `create_context`.
(C) correspondence with the Lean model `SharedObjs.machine`: programs over the REAL OrderingIterable /
    GroupAggregator / utils.memorize / FrozenDict.__hash__ / yaql.eval / context dispatch, run under a
    schedule in real threads and, with the observed trace, in the compiled model: per-thread outputs ==
    model outputs == the schedule-independent prediction `den` (theorem objs_results), the model needs
    exactly the steps the real threads took, the published hashes are the model's cache entries.
(C2) the same for `Model/SharedList.lean` (props/c18lists.py): programs of `sortBy` / `read` over REAL Python lists
    shared by the threads and the real queries.order_by (every key-selector call a scheduling point) under a schedule
    vs the model in `SortMode.copy` with the observed trace - outputs, `den`, exact step count, lists afterwards.
(D) free-running threads under a 1 us switch interval (supporting only).
(E) dynamic side of `C18Gen.no_shared_writes`: every Context written during (A) was created by the writing
    thread; every OrderingIterable / GroupAggregator written was created by the writing thread.
(F) line-granularity schedules: every LINE event of code in the yaql package is a scheduling point
    (sys.monitoring); seeded bursty schedules, same oracle as (A) - the deterministic, replayable form of (D).
(H) raw mutable host values in the shared context (props/c18lists.py): lists / dicts / sets (nested too) the host
    stored unconverted, reached as variables, as the document of an engine with yaql.convertInputData off and as
    host function results; a sweep of every library function over every parameter that admits such a value, 2-3
    threads on the SAME object, scheduling points inside the lambdas; oracle of (A) with the snapshot comparing the
    variable values, also after every statement evaluated alone.
"""
import itertools
import json
import operator
import os
import re
import signal
import sys
import threading
import time

import common
import pyfacts
import sched

ID = 'C18'
LEAN_MODULES = ['Yaql.Props.C18', 'Yaql.Props.C18Objs', 'Yaql.Props.C18Gen', 'Yaql.Props.C18Eval', 'Yaql.Props.EvalStore',
                'Yaql.Props.C18Store', 'Yaql.Props.C18Lists']
REQUIRED_THEOREMS = [
    'Yaql.Props.C18.isolation', 'Yaql.Props.C18.isolation_exact', 'Yaql.Props.C18.interleaving',
    'Yaql.Props.C18.isolation_benign_cache', 'Yaql.Props.C18.oblivious_of_denotation',
    'Yaql.Props.C18.eval_writes_private', 'Yaql.Props.C18.eval_isolated',
    'Yaql.Props.C18.objs_isolated', 'Yaql.Props.C18.objs_results', 'Yaql.Props.C18.lazy_objects_private',
    'Yaql.Props.C18.partial_publication_interferes', 'Yaql.Props.C18.parked_state_interferes',
    'Yaql.Props.C18.shared_lazy_object_interferes',
    'Yaql.Props.C18.lists_isolated', 'Yaql.Props.C18.lists_results', 'Yaql.Props.C18.lists_results_fresh',
    'Yaql.Props.C18.inplace_sort_interferes', 'Yaql.Props.C18.inplace_sort_changes_shared_alone',
    'Yaql.Props.C18.inplace_restore_interferes',
    'Yaql.Props.C18.refMachine_readOnly', 'Yaql.Props.C18.eval_model_isolated',
    'Yaql.Props.C18.eval_model_returns_framed',
    'Yaql.Props.C18.storeEval_frame', 'Yaql.Props.C18.evalS_writes_private', 'Yaql.Props.C18.evalS_isolated',
    'Yaql.Props.EvalStore.log_disciplined', 'Yaql.Props.EvalStore.writes_fresh',
    'Yaql.Props.EvalStore.store_prefix_unchanged', 'Yaql.Props.EvalStore.store_extends',
    'Yaql.Props.EvalStore.hostEval_extends',
    'Yaql.Props.C18Gen.no_shared_writes', 'Yaql.Props.C18Gen.reachable_sites_modelled',
    'Yaql.Props.C18Gen.table_nonvacuous']
TRUSTED = ['harness/sched.py (real threads blocked at scheduling points, released one at a time)',
           'harness/gens/sharedwrites.py: the AST walk finds every write site and its classification rules are sound',
           'CPython switches threads only at the instrumented points in the systematic part (GIL); C extension '
           'internals (dict, sorted, itertools, re, datetime) touch no yaql state']
ASSUMPTIONS = ['granularity of interleaving = one function dispatch / iterator step / key hash (the property\'s own '
               'quantifier); preemption between arbitrary bytecodes is covered only by the free-running stress',
               'C18.eval_writes_private / eval_isolated are instantiated without hypotheses for the store-passing evaluator '
               'model of the core fragment (Model/EvalStore.lean: mutable context cells as in contexts.py; C18Store.'
               'storeEval_frame from EvalStore.store_extends / hostEval_extends) at call granularity (one step = a host\'s '
               'create_child_context + evaluate, or one Function.__call__ in any context); interleavings inside a call are '
               'explored on the real code; C18Eval keeps the purely functional C04 evaluator as a Sched machine']

def generate():
    return pyfacts.run(['SharedWrites'])['SharedWrites']


class HarnessProblem(Exception):
    pass


# ====================================================================== shared fixtures

class HKey(object):
    """a hashable host key whose __hash__/__eq__ are scheduling points"""
    __slots__ = ('name', 'h')

    def __init__(self, name, h):
        self.name, self.h = name, h

    def __hash__(self):
        _point()
        return self.h

    def __eq__(self, other):
        _point()
        return isinstance(other, HKey) and other.name == self.name

    def __repr__(self):
        return 'HKey(%s)' % self.name


class Src(object):
    """instrumented source: every __next__ is a scheduling point"""

    def __init__(self, items):
        self.items, self.i = list(items), 0

    def __iter__(self):
        return self

    def __next__(self):
        _point()
        if self.i >= len(self.items):
            raise StopIteration()
        self.i += 1
        return self.items[self.i - 1]


class _Worker(object):
    """a persistent thread that runs one job at a time (thread start costs ~1.5 ms here, a hand-over ~0.1 ms)"""

    def __init__(self):
        self.job = None
        self.wake = threading.Lock()
        self.wake.acquire()
        self.busy = False
        self.thread = threading.Thread(target=self.loop, daemon=True)
        self.thread.start()

    def loop(self):
        while True:
            self.wake.acquire()
            job, self.job = self.job, None
            try:
                job()
            finally:
                self.busy = False

    def submit(self, job):
        self.busy = True
        self.job = job
        self.wake.release()


class Scheduler(object):
    """Deterministic scheduler for real threads, same contract as harness/sched.py: the threads block at
    scheduling points (`point()`), exactly one runs at a time, and it runs until its next point or its end;
    `trace` lists which thread was released for each step.  Differences in mechanism only: persistent worker
    threads, and the token is passed directly from the thread that reaches a point to the next scheduled
    thread (no controller round trip; a thread scheduled twice in a row just continues)."""
    _pool = []

    def __init__(self, bodies, timeout=30.0):
        self.n = len(bodies)
        self.bodies = bodies
        self.go = [threading.Lock() for _ in bodies]
        for l in self.go:
            l.acquire()
        self.done = threading.Lock()
        self.done.acquire()
        self.finished = [False] * self.n
        self.results = [None] * self.n
        self.steps = [0] * self.n
        self.local = threading.local()
        self.timeout = timeout
        self.hung = False
        self.trace = []
        self.order = []
        self.k = 0

    def _advance(self, me):
        """called by the thread holding the token (or by the controller at the start): pick who runs next"""
        while True:
            if self.k < len(self.order):
                i = self.order[self.k]
                self.k += 1
                if i >= self.n or self.finished[i]:
                    continue
            else:
                i = next((j for j in range(self.n) if not self.finished[j]), None)
                if i is None:
                    self.done.release()
                    return
            break
        self.trace.append(i)
        self.steps[i] += 1
        if i != me:
            self.go[i].release()
            if me is not None and not self.finished[me]:
                self.go[me].acquire()

    def point(self):
        i = getattr(self.local, 'i', None)
        if i is None:
            return                      # not one of ours: run freely
        self._advance(i)

    def _body(self, i):
        self.local.i = i
        self.go[i].acquire()            # initial scheduling point (before the operation starts)
        try:
            self.results[i] = ('ret', self.bodies[i]())
        except BaseException as e:      # noqa
            self.results[i] = ('raise', type(e).__name__, scrub(str(e))[:200])
        self.finished[i] = True
        self.local.i = None
        self._advance(i)

    def run(self, schedule):
        pool = Scheduler._pool
        free = [w for w in pool if not w.busy]
        while len(free) < self.n:
            w = _Worker()
            pool.append(w)
            free.append(w)
        self.order = list(schedule)
        for i in range(self.n):
            free[i].submit(lambda i=i: self._body(i))
        self._advance(None)
        if not self.done.acquire(timeout=self.timeout + 0.05 * len(self.order)):
            self.hung = True
        return self.results


CUR = [None]          # the scheduler of the run in progress


def _point():
    s = CUR[0]
    if s is not None:
        s.point()


def proc_state():
    """process-wide interpreter settings an evaluation has no business changing: they are shared by all threads"""
    import decimal
    import locale
    return dict(recursionlimit=sys.getrecursionlimit(), switchinterval=sys.getswitchinterval(),
                decimal_prec=decimal.getcontext().prec, locale=locale.setlocale(locale.LC_ALL, None),
                int_max_str_digits=sys.get_int_max_str_digits(), tz=os.environ.get('TZ'), dont_write_bytecode=sys.dont_write_bytecode)


PROC = dict(base=None, changed=None)


def install_call_point():
    from yaql.language import runner
    orig = runner.call
    PROC['base'] = proc_state()
    PROC['changed'] = None

    def call(*a, **k):
        if PROC['changed'] is None:
            now = proc_state()
            if now != PROC['base']:
                PROC['changed'] = {k_: (PROC['base'][k_], v) for k_, v in now.items() if v != PROC['base'][k_]}
        _point()
        return orig(*a, **k)
    runner.call = call
    return lambda: setattr(runner, 'call', orig)


DATAS = [
    {'a': [3, 1, 2], 'n': 5, 's': 'hello world', 'b': {'x': 1, 'y': [1, 2]},
     'rows': [{'k': 1, 'v': 'a'}, {'k': 2, 'v': 'b'}, {'k': 1, 'v': 'c'}]},
    {'a': [9, 7, 8, 7], 'n': 2, 's': 'good bye', 'b': {'x': 4, 'z': [5]},
     'rows': [{'k': 3, 'v': 'p'}, {'k': 3, 'v': 'q'}, {'k': 4, 'v': 'r'}]},
    {'a': [0, -1], 'n': 11, 's': 'yaql lang', 'b': {'y': 0},
     'rows': [{'k': 7, 'v': 'x'}, {'k': 6, 'v': 'y'}]},
    {'a': [4, 4, 6, 5, 1], 'n': 3, 's': 'olleh', 'b': {'x': 9, 'y': [7]},
     'rows': [{'k': 2, 'v': 'm'}, {'k': 1, 'v': 'n'}, {'k': 2, 'v': 'o'}, {'k': 1, 'v': 'p'}]},
]

# statement pool: every library module; `$` is the thread's own input document, `$doc $fd $fd2 $rows $hd $hd2
# $obj` live in the SHARED context, `hostf src sq` are functions of the shared context
POOL = [
    # collections
    ('$.a + [$.n]', 'collections'), ('$.a.len() + $doc.a.len()', 'collections'),
    ('dict(a => $.n, b => $.a).keys()', 'collections'), ('$.b.set(z, $.n)', 'collections'),
    ('[$.n, 2, $.n].toSet().len()', 'collections'), ('$.a.contains($.n)', 'collections'),
    ('$.b.containsKey(x)', 'collections'), ('$.a.insert(1, $.n)', 'collections'),
    ('$.a.replace(0, $.n)', 'collections'), ('$.a.delete(0)', 'collections'),
    ('{$fd => $.n}.len()', 'collections,hash'), ('{$fd => $.n, $fd2 => 1}.values()', 'collections,hash'),
    ('[$fd, $fd2, $fd].toSet().len() + $.n', 'collections,hash'), ('set($fd, $fd2).len()', 'collections,hash'),
    ('{$hd => $.n}.len()', 'collections,hash,hkey'), ('[$hd, $hd2, $hd].toSet().len() + $.n', 'collections,hash,hkey'),
    ('[$hd, $hd].distinct().len() * $.n', 'queries,hash,hkey'), ('$doc.b.get(x) + $.n', 'collections'),
    ('$.b.keys().len()', 'collections'), ('{$.s => $.n, x => $.a.len()}', 'collections,mapping'),
    ('dict($.s => $.a.sum(), $.n => $.s.len())', 'collections,mapping'), ('$.b.set($.s, $.a.len())', 'collections,mapping'), ('$rows.select($.k).toList() + $.a', 'collections'),
    # queries
    ('let(d => $) -> $d.a.where($ > 1).select($ * $d.n)', 'queries,system'),
    ('$.a.orderBy($)', 'queries,ordering'), ('$.a.orderByDescending($).take(2)', 'queries,ordering'),
    ('$.rows.orderBy($.k).thenByDescending($.v).select($.v)', 'queries,ordering'),
    ('$.rows.orderByDescending($.k).thenBy($.v).select($.v)', 'queries,ordering'),
    ('$.rows.groupBy($.k, $.v)', 'queries,group'), ('$.rows.groupBy($.k, $.v, $.len())', 'queries,group'),
    ('$.rows.groupBy($.k, $.v, [$[0], $[1].len()])', 'queries,group'),
    ('$.a.groupBy($ mod 2, $, $.sum())', 'queries,group'),
    ('$.a.zip($.a.select($ + 1))', 'queries'), ('$.a.join($rows, $1 > $2.k, [$1, $2.v])', 'queries,memorize'),
    ('let(m => $.a.select($ * 2).memorize()) -> $m.sum() + $m.len()', 'queries,memorize'),
    ('$.a.zip($doc.a, $.a)', 'queries'), ('$.a.distinct()', 'queries'), ('$.a.aggregate($1 + $2, $.n)', 'queries'),
    ('$.a.any($ > 2)', 'queries'), ('$.a.selectMany([$, $])', 'queries'), ('$.a.reverse()', 'queries'),
    ('$.a.accumulate($1 + $2)', 'queries'), ('$.a.indexOf($.n)', 'queries'), ('$.a.slice(2)', 'queries'),
    ('$.a.skip(1).takeWhile($ < 8)', 'queries'), ('generate($.n, $ < 14, $ + 3)', 'queries'),
    ('src($.n).select($ * 2)', 'queries,src'), ('let(m => src(4).memorize()) -> $m.sum() + $m.len() + $.n', 'queries,src,memorize'),
    ('src(3).zip(src($.n))', 'queries,src'), ('src(4).orderBy(-$).take(2)', 'queries,src,ordering'),
    ('let(d => $) -> src(4).select($ + $d.n)', 'queries,src,system'), ('src(5).groupBy($ mod 2, $, $.sum())', 'queries,src,group'),
    ('src(3).join(src(2), true, $1 * 10 + $2)', 'queries,src,memorize'),
    ('$.a.orderBy($ mod 3).thenBy(-$).select($ + $doc.n)', 'queries,ordering'),
    # lambdas that read the evaluation's own variables (the way a leaked context becomes visible)
    ('let(k => $.n) -> $.a.select($ + $k)', 'queries,system,closure'), ('let(k => $.n) -> $.a.where($ < $k)', 'queries,system,closure'),
    ('let(k => $.n) -> $.rows.orderBy($.k * $k).thenBy($.v).select($.v + str($k))', 'queries,ordering,system,closure'),
    ('let(k => $.n) -> $.a.groupBy($ mod 2, $ + $k, $.sum() + $k)', 'queries,group,system,closure'),
    ('let(d => $) -> $d.a.any($ = $d.n)', 'queries,system,closure'), ('let(k => $.n) -> src(4).select($ * $k)', 'queries,src,system,closure'),
    ('let(k => $.s) -> $.rows.select($k + $.v)', 'queries,system,closure'), ('let(k => $.n) -> $.a.aggregate($1 + $2 * $k, 0)', 'queries,system,closure'),
    ('let(k => $.n) -> $.a.takeWhile($ != $k).len()', 'queries,system,closure'), ('let(k => $.n) -> $.a.zip($.a.select($ - $k))', 'queries,system,closure'),
    ('let(k => $.n) -> $.a.orderBy($ mod $k)', 'queries,ordering,system,closure'),
    ('let(k => $.s) -> $.a.select(switch($ > 2 => $k, true => str($)))', 'branching,system,closure'),
    ("let(k => $.n) -> regex('\\w+').searchAll($.s, $.len() + $k)", 'regex,system,closure'),
    ('let(k => $.n) -> def(addk, $ + $k) -> $.a.select(addk($))', 'system,def,closure'),
    ('let(k => $.n) -> $.a.join($rows, $1 > $2.k, $1 * $k)', 'queries,memorize,system,closure'),
    # strings
    ('$.s.toUpper()', 'strings'), ("$.s.split(' ')", 'strings'), ("$.s.replace('l', 'L')", 'strings'),
    ('$.s.len() + $.n', 'strings'), ('$.s.substring(1, 3)', 'strings'), ('str($.n) + $.s', 'strings'),
    ("$.s.startsWith('he')", 'strings'), ("$.s.split('o').join('-')", 'strings'), ("$.s.indexOf('l')", 'strings'),
    ("'{0}-{1}'.format(str($.n), $.s)", 'strings,error'), ('$.s.trim().toLower()', 'strings'),
    # regex
    ("regex('l+').search($.s)", 'regex'), ("$.s.matches('h.*')", 'regex'), ("regex('(o)').searchAll($.s)", 'regex'),
    ("regex('o').replace($.s, '0')", 'regex'), ("regex('(\\\\w)(\\\\w)').search($.s, $2 + $1)", 'regex'),
    ("$.s =~ 'hel+o.*'", 'regex'), ("let(d => $) -> regex('(?P<first>\\\\w)(\\\\w+)').search($d.s, $first.value + str($d.n))", 'regex,system,closure'),
    ("regex('\\\\w+').searchAll($.s, $.len())", 'regex'), ("$.s.replace(regex('[aeiou]'), '*')", 'regex'),
    # math
    ('$.n * 2 + 1', 'math'), ('$.n mod 3', 'math'), ('abs(-$.n)', 'math'), ('max($.n, 3)', 'math'),
    ('$.a.sum()', 'math'), ('float($.n) / 2', 'math'), ('pow($.n, 2)', 'math'), ('bitwiseAnd($.n, 3)', 'math'),
    ('$.a.select($ * $ - 1).max()', 'math'), ('-$.n + $doc.n', 'math'), ('round(float($.n) / 3, 2)', 'math'),
    # date_time
    ('datetime(2020, 1, $.n).weekday', 'date_time'), ('(datetime(2020, 1, 1) + timespan(days => $.n)).day', 'date_time'),
    ('timespan(hours => $.n).hours', 'date_time'), ("datetime(2020, 1, 2, 3, 4, $.n).format('%S')", 'date_time'),
    ('(datetime(2020, 3, 1) - datetime(2020, 2, $.n)).days', 'date_time'),
    ('datetime(2020, 1, $.n) < datetime(2020, 1, 4)', 'date_time'),
    # system
    ('let(x => $.n, y => 2) -> $x * $y', 'system'), ('def(sq2, $ * $) -> sq2($.n)', 'system,def'),
    ('with($.n, 2) -> $1 + $2', 'system'), ('[$.n, 2].unpack(a, b) -> $a - $b', 'system'),
    ('sq($.n)', 'system,def,sharedfn'), ('hostf($.n)', 'system,sharedfn'), ('$.a.select(sq($))', 'system,def,sharedfn'),
    ('$.a.select(hostf($)).sum()', 'system,sharedfn'), ('call(len, [$.a], {})', 'system'),
    ('lambda($ + 1)($.n)', 'system'), ('let(f => lambda($ * 3)) -> $.a.select($f($))', 'system'),
    ('def(tw, $ * 2) -> def(th, tw($) + $) -> th($.n)', 'system,def'),
    ('$.a.len().assert($ > 0)', 'system'), ('$.b?.x', 'system,error'),
    # branching / boolean / common
    ("switch($.n > 3 => 'big', true => 'small')", 'branching'), ('selectCase($.n > 9, $.n > 4).switchCase(a, b, c)', 'branching'),
    ('coalesce(null, $.n)', 'branching'), ("$.n > 3 and $.s = 'hello world' or false", 'boolean'),
    ('$.n in $.a', 'common'), ('not ($.n > 2)', 'boolean'), ('isInteger($.n)', 'common'),
    ('$.a.select(switch($ > 2 => $, true => 0))', 'branching'), ('$.n = $doc.n', 'common'),
    # yaqlized
    ('$obj.attr + $.n', 'yaqlized'), ('$obj.meth($.n)', 'yaqlized'), ('$obj.lst.select($ + $obj.attr)', 'yaqlized'),
    # errors are outcomes too
    ('$.a.first() / ($.n - $.n)', 'math,error'), ('nosuch($.n)', 'system,error'), ('$.a.select($.nosuch())', 'queries,error'),
    ("$.rows.groupBy($.k, $.v, $.nosuch())", 'queries,group,error'), ('[1, 2].unpack(a) -> $a', 'system,error'),
    # nested statements (well below the interpreter's recursion limit: near it the outcome depends on the frames the
    # harness itself adds)
    ('$.n' + ' + 1' * 40, 'deep'), ('(' * 120 + '$.n' + ')' * 120, 'deep'),
]


def make_obj():
    from yaql import yaqlization

    @yaqlization.yaqlize
    class Obj(object):
        def __init__(self):
            self.attr = 5
            self.lst = [1, 2]

        def meth(self, x):
            return x + self.attr
    return Obj()


# raw MUTABLE host values (part H): what a host stores in the prepared context without converting it
# (`context['hosts'] = [...]`; Context.__setitem__ does not convert), what a document is made of when the engine
# runs with yaql.convertInputData=False, what a host function returns.  Fresh equal objects per shared context.
HOSTVALS = {
    'hl_int': lambda: [3, 1, 2, 2, -1],
    'hl_str': lambda: ['delta', 'alpha', 'charlie', 'bravo'],
    'hl_rows': lambda: [{'k': 2, 'v': 'b'}, {'k': 1, 'v': 'a'}, {'k': 2, 'v': 'a'}],
    'hl_nested': lambda: [[3, 1, 2], [2, 1], []],
    'hl_pairs': lambda: [['b', [2, 1]], ['a', [1]]],
    'hl_sets': lambda: [{2, 1}, {3}],
    'hd_flat': lambda: {'b': 2, 'a': 1, 'c': 3},
    'hd_lists': lambda: {'x': [3, 1, 2], 'y': [2, 1], 'z': {'w': [9, 8]}},
    'hd_intkeys': lambda: {2: [2, 1], 1: {'x': [4, 3]}},
    'hs_int': lambda: {3, 1, 2},
    'hs_str': lambda: {'b', 'a'},
    'ht_lists': lambda: ([2, 1], [4, 3], {'k': [6, 5]}),
}


class World(object):
    """one engine, the library context, and a way to make the shared prepared context afresh"""

    def __init__(self, hostvals=False):
        import yaql
        self.yaql = yaql
        self.hostvals = hostvals
        if hostvals:
            # the sweep of part (H) spells every library function: bounded iterators / memory, as a host would configure
            # statements that would not end on their own (cycle(), generate(.., true, ..)) run on engines with bounded
            # iterators / memory; all the others on default engines (a bounded engine wraps every collection argument into
            # a limiting generator - the functions then never see the host's list itself)
            lim = {'yaql.limitIterators': 30, 'yaql.memoryQuota': 1000000}
            raw = {'yaql.convertInputData': False}
            mk = yaql.YaqlFactory(allow_delegates=True).create
            self.engines = {0: mk(), 'raw': mk(options=raw), 'lim': mk(options=lim), 'rawlim': mk(options=dict(lim, **raw))}
            self.engine = self.engines[0]
            self.engine_raw = self.engines['raw']
        else:
            self.engine = yaql.YaqlFactory(allow_delegates=True).create()
            self.engine_raw = None
        self.root = yaql.create_context(delegates=True)
        self.obj = make_obj()
        self.rawdoc = None

    def shared(self):
        """a fresh shared prepared context: frozen documents (their hashes not yet computed), host functions,
        a def'd function.  Returns the context threads make their children of."""
        from yaql.language import utils
        ctx = self.root.create_child_context()
        ctx['doc'] = utils.convert_input_data({'a': [1, 2, 3], 'n': 100, 'b': {'x': 10, 'y': [1]}})
        ctx['fd'] = utils.convert_input_data({'p': 1, 'q': [1, 2], 'r': {'s': 't'}})
        ctx['fd2'] = utils.convert_input_data({'p': 2, 'u': 'v'})
        ctx['rows'] = utils.convert_input_data([{'k': 1, 'v': 'one'}, {'k': 2, 'v': 'two'}, {'k': 4, 'v': 'four'}])
        ctx['hd'] = utils.FrozenDict([(HKey('a', 11), 1), (HKey('b', 12), (1, 2)), (HKey('c', 13), 'x')])
        ctx['hd2'] = utils.FrozenDict([(HKey('a', 11), 2), (HKey('d', 14), 3)])
        ctx['obj'] = self.obj
        ctx.register_function(lambda x: x * 2 + 1, name='hostf')
        ctx.register_function(lambda n: Src(range(n)), name='src')
        if self.hostvals:
            vals = dict((k, mk()) for k, mk in HOSTVALS.items())
            for k, v in vals.items():
                ctx[k] = v                           # Context.__setitem__ stores the object as it is
            # the same objects as a document for engines with yaql.convertInputData=False, and behind a host function
            self.rawdoc = vals
            ctx['hdoc'] = vals
            ctx.register_function(lambda name: vals[name], name='hv')
            ctx.register_function(lambda x: x, name='idf')
        ctx2 = self.engine('def(sq, $ * $)').evaluate(context=ctx)
        return ctx2


def canon(v):
    if isinstance(v, dict):
        return ['dict', sorted(([canon(k), canon(x)] for k, x in v.items()), key=repr)]
    if isinstance(v, (set, frozenset)):
        return ['set', sorted((canon(x) for x in v), key=repr)]
    if isinstance(v, (list, tuple)):
        return ['list', [canon(x) for x in v]]
    if isinstance(v, float):
        return ['float', repr(v)]
    if v is None or isinstance(v, (bool, int, str)):
        return v
    return ['obj', type(v).__name__, repr(v) if type(v).__module__ in ('datetime', 'builtins') else '']


_ADDR = re.compile(r'0x[0-9a-fA-F]{6,}')


def scrub(msg):
    """an exception message without memory addresses (`<function f at 0x7f..>`): they differ between two equal runs"""
    return _ADDR.sub('0x?', msg)


def outcome(f):
    try:
        return ['ret', canon(f())]
    except RecursionError:
        return ['raise', 'RecursionError', '']          # the message names whatever frame happened to be the last
    except Exception as e:  # noqa
        return ['raise', type(e).__name__, scrub(str(e))[:200]]


def attr_names(o):
    names = set(getattr(o, '__dict__', {}))
    for c in type(o).__mro__:
        sl = c.__dict__.get('__slots__', ())
        names |= set([sl] if isinstance(sl, str) else sl)
    return sorted(n for n in names if n not in ('__dict__', '__weakref__') and hasattr(o, n))


def fd_state(fd):
    ps = []
    for k, p in fd.parameters.items():
        ps.append((k, p.name, p.position, p.alias, type(p.value_type).__name__, repr(p.default)[:40]))
    return dict(id=id(fd), name=fd.name, is_method=fd.is_method, is_function=fd.is_function, no_kwargs=fd.no_kwargs,
                payload=id(fd.payload), params=ps, meta=sorted(repr(x)[:40] for x in (fd.meta or {}).items()),
                attrs=[(n, repr(getattr(fd, n))[:60]) for n in attr_names(fd)
                       if n not in ('is_method', 'is_function', 'name', 'parameters', 'payload', 'doc', 'no_kwargs', 'meta')])


def data_state(v, depth=0):
    from yaql.language import utils
    if isinstance(v, utils.FrozenDict):
        return ['fdict', sorted(([data_state(k, depth + 1), data_state(x, depth + 1)] for k, x in v._d.items()), key=repr)]
    if isinstance(v, (tuple, list)):
        return [type(v).__name__, [data_state(x, depth + 1) for x in v]]
    if isinstance(v, (set, frozenset)):
        return [type(v).__name__, sorted((data_state(x, depth + 1) for x in v), key=repr)]
    if isinstance(v, dict):
        return ['dict', sorted(([data_state(k, depth + 1), data_state(x, depth + 1)] for k, x in v.items()), key=repr)]
    if v is None or isinstance(v, (bool, int, str, float)):
        return repr(v)
    if isinstance(v, HKey):
        return 'HKey:' + v.name
    return ['obj', type(v).__name__, id(v), sorted((k, repr(x)[:60]) for k, x in getattr(v, '__dict__', {}).items())]


def snapshot(ctx, stop=None):
    """deep state of the context chain (down to, not including, `stop`): data, function sets, every field of
    every definition"""
    out = []
    c = ctx
    while c is not None and c is not stop:
        layer = dict(cls=type(c).__name__)
        if hasattr(c, '_data'):
            layer['data'] = sorted((k, data_state(v)) for k, v in c._data.items())
            layer['funcs'] = sorted((k, sorted((fd_state(fd) for fd in lst), key=lambda d: d['id'])) for k, lst in c._functions.items())
            layer['excl'] = sorted(c._exclusive_funcs)
        out.append(layer)
        c = c.parent
    return out


def snapshot_diff(a, b):
    if a == b:
        return None
    for i, (x, y) in enumerate(zip(a, b)):
        if x != y:
            for key in ('data', 'funcs', 'excl'):
                if x.get(key) != y.get(key):
                    xs, ys = x.get(key) or [], y.get(key) or []
                    if key == 'data':
                        # the variable whose value changed (a document that merely contains it is named last)
                        dx, dy = dict(xs), dict(ys)
                        names = sorted((n for n in set(dx) | set(dy) if dx.get(n) != dy.get(n)), key=lambda n: (n == '$hdoc', n))
                        n = names[0]
                        example = 'variable %s was %s, is now %s' % (n, repr(dx.get(n, '<unset>'))[:300], repr(dy.get(n, '<unset>'))[:300])
                        return dict(layer=i, what=key, attrs_only=False, example=example)
                    only = [e for e in ys if e not in xs][:2] + [e for e in xs if e not in ys][:2]
                    # a definition that only gained attributes (no listed field changed)
                    attrs_only = key == 'funcs' and _strip_attrs(xs) == _strip_attrs(ys)
                    return dict(layer=i, what=key, attrs_only=attrs_only, example=repr(only)[:400])
    return dict(layer=-1, what='chain length', attrs_only=False, example='')


def _strip_attrs(funcs):
    return [(k, [dict((a, b) for a, b in d.items() if a != 'attrs') for d in lst]) for k, lst in funcs]


def stmt_state(stmt):
    """attribute names of every expression node of a parsed statement"""
    from yaql.language import expressions
    out = []

    def rec(n):
        if isinstance(n, expressions.Expression):
            out.append((type(n).__name__, attr_names(n)))
            for v in [getattr(n, a) for a in attr_names(n)]:
                if isinstance(v, (tuple, list)):
                    for x in v:
                        rec(x)
                else:
                    rec(v)
    rec(stmt)
    return out


# ---------------------------------------------------------------------- ownership hooks (E)

class Owners(object):
    """tags contexts / lazy objects with their creating thread and records writes by another scheduled thread"""

    def __init__(self):
        self.violations = []
        self.undo = []
        self.writes = dict(context=0, lazy=0)

    def install(self):
        from yaql.language import contexts
        from yaql.standard_library import queries
        me = self
        ident = threading.get_ident

        def scheduled():
            s = CUR[0]
            return s is not None and getattr(s.local, 'i', None) is not None

        def wrap_init(cls):
            orig = cls.__init__

            def __init__(self, *a, **k):
                object.__setattr__(self, '_c18_owner', ident())
                orig(self, *a, **k)
            cls.__init__ = __init__
            me.undo.append(lambda: setattr(cls, '__init__', orig))

        def wrap_method(cls, name, kind):
            orig = getattr(cls, name)

            def method(self, *a, **k):
                if scheduled():
                    me.writes[kind] += 1
                    if getattr(self, '_c18_owner', None) != ident():
                        me.violations.append((kind, cls.__name__ + '.' + name, repr(a[:1])[:80]))
                return orig(self, *a, **k)
            setattr(cls, name, method)
            me.undo.append(lambda: setattr(cls, name, orig))

        wrap_init(contexts.Context)
        for m in ('__setitem__', '__delitem__', 'register_function', 'delete_function'):
            wrap_method(contexts.Context, m, 'context')
        for cls in (queries.OrderingIterable, queries.GroupAggregator):
            wrap_init(cls)

            def __setattr__(self, k, v, cls=cls):
                if k != '_c18_owner' and scheduled():
                    me.writes['lazy'] += 1
                    if getattr(self, '_c18_owner', None) != ident():
                        me.violations.append(('lazy', cls.__name__ + '.' + k, ''))
                object.__setattr__(self, k, v)
            cls.__setattr__ = __setattr__
            me.undo.append(lambda cls=cls: delattr(cls, '__setattr__'))

    def uninstall(self):
        for u in reversed(self.undo):
            try:
                u()
            except Exception:  # noqa
                pass
        self.undo = []


# ====================================================================== (A) statement schedules

class StmtRunner(object):
    def __init__(self, owners=None, hostvals=False):
        self.world = World(hostvals)
        self.base_cache = {}
        self.step_cache = {}
        self.owners = owners
        self.root_snap = snapshot(self.world.root)

    def root_diff(self):
        """the library layers of the shared chain are the same objects for every case: compared once per case"""
        return snapshot_diff(self.root_snap, snapshot(self.world.root))

    def baseline(self, text, data_idx):
        """the statement evaluated alone: fresh engine-parse, fresh equal shared context, no other thread"""
        key = (text, data_idx)
        if key not in self.base_cache:
            w = self.world
            ctx = w.shared()
            engine, data = self.route(data_idx)
            self.base_cache[key] = outcome(lambda: engine(text).evaluate(data=data, context=ctx.create_child_context()))
        return self.base_cache[key]

    def route(self, d):
        """(engine, document) of a thread: `d` = index of one of DATAS (a private copy, default engine), or 'raw' = the
        raw document of the CURRENT shared context - the same mutable objects for every thread - with the engine whose
        yaql.convertInputData is off; 'lim' / 'rawlim' = the same two on engines with bounded iterators and memory"""
        w = self.world
        if d in ('raw', 'rawlim'):
            return w.engines[d], w.rawdoc
        if d == 'lim':
            return w.engines[d], json.loads(json.dumps(DATAS[0]))
        return w.engine, json.loads(json.dumps(DATAS[d]))

    def bodies(self, texts, datas, styles, ctx):
        w = self.world
        parsed = {}
        for t, d, st in zip(texts, datas, styles):
            if st == 'shared' and (t, d if not isinstance(d, int) else 0) not in parsed:
                try:
                    parsed[(t, d if not isinstance(d, int) else 0)] = self.route(d)[0](t)
                except Exception:  # noqa
                    parsed[(t, d if not isinstance(d, int) else 0)] = None
        out = []
        for t, d, st in zip(texts, datas, styles):
            engine, data = self.route(d)

            def body(t=t, st=st, data=data, engine=engine, pk=(t, d if not isinstance(d, int) else 0)):
                child = ctx.create_child_context()
                stmt = parsed.get(pk) if st == 'shared' else None
                if stmt is None:
                    stmt = engine(t)
                return canon(stmt.evaluate(data=data, context=child))
            out.append(body)
        return out, parsed

    def steps(self, text, d):
        """scheduling points a lone evaluation passes (on a fresh shared context)"""
        key = (text, d)
        if key not in self.step_cache:
            ctx = self.world.shared()
            bodies, _ = self.bodies([text], [d], ['shared'], ctx)
            s = Scheduler(bodies, timeout=30.0)
            CUR[0] = s
            try:
                s.run([])
            finally:
                CUR[0] = None
            if s.hung:
                raise HarnessProblem('lone evaluation of %r did not finish' % text)
            self.step_cache[key] = s.steps[0]
        return self.step_cache[key]

    def run(self, texts, datas, styles, schedule, full=False):
        """-> (failure or None, scheduler).  `full`: snapshot the library layers of the chain too"""
        ctx = self.world.shared()
        stop = None if full else self.world.root
        before = snapshot(ctx, stop)
        bodies, parsed = self.bodies(texts, datas, styles, ctx)
        nodes_before = dict((t, stmt_state(p)) for t, p in parsed.items() if p is not None)
        if self.world.hostvals:
            case_extra = dict(hostvals=True)
        else:
            case_extra = {}
        s = Scheduler(bodies, timeout=30.0)
        if self.owners:
            nv = len(self.owners.violations)
        CUR[0] = s
        try:
            results = s.run(schedule)
        finally:
            CUR[0] = None
        if s.hung:
            raise HarnessProblem('threads did not finish: texts %r schedule %r' % (texts, schedule))
        trace = list(s.trace)
        case = dict(kind='stmt', texts=texts, datas=datas, styles=styles, schedule=trace, **case_extra)
        for i, (t, d) in enumerate(zip(texts, datas)):
            want = self.baseline(t, d)
            got = list(results[i]) if results[i] is not None else None
            if got != want:
                return dict(kind='oracle', key='interference',
                            what='thread %d evaluating %r on data #%s under schedule %r (other threads: %r) got %r; '
                                 'evaluated alone: %r' % (i, t, d, trace, [x for j, x in enumerate(texts) if j != i], got, want),
                            case=case), s
        diff = snapshot_diff(before, snapshot(ctx, stop))
        if diff is not None:
            return dict(kind='mismatch' if diff['attrs_only'] else 'oracle',
                        key='definition-written' if diff['attrs_only'] else 'shared-context-changed',
                        what='shared context chain differs after the threads finished (texts %r, schedule %r): layer %d %s: %s'
                             % (texts, trace, diff['layer'], diff['what'], diff['example']), case=case), s
        for t, p in parsed.items():
            if p is not None and stmt_state(p) != nodes_before[t]:
                return dict(kind='mismatch', key='statement-written',
                            what='expression nodes of the shared parsed statement %r gained/lost attributes during evaluation: %r'
                                 % (t[0], [x for x in stmt_state(p) if x not in nodes_before[t]][:3]), case=case), s
        if self.owners and len(self.owners.violations) > nv:
            v = self.owners.violations[nv]
            return dict(kind='mismatch', key='not-owner-write',
                        what='%s written by a thread that did not create it: %s %s (texts %r, schedule %r)' % (
                            v[0], v[1], v[2], texts, trace), case=case), s
        return None, s


def preemption_schedules(counts, max_preempt=3, limit=400, rng=None):
    """schedules with at most `max_preempt` preemptions: a thread runs for a while, is preempted in favour of
    another one, ...; after the last preemption the running thread and then the others (index order) run to
    completion.  All of them when the traces are short, otherwise every run-to-completion order plus a seeded
    sample (who starts, where each preemption falls, who takes over)."""
    n = len(counts)
    total = sum(counts)
    out = []
    seen = set()

    def add(s):
        t = tuple(s)
        if t not in seen and len(s) == total:
            seen.add(t)
            out.append(list(s))

    def finish(rem, cur):
        sch = []
        for j in [cur] + [x for x in range(n) if x != cur]:
            sch += [j] * rem[j]
        return sch

    if total <= 14:
        def rec(prefix, rem, cur, left):
            add(prefix + finish(rem, cur))
            if left == 0:
                return
            for run in range(0 if not prefix else 1, rem[cur]):
                for nxt in range(n):
                    if nxt == cur or rem[nxt] == 0:
                        continue
                    r2 = list(rem)
                    r2[cur] -= run
                    rec(prefix + [cur] * run, r2, nxt, left - 1)
        for first in range(n):
            rec([], list(counts), first, max_preempt)
        if len(out) > limit:
            if rng is not None:
                rng.shuffle(out)
            out = out[:limit]
        return out
    for perm in itertools.islice(itertools.permutations(range(n)), 24):
        add(finish_order(counts, perm))
    rng = rng or common.make_rng(0, 'preempt')
    tries = 0
    while len(out) < limit and tries < limit * 20:
        tries += 1
        rem = list(counts)
        cur = rng.randrange(n)
        sch = []
        for _ in range(rng.randrange(1, max_preempt + 1)):
            others = [j for j in range(n) if j != cur and rem[j]]
            if rem[cur] <= 1 or not others:
                break
            r = rng.randrange(1, rem[cur])
            sch += [cur] * r
            rem[cur] -= r
            cur = rng.choice(others)
        add(sch + finish(rem, cur))
    return out


def finish_order(counts, perm):
    sch = []
    for j in perm:
        sch += [j] * counts[j]
    return sch


def shrink_stmt(runner, f):
    """fewer threads, then a shorter schedule prefix (the scheduler finishes the rest round-robin)"""
    case = f['case']
    best = f
    texts, datas, styles, schedule = case['texts'], case['datas'], case['styles'], case['schedule']
    # drop threads
    changed = True
    while changed and len(texts) > 2:
        changed = False
        for drop in range(len(texts)):
            t2 = [x for j, x in enumerate(texts) if j != drop]
            d2 = [x for j, x in enumerate(datas) if j != drop]
            s2 = [x for j, x in enumerate(styles) if j != drop]
            sch2 = [(x if x < drop else x - 1) for x in schedule if x != drop]
            try:
                g, _ = runner.run(t2, d2, s2, sch2)
            except HarnessProblem:
                g = None
            if g is not None and g['kind'] == best['kind'] and g['key'] == best['key']:
                best, texts, datas, styles, schedule = g, t2, d2, s2, g['case']['schedule']
                changed = True
                break
    for cut in range(0, len(schedule)):
        try:
            g, _ = runner.run(texts, datas, styles, schedule[:cut])
        except HarnessProblem:
            break
        if g is not None and g['kind'] == best['kind'] and g['key'] == best['key']:
            g['case']['schedule'] = schedule[:cut]
            g['case']['note'] = 'after the listed prefix the scheduler lets the threads finish in index order'
            return g
    return best


def part_a(seed, tier, share, nshares, deadline):
    """run by each worker process on its share of the cases; returns a JSON-able summary"""
    rng = common.make_rng(seed, 'C18-A-%d' % share)
    owners = Owners()
    owners.install()
    uninstall = install_call_point()
    stats = dict(cases=0, schedules_exhaustive=0, schedules_preempt=0, schedules_random=0, threads={}, tags={},
                 outcomes={}, steps_hist={}, switches=0, ctx_writes=0, lazy_writes=0, styles={})
    fails, sigs, samples, soft = [], [], [], {}
    try:
        R = StmtRunner(owners)
        pool = list(POOL)

        def one(texts, datas, styles, schedule, kind):
            f, s = R.run(texts, datas, styles, schedule)
            stats['schedules_' + kind] += 1
            sw = sum(1 for a, b in zip(s.trace, s.trace[1:]) if a != b)
            stats['switches'] += sw
            sigs.append([common.digest([texts, datas, styles, s.trace]), len(set(zip(texts, datas))) > 1 and sw >= 2])
            if len(samples) < 2:
                samples.append(dict(kind='stmt', texts=texts, datas=datas, styles=styles, schedule=s.trace))
            if f is not None and f['kind'] == 'oracle':
                fails.append(shrink_stmt(R, f))
                return False
            if f is not None:              # the tie is broken but no evaluation returned a wrong result: keep searching
                if f['key'] not in soft:
                    soft[f['key']] = f
            return True

        def account(texts, datas, styles, counts):
            stats['cases'] += 1
            stats['threads'][str(len(texts))] = stats['threads'].get(str(len(texts)), 0) + 1
            for t in texts:
                for tag in dict(POOL)[t].split(','):
                    stats['tags'][tag] = stats['tags'].get(tag, 0) + 1
            for t, d in zip(texts, datas):
                o = R.baseline(t, d)
                k = o[0] if o[0] == 'ret' else o[1]
                stats['outcomes'][k] = stats['outcomes'].get(k, 0) + 1
            for st in styles:
                stats['styles'][st] = stats['styles'].get(st, 0) + 1
            b = str(min(sum(counts) // 10 * 10, 100))
            stats['steps_hist'][b] = stats['steps_hist'].get(b, 0) + 1

        ex_limit = 10 if tier == 'quick' else 12
        ncases = (150 if tier == 'quick' else 2500)
        # every pool statement appears at least once per run over the shares: walk the pool cyclically
        idx = list(range(len(pool)))
        rng.shuffle(idx)
        ci = 0
        while ci < ncases and not any(f['kind'] == 'oracle' for f in fails) and time.time() < deadline:
            ci += 1
            k = rng.choice([2, 2, 2, 3, 3, 4])
            mode = rng.random()
            first = pool[idx[(ci * nshares + share) % len(idx)]][0]
            if mode < 0.35:
                texts = [first] * k                       # the same parsed statement in every thread
            elif mode < 0.65:
                # feature-affine: the other threads run statements that share a tag (ordering, group, memorize,
                # hash, def, regex, ...) with the first one, so that the same stateful machinery runs concurrently
                tag = rng.choice(dict(pool)[first].split(','))
                mates = [t for t, tags in pool if tag in tags.split(',')]
                texts = [first] + [rng.choice(mates) for _ in range(k - 1)]
            else:
                texts = [first] + [rng.choice(pool)[0] for _ in range(k - 1)]
            datas = [rng.randrange(len(DATAS)) for _ in texts]
            if mode < 0.35 and rng.random() < 0.5:
                datas = [datas[0]] + [(datas[0] + 1 + j) % len(DATAS) for j in range(k - 1)]
            styles = [rng.choice(['shared', 'shared', 'own', 'own']) for _ in texts]
            if mode < 0.35 and rng.random() < 0.7:
                styles = ['shared'] * k               # ONE parsed statement object in all threads
                if len(set(datas)) == 1:
                    datas = [(datas[0] + j) % len(DATAS) for j in range(k)]
            counts = [R.steps(t, d) for t, d in zip(texts, datas)]
            account(texts, datas, styles, counts)
            total = sum(counts)
            if total <= ex_limit and len(texts) <= 3:
                alls = list(sched.interleavings(counts))
                if len(alls) > 120:
                    rng.shuffle(alls)
                    alls = alls[:120]
                for sc in alls:
                    if not one(texts, datas, styles, sc, 'exhaustive'):
                        break
            elif total <= 60:
                for sc in preemption_schedules(counts, 3, 24 if tier == 'quick' else 80, rng):
                    if not one(texts, datas, styles, sc, 'preempt'):
                        break
                for _ in range(4):
                    sc = [i for i, c in enumerate(counts) for _ in range(c)]
                    rng.shuffle(sc)
                    if not one(texts, datas, styles, sc, 'random'):
                        break
            else:
                for j in range(8 if tier == 'quick' else 20):
                    sc = [i for i, c in enumerate(counts) for _ in range(c)]
                    if j % 2:
                        rng.shuffle(sc)
                    else:               # bursty: blocks of random length
                        sc = []
                        rem = list(counts)
                        while any(rem):
                            i = rng.choice([x for x in range(len(rem)) if rem[x]])
                            b = min(rem[i], rng.randrange(1, 9))
                            sc += [i] * b
                            rem[i] -= b
                    if not one(texts, datas, styles, sc, 'random'):
                        break
            if not fails:
                diff = R.root_diff()
                if diff is not None:
                    R.root_snap = snapshot(R.world.root)
                    fails.append(dict(kind='mismatch' if diff['attrs_only'] else 'oracle',
                                      key='definition-written' if diff['attrs_only'] else 'shared-context-changed',
                                      what='the library layers of the shared context chain changed while evaluating %r: layer %d %s: %s'
                                           % (texts, diff['layer'], diff['what'], diff['example']),
                                      case=dict(kind='stmt', texts=texts, datas=datas, styles=styles, schedule=[], full=True)))
        stats['ctx_writes'] = owners.writes['context']
        stats['lazy_writes'] = owners.writes['lazy']
        stats['process_state_changed'] = 1 if PROC['changed'] else 0
        if PROC['changed'] and not fails:
            # no evaluation returned a wrong result in the schedules tried, but evaluations change process-wide
            # interpreter settings while they run - state every other thread lives under: the isolation argument
            # (C18.isolation: steps write only private state) no longer applies
            soft.setdefault('process-state', dict(
                kind='mismatch', key='process-state',
                what='an evaluation changed process-wide interpreter state while running (seen at a function dispatch): %r'
                     % (PROC['changed'],),
                case=dict(kind='stmt', texts=[pool[0][0]], datas=[0], styles=['plain'], schedule=[], full=True)))
    finally:
        uninstall()
        owners.uninstall()
    fails += [f for f in soft.values()]
    return dict(stats=stats, fails=fails, sigs=sigs, samples=samples)


# ====================================================================== (F) line-granularity schedules

def install_line_points():
    """every LINE event of code in the yaql package becomes a scheduling point (sys.monitoring, Python >= 3.12):
    a deterministic, replayable refinement of the dispatch granularity - what the free-running stress only samples"""
    mon = getattr(sys, 'monitoring', None)
    if mon is None:
        return None
    ydir = os.path.join(os.path.realpath(common.REPO), 'yaql') + os.sep
    tool = next((i for i in (3, 4, 2, 1) if mon.get_tool(i) is None), None)
    if tool is None:
        return None

    ours = {}

    def on_line(code, line):
        fn = code.co_filename
        y = ours.get(fn)
        if y is None:
            y = ours[fn] = fn[:1] != '<' and os.path.realpath(fn).startswith(ydir)
        if not y:
            return mon.DISABLE
        _point()
    mon.use_tool_id(tool, 'c18-lines')
    mon.register_callback(tool, mon.events.LINE, on_line)
    mon.set_events(tool, mon.events.LINE)

    def undo():
        mon.set_events(tool, 0)
        mon.register_callback(tool, mon.events.LINE, None)
        mon.free_tool_id(tool)
    return undo


def expand_blocks(blocks):
    sc = []
    for i, c in blocks:
        sc += [i] * c
    return sc


def to_blocks(trace):
    out = []
    for i in trace:
        if out and out[-1][0] == i:
            out[-1][1] += 1
        else:
            out.append([i, 1])
    return out


def part_f(seed, tier, deadline):
    rng = common.make_rng(seed, 'C18-F')
    stats = dict(cases=0, schedules=0, steps=0, switches=0, threads={}, tags={})
    fails, sigs, samples, soft = [], [], [], {}
    undo = install_line_points()
    if undo is None:
        return dict(stats=dict(skipped='sys.monitoring unavailable'), fails=[], sigs=[], samples=[])
    owners = Owners()
    owners.install()
    try:
        R = StmtRunner(owners)
        pool = list(POOL)
        n = 0
        while time.time() < deadline and not fails:
            n += 1
            k = rng.choice([2, 2, 2, 3])
            first = rng.choice(pool)[0]
            if rng.random() < 0.6:
                texts = [first] * k
                styles = ['shared'] * k
            else:
                tag = rng.choice(dict(pool)[first].split(','))
                mates = [t for t, tags in pool if tag in tags.split(',')]
                texts = [first] + [rng.choice(mates) for _ in range(k - 1)]
                styles = [rng.choice(['shared', 'own']) for _ in texts]
            d0 = rng.randrange(len(DATAS))
            datas = [(d0 + j) % len(DATAS) for j in range(k)]
            stats['cases'] += 1
            stats['threads'][str(k)] = stats['threads'].get(str(k), 0) + 1
            for t in texts:
                for tag in dict(POOL)[t].split(','):
                    stats['tags'][tag] = stats['tags'].get(tag, 0) + 1
            for rep in range(3):
                blocks = []
                burst = rng.choice([[1, 1, 2, 3], [1, 2, 3, 5, 8, 20], [5, 20, 50, 200], [1, 1, 2, 3, 5, 8, 20, 50, 200]])
                for _ in range(1500):
                    blocks.append([rng.randrange(k), rng.choice(burst)])
                f, s = R.run(texts, datas, styles, expand_blocks(blocks))
                stats['schedules'] += 1
                stats['steps'] += len(s.trace)
                sw = sum(1 for a, b in zip(s.trace, s.trace[1:]) if a != b)
                stats['switches'] += sw
                sigs.append([common.digest([texts, datas, styles, to_blocks(s.trace)]), sw >= 2])
                if f is not None:
                    f['case'] = dict(kind='line', texts=texts, datas=datas, styles=styles, blocks=to_blocks(f['case']['schedule']))
                    f['what'] = f['what'].replace('under schedule %r' % (s.trace,), 'under the line-granularity schedule of the replay file')
                    if f['kind'] == 'oracle':
                        fails.append(shrink_line(R, f))
                        break
                    soft.setdefault(f['key'], f)
        stats['ctx_writes'] = owners.writes['context']
    finally:
        owners.uninstall()
        undo()
    fails += list(soft.values())
    for f in fails:
        f['what'] = f['what'][:1500]
    return dict(stats=stats, fails=fails, sigs=sigs, samples=samples)


def shrink_line(R, f):
    """shortest prefix of the schedule (then: everybody finishes in index order) that still fails, by bisection"""
    case = f['case']
    full = expand_blocks(case['blocks'])
    lo, hi = 0, len(full)
    best = f
    for _ in range(18):
        if hi - lo <= 1:
            break
        mid = (lo + hi) // 2
        try:
            g, s = R.run(case['texts'], case['datas'], case['styles'], full[:mid])
        except HarnessProblem:
            break
        if g is not None and g['kind'] == 'oracle':
            hi = mid
            g['case'] = dict(kind='line', texts=case['texts'], datas=case['datas'], styles=case['styles'], blocks=to_blocks(full[:mid]),
                             note='after the listed blocks the threads finish in index order')
            g['what'] = g['what'].replace('under schedule %r' % (s.trace,), 'under the line-granularity schedule of the replay file')
            best = g
        else:
            lo = mid
    return best


def merge_stats(into, st):
    for k, v in st.items():
        if isinstance(v, dict):
            d = into.setdefault(k, {})
            for a, b in v.items():
                d[a] = d.get(a, 0) + b
        else:
            into[k] = into.get(k, 0) + v


# ====================================================================== (B) the yaql.eval path

EVAL_TEXTS = ['$.n * 2 + 1', '$.a.orderBy($).take(2)', '$.s.toUpper()', '$.rows.groupBy($.k, $.v, $.len())',
              '$.a.select($ + 1).sum()', 'let(x => $.n) -> $x * $x', "regex('l+').search($.s)", '$.a.where($ >', '$.nosuch()']


def install_eval_points():
    import yaql
    from yaql.language import factory
    undo = []
    o1 = factory.YaqlFactory.create

    def create(self, *a, **k):
        _point()
        return o1(self, *a, **k)
    factory.YaqlFactory.create = create
    undo.append(lambda: setattr(factory.YaqlFactory, 'create', o1))
    o2 = factory.YaqlEngine.__call__

    def engine_call(self, *a, **k):
        _point()
        return o2(self, *a, **k)
    factory.YaqlEngine.__call__ = engine_call
    undo.append(lambda: setattr(factory.YaqlEngine, '__call__', o2))
    o3 = yaql.create_context

    def create_context(*a, **k):
        _point()
        return o3(*a, **k)
    yaql.create_context = create_context
    undo.append(lambda: setattr(yaql, 'create_context', o3))
    return lambda: [u() for u in reversed(undo)]


def reset_eval_caches():
    import yaql
    yaql._cached_engine = None
    yaql._cached_expressions = {}
    yaql._default_context = None


def eval_outcome(text, d):
    import yaql
    return outcome(lambda: yaql.eval(text, data=json.loads(json.dumps(DATAS[d]))))


EVAL_BASE = {}


def eval_baseline(text, d):
    """yaql.eval alone, on fresh module caches"""
    if (text, d) not in EVAL_BASE:
        reset_eval_caches()
        EVAL_BASE[(text, d)] = eval_outcome(text, d)
    return EVAL_BASE[(text, d)]


def eval_case(texts, datas, schedule, warm, level='cold'):
    """level: 'cold' = all three module caches empty; 'engine' = the engine is there; 'context' = engine and
    default context are there (only the expression cache is empty, plus whatever `warm` puts into it)"""
    import yaql
    want = [eval_baseline(t, d) for t, d in zip(texts, datas)]
    if level == 'cold' or yaql._cached_engine is None or yaql._default_context is None:
        reset_eval_caches()
        if level != 'cold':
            eval_outcome('1', 0)
    yaql._cached_expressions = {}
    if level == 'engine':
        yaql._default_context = None
    if warm:
        for t in warm:
            eval_outcome(t, 0)
    bodies = [(lambda t=t, d=d: canon(yaql.eval(t, data=json.loads(json.dumps(DATAS[d]))))) for t, d in zip(texts, datas)]
    s = Scheduler(bodies, timeout=60.0)
    CUR[0] = s
    try:
        results = s.run(schedule)
    finally:
        CUR[0] = None
    if s.hung:
        raise HarnessProblem('yaql.eval threads did not finish: %r %r' % (texts, schedule))
    case = dict(kind='eval', texts=texts, datas=datas, schedule=list(s.trace), warm=warm, level=level)
    for i, (t, d) in enumerate(zip(texts, datas)):
        w = want[i]
        got = list(results[i]) if results[i] is not None else None
        if got != w:
            return dict(kind='oracle', key='interference',
                        what='yaql.eval(%r, data #%d) in thread %d under schedule %r (others %r, warm %r, caches %s) returned %r; '
                             'alone on fresh caches: %r' % (t, d, i, s.trace, texts, warm, level, got, w), case=case), s
    # what the concurrent phase left in the module caches must serve later callers correctly
    for t, d in sorted(set(zip(texts, datas))):
        got = eval_outcome(t, d)
        if got != eval_baseline(t, d):
            return dict(kind='oracle', key='interference',
                        what='after threads evaluated %r under schedule %r (caches %s), a later yaql.eval(%r, data #%d) returns %r; '
                             'on fresh caches: %r' % (texts, s.trace, level, t, d, got, eval_baseline(t, d)), case=case), s
    # model assumption: the expression cache holds, under each text, the parse of that text
    fresh = EVAL_BASE.get('engine') or yaql.YaqlFactory().create()
    EVAL_BASE['engine'] = fresh
    from yaql.language import expressions
    for t, e in list(yaql._cached_expressions.items()):
        if not isinstance(e, expressions.Statement) or str(e) != str(fresh(t)):
            return dict(kind='mismatch', key='eval-cache-entry',
                        what='_cached_expressions[%r] is %r after schedule %r; the model expects the parse of the text (%r)' % (
                            t, str(e)[:120], s.trace, str(fresh(t))), case=case), s
    return None, s


# ====================================================================== (C) correspondence with the Lean model

AGGS = ['none', 'sum', 'legacy', 'head2', 'flaky']
SELS = ['fst', 'snd', 'sum']


def py_sel(name):
    return {'fst': lambda r: r[0], 'snd': lambda r: r[1], 'sum': lambda r: r[0] + r[1]}[name]


def py_agg(name):
    from yaql.language import exceptions

    def nomatch():
        return exceptions.NoMatchingMethodException('agg', None)

    def f(x):
        is_item = isinstance(x, tuple)        # (key, value_list) = the 1.1.1 calling style
        if name == 'sum':
            if is_item:
                raise nomatch()
            return sum(x)
        if name == 'legacy':
            if is_item:
                return [x[0], sum(x[1])]
            if len(x) < 2:
                raise IndexError('index out of range')
            raise nomatch()
        if name == 'head2':
            if is_item:
                return [x[0], len(x[1])]
            return list(x[:2])
        if name == 'flaky':
            if is_item:
                return [x[0], sum(x[1])]
            if len(x) == 2:
                return list(x[:2])
            raise nomatch()
        raise TypeError(name)
    return None if name == 'none' else f


class FakeParsed(object):
    def __init__(self, text):
        self.text = text

    def evaluate(self, data=None, context=None):
        return ['evald', int(self.text), 1 if context is not None else 0]


class FakeEngine(object):
    def __call__(self, text):
        _point()
        return FakeParsed(text)


class FakeFactory(object):
    def create(self):
        _point()
        return FakeEngine()


class FakeCtx(object):
    def create_child_context(self):
        return self


def fake_create_context():
    _point()
    return FakeCtx()


def gen_program(rng, npairs, nfuncs, size):
    """a thread program over the model's operations (refs to its own objects only)"""
    ops = []
    own = []          # own objects: ['ordering'] | ['agg'] | ['memo', number of iterator instances]
    n = {'tiny': rng.randrange(1, 4), 'mid': rng.randrange(3, 8), 'long': rng.randrange(8, 16)}[size]
    for _ in range(n):
        orderings = [i for i, o in enumerate(own) if o[0] == 'ordering']
        aggs = [i for i, o in enumerate(own) if o[0] == 'agg']
        memos = [i for i, o in enumerate(own) if o[0] == 'memo']
        choices = [('orderBy', 2), ('memorize', 2), ('aggNew', 2), ('eval', 2)]
        if npairs:
            choices.append(('hash', 4))
        if nfuncs:
            choices.append(('call', 2))
        if orderings:
            choices += [('thenBy', 3), ('iterate', 3)]
        if memos:
            choices += [('memoIter', 2), ('memoNext', 6)]
        if aggs:
            choices.append(('aggCall', 6))
        kind = rng.choices([c for c, _ in choices], [w for _, w in choices])[0]
        if kind == 'hash':
            ops.append(['hash', rng.randrange(npairs)])
        elif kind == 'eval':
            ops.append(['eval', rng.randrange(3)])
        elif kind == 'call':
            ops.append(['call', rng.randrange(nfuncs), rng.randrange(-5, 20)])
        elif kind == 'orderBy':
            rows = [[rng.randrange(4), rng.randrange(4)] for _ in range(rng.randrange(0, 6))]
            ops.append(['orderBy', rows, rng.choice(SELS), rng.random() < 0.5])
            own.append(['ordering'])
        elif kind == 'thenBy':
            ops.append(['thenBy', ['own', rng.choice(orderings)], rng.choice(SELS), rng.random() < 0.5])
        elif kind == 'iterate':
            ops.append(['iterate', ['own', rng.choice(orderings)]])
        elif kind == 'memorize':
            ops.append(['memorize', [rng.randrange(10) for _ in range(rng.randrange(0, 4))]])
            own.append(['memo', 1])
        elif kind == 'memoIter':
            m = rng.choice(memos)
            ops.append(['memoIter', ['own', m]])
            own[m][1] += 1
        elif kind == 'memoNext':
            m = rng.choice(memos)
            ops.append(['memoNext', ['own', m], rng.randrange(own[m][1])])
        elif kind == 'aggNew':
            ops.append(['aggNew', rng.choice(AGGS), rng.random() < 0.7])
            own.append(['agg'])
        elif kind == 'aggCall':
            vals = [rng.randrange(-2, 5) for _ in range(rng.choice([0, 1, 2, 2, 2, 3]))]
            ops.append(['aggCall', ['own', rng.choice(aggs)], rng.randrange(5), vals])
    return ops


OBJ_SHARED = {}


class ObjWorld(object):
    """the real objects behind one model case"""

    def __init__(self, pairs_spec, funcs):
        import yaql
        from yaql.language import utils
        self.yaql = yaql
        self.utils = utils
        if 'engine' not in OBJ_SHARED:          # made before the stand-ins are installed
            raise HarnessProblem('install_obj_points() must run first')
        self.engine = OBJ_SHARED['engine']
        self.dicts = []
        self.pair_hashes = []
        for spec in pairs_spec:          # spec: list of (key name, key hash, value)
            d = utils.FrozenDict([(HKey(k, h), v) for k, h, v in spec])
            self.dicts.append(d)
            # one entry per scheduling point inside __hash__: `items()` looks the key up (hashes it: contributes
            # nothing to the xor), then hash((key, value)) hashes it again
            ph = []
            for k, v in d.items():                                             # main thread: no scheduling
                ph += [0, hash((k, v))]
            self.pair_hashes.append(ph)
        self.ctx = OBJ_SHARED['root'].create_child_context()
        self.funcs = funcs
        for i, (a, b) in enumerate(funcs):
            self.ctx.register_function((lambda x, a=a, b=b: a * x + b), name='f%d' % i)

    def body(self, prog, tid):
        from yaql.standard_library import queries
        from yaql.language import exceptions
        w = self

        def err(e):
            if isinstance(e, (exceptions.NoMatchingMethodException, exceptions.NoMatchingFunctionException)):
                return ['err', 'noMatching']
            if isinstance(e, IndexError):
                return ['err', 'indexError']
            if isinstance(e, TypeError):
                return ['err', 'typeError']
            if isinstance(e, exceptions.NoFunctionRegisteredException):
                return ['err', 'noMatching']
            raise e

        def run():
            own = []
            outs = []
            child = w.ctx.create_child_context()
            for n, op in enumerate(prog):
                k = op[0]
                if k == 'orderBy':
                    f = queries.order_by if op[3] else queries.order_by_descending
                    own.append(f(tuple(tuple(r) for r in op[1]), py_sel(op[2]), operator.lt, operator.gt))
                    outs.append(['made', len(own) - 1])
                elif k == 'thenBy':
                    f = queries.then_by if op[3] else queries.then_by_descending
                    f(own[op[1][1]], py_sel(op[2]), child)
                elif k == 'iterate':
                    outs.append(['rows', [list(r) for r in iter(own[op[1][1]])]])
                elif k == 'memorize':
                    it = w.utils.memorize(Src(op[1]), w.engine)
                    own.append([it])
                    outs.append(['made', len(own) - 1])
                elif k == 'memoIter':
                    insts = own[op[1][1]]
                    insts.append(iter(insts[0]))
                    outs.append(['made', len(insts) - 1])
                elif k == 'memoNext':
                    try:
                        outs.append(['val', next(own[op[1][1]][op[2]])])
                    except StopIteration:
                        outs.append(['stop'])
                elif k == 'aggNew':
                    own.append(queries.GroupAggregator(py_agg(op[1]), op[2]))
                    outs.append(['made', len(own) - 1])
                elif k == 'aggCall':
                    try:
                        r = own[op[1][1]]((op[2], list(op[3])))
                        if isinstance(r, tuple) and isinstance(r[1], list) and py_agg_is_item(own[op[1][1]]):
                            outs.append(['item', r[0], r[1]])
                        elif isinstance(r, tuple):
                            v = r[1]
                            outs.append(['group', r[0], ['seq', v] if isinstance(v, list) else ['scalar', v]])
                        else:
                            outs.append(['pair', r[0], r[1]])
                    except Exception as e:  # noqa
                        outs.append(err(e))
                elif k == 'hash':
                    outs.append(['val', w.dicts[op[1]].__hash__()])
                elif k == 'eval':
                    outs.append(w.yaql.eval(str(op[1])))
                elif k == 'call':
                    try:
                        outs.append(['val', child('f%d' % op[1], w.engine)(op[2])])
                    except Exception as e:  # noqa
                        outs.append(err(e))
                _point()            # the model needs one step per operation, and one to halt
            return outs
        return run


def py_agg_is_item(g):
    return g.aggregator is None


def model_case(cfg, pairs, funcs, progs, schedule):
    return dict(cfg=cfg, base=dict(pairs=pairs, funcs=[list(f) for f in funcs], heap=[], scratch=len(funcs)),
                cache=[], threads=[dict(ctx=i, prog=p) for i, p in enumerate(progs)], sched=schedule)


def install_obj_points():
    """points of part (C): runner.call entry; yaql.eval's factory / engine / default context replaced by cheap
    harness stand-ins whose entry is a scheduling point (the subject is the cache logic of yaql.eval itself)"""
    import yaql
    if 'engine' not in OBJ_SHARED:
        OBJ_SHARED['engine'] = yaql.YaqlFactory().create()
        OBJ_SHARED['root'] = yaql.create_context()
    un1 = install_call_point()
    o_f, o_c = yaql.YaqlFactory, yaql.create_context
    yaql.YaqlFactory = FakeFactory
    yaql.create_context = fake_create_context

    def undo():
        yaql.YaqlFactory, yaql.create_context = o_f, o_c
        un1()
        reset_eval_caches()
    return undo


def obj_case(rng, size):
    nd = rng.randrange(1, 3)
    pairs_spec = []
    for d in range(nd):
        npairs = rng.choice([0, 1, 1, 2]) if size == 'tiny' else rng.choice([0, 1, 2, 3, 4])
        pairs_spec.append([('k%d_%d' % (d, j), rng.randrange(1, 1 << 40), rng.choice([1, 'v', (1, 2), None, 2.5])) for j in range(npairs)])
    funcs = [(rng.randrange(1, 4), rng.randrange(0, 5)) for _ in range(rng.randrange(1, 3))]
    k = 2 if size == 'tiny' else rng.choice([2, 2, 3, 4])
    progs = [gen_program(rng, nd, len(funcs), size) for _ in range(k)]
    return dict(pairs_spec=pairs_spec, funcs=funcs, progs=progs)


def run_obj_case(case, schedule):
    reset_eval_caches()
    w = ObjWorld(case['pairs_spec'], case['funcs'])
    bodies = [w.body(p, i) for i, p in enumerate(case['progs'])]
    s = Scheduler(bodies, timeout=30.0)
    CUR[0] = s
    try:
        results = s.run(schedule)
    finally:
        CUR[0] = None
    if s.hung:
        raise HarnessProblem('object programs did not finish: %r' % (case,))
    hashes = [d._hash for d in w.dicts]
    return w, s, results, hashes


def obj_steps(case):
    out = []
    for i, p in enumerate(case['progs']):
        reset_eval_caches()
        w = ObjWorld(case['pairs_spec'], case['funcs'])
        s = Scheduler([w.body(p, 0)], timeout=30.0)
        CUR[0] = s
        try:
            s.run([])
        finally:
            CUR[0] = None
        out.append(s.steps[0])
    return out


# ====================================================================== run

def run(env, res):
    tier = env['tier']
    rng = common.make_rng(env['seed'], 'C18')
    t_start = time.time()
    budget = 75 if tier == 'quick' else 480
    deadline = t_start + budget

    def on_alarm(signum, frame):
        print('HARNESS-ERROR property=C18 watchdog: the run exceeded its time limit (scheduler deadlock?)')
        sys.stdout.flush()
        os._exit(2)
    signal.signal(signal.SIGALRM, on_alarm)
    signal.alarm(budget * 2 + 120)
    res.rule = ('(A) 2-4 threads x pool statements (every library module) x input documents in children of one shared '
                'prepared context, interleaved at runner.call / source.__next__ / key __hash__,__eq__ points: all '
                'interleavings for short traces, <=3-preemption systematic ones for medium, random for long; (B) yaql.eval '
                'with cold/warm module caches; (C) programs over the real lazy objects / FrozenDict hash / yaql.eval / '
                'dispatch vs the Lean machine under the same trace; distinct = distinct (statements, documents, styles, '
                'observed trace); (F) the same at line granularity; (H) every library function x collection parameter over raw '
                'mutable host lists / dicts / sets shared through the prepared context (variable, unconverted document, host '
                'function result), alone and 2-3 threads on the same object; non-trivial = at least two different (statement, document) '
                'pairs and >= 2 thread switches')
    hist = {}
    res.extra['histogram'] = hist
    stats_a = {}

    def report(f):
        res.fail(f['kind'], f['key'], f['what'], f['case'])

    try:
        if env['replay']:
            return replay(env, res, json.load(open(env['replay']))['case'])

        # ------------------------------------------------------------ (A)
        import multiprocessing
        nsh = 3
        a_deadline = t_start + (34 if tier == 'quick' else 260)
        ctx = multiprocessing.get_context('fork')
        pool = ctx.Pool(nsh + 1)
        try:
            jobs = [pool.apply_async(part_a, (env['seed'], tier, i, nsh, a_deadline)) for i in range(nsh)]
            fjob = pool.apply_async(part_f, (env['seed'], tier, a_deadline))
            # (H) runs here, in the parent, while the workers do (A) and (F)
            from props import c18lists
            hout = c18lists.part_h(env['seed'], tier, a_deadline - 2)
            outs = []
            for j in jobs:
                try:
                    outs.append(j.get(timeout=(a_deadline - time.time()) + 150))
                except multiprocessing.TimeoutError:
                    raise HarnessProblem('a worker of part (A) did not return (scheduler deadlock?)')
            try:
                fout = fjob.get(timeout=max(1, a_deadline - time.time()) + 150)
            except multiprocessing.TimeoutError:
                raise HarnessProblem('the worker of part (F) did not return (scheduler deadlock?)')
        finally:
            pool.terminate()
        hist['F_line_granularity'] = fout['stats']
        hist['H_shared_host_values'] = hout['stats']
        res.traces += fout['stats'].get('schedules', 0)
        res.traces += sum(hout['stats'].get(k, 0) for k in ('alone_checked', 'schedules_exhaustive', 'schedules_preempt', 'schedules_random'))
        for o in outs + [fout, hout]:
            if o is fout or o is hout:
                for sig, nt in o['sigs']:
                    res.case(sig, nontrivial=nt)
                for smp in o['samples'][:1]:
                    res.samples.append(smp)
                for f in o['fails']:
                    report(f)
                continue
            merge_stats(stats_a, o['stats'])
            for sig, nt in o['sigs']:
                res.case(sig, nontrivial=nt)
            for smp in o['samples']:
                if len(res.samples) < 3:
                    res.samples.append(smp)
            for f in o['fails']:
                report(f)
        res.traces += sum(stats_a.get(k, 0) for k in ('schedules_exhaustive', 'schedules_preempt', 'schedules_random'))
        hist['A_statements'] = stats_a
        if not hard(res):
            part_b(env, res, rng, hist, time.time() + (8 if tier == 'quick' else 45))
        if not hard(res):
            part_c(env, res, rng, hist, time.time() + (15 if tier == 'quick' else 90))
        if not hard(res):
            # (C2) the real order_by over Python lists shared by the threads vs Model/SharedList.lean under the same trace
            from props import c18lists
            c18lists.part_c2(env, res, rng, hist, time.time() + (4 if tier == 'quick' else 40))
        if not hard(res):
            part_d(env, res, rng, hist)
        if not hard(res):
            # (G) what evaluations write: generated programs of the C04 fragment on instrumented context classes, alone
            # and 2-4 at a time, against the store-passing evaluator model (props/evalstore.py)
            from props import evalstore
            evalstore.run(env, res, hist, ID, threads=True)
        # (E) the dynamic side of the generated table is part of (A): counted here
        hist['E_ownership'] = dict(context_writes_checked=stats_a.get('ctx_writes', 0),
                                   lazy_object_writes_checked=stats_a.get('lazy_writes', 0))
        gen = env.get('gen') or {}
        if gen.get('unknown') and not hard(res):
            directed(env, res, rng, gen, hist)
    except HarnessProblem as e:
        print('HARNESS-ERROR property=C18 %s' % e)
        sys.stdout.flush()
        os._exit(2)
    finally:
        signal.alarm(0)
    return res


def hard(res):
    return any(f.kind == 'oracle' for f in res.failures)


def part_b(env, res, rng, hist, deadline):
    tier = env['tier']
    n0 = len(res.failures)
    st = dict(cases=0, schedules=0, levels={}, warm=0, same_text=0, threads={})
    un1 = install_call_point()
    un2 = install_eval_points()
    try:
        n = 400 if tier == 'quick' else 6000
        soft = set()
        for ci in range(n):
            if hard(res) or time.time() > deadline:
                break
            k = rng.choice([2, 2, 3])
            if rng.random() < 0.6:
                texts = [rng.choice(EVAL_TEXTS)] * k
                st['same_text'] += 1
            else:
                texts = [rng.choice(EVAL_TEXTS) for _ in range(k)]
            d0 = rng.randrange(len(DATAS))
            datas = [(d0 + j) % len(DATAS) for j in range(k)] if rng.random() < 0.7 else [rng.randrange(len(DATAS)) for _ in texts]
            r = rng.random()
            # warm = expressions already in the cache when the threads start; most often the threads' own texts
            # (cached statements evaluated from a worker pool)
            warm = [] if r < 0.35 else sorted(set(texts)) if r < 0.8 else [rng.choice(EVAL_TEXTS)]
            level = 'cold' if ci % 12 == 0 else rng.choice(['engine', 'context', 'context'])
            st['levels'][level] = st['levels'].get(level, 0) + 1
            st['warm'] += bool(warm)
            st['cases'] += 1
            st['threads'][str(k)] = st['threads'].get(str(k), 0) + 1
            # the cache misses come first: systematic prefixes, then <=3-preemption and random schedules
            scheds = [[0, 1], [0, 1, 0, 1], [1, 0, 0, 1], [0, 1, 1, 0, 0], [0, 0, 1, 1, 1, 0], [1, 1, 0, 0, 0, 1, 1]]
            if k == 3:
                scheds += [[0, 1, 2], [0, 1, 2, 2, 1, 0], [2, 1, 0, 0, 1, 2, 1]]
            rng.shuffle(scheds)
            scheds = scheds[:2 if level == 'cold' else 4]
            if level != 'cold':
                for _ in range(6):
                    sc = []
                    for _ in range(rng.randrange(2, 12)):
                        sc += [rng.randrange(k)] * rng.randrange(1, 9)
                    scheds.append(sc)
            for sc in scheds:
                f, s = eval_case(texts, datas, sc, warm, level)
                st['schedules'] += 1
                res.traces += 1
                sw = sum(1 for a, b in zip(s.trace, s.trace[1:]) if a != b)
                res.case(('eval', tuple(texts), tuple(datas), tuple(s.trace), tuple(warm), level), nontrivial=sw >= 2,
                         sample=dict(kind='eval', texts=texts, datas=datas, schedule=s.trace, warm=warm, level=level) if st['schedules'] == 1 else None)
                if f is not None and (f['kind'] == 'oracle' or f['key'] not in soft):
                    soft.add(f['key'])
                    res.fail(f['kind'], f['key'], f['what'], f['case'])
                if f is not None and f['kind'] == 'oracle':
                    break
    finally:
        un2()
        un1()
        reset_eval_caches()
    hist['B_eval_path'] = st


def compare_obj(env, case, recs):
    """recs: [(world, trace, results, hashes)] of one case under several schedules -> failure dict or None.
    Asks the model with the observed traces (one request for the whole case)."""
    drv = env['driver']
    if drv is None or not recs:
        return None
    w0 = recs[0][0]
    reps = drv.ask({'p': 'C18', 'cases': [model_case({}, w0.pair_hashes, case['funcs'], case['progs'], list(tr))
                                          for _, tr, _, _ in recs]})['cases']
    solo = None
    for (w, trace, results, hashes), rep in zip(recs, reps):
        rcase = dict(kind='obj', case=case, schedule=list(trace))
        real = [list(r[1]) if r and r[0] == 'ret' else ['RAISED'] + list(r[1:]) for r in results]
        real = json.loads(json.dumps(real))
        # 1. the real threads vs the model under the same trace
        if rep['res'] != real or rep['wasted'] != 0:
            # does the property itself fail (real differs from what the real code returns alone)?  ask the real code
            if solo is None:
                solo = []
                for i, p in enumerate(case['progs']):
                    reset_eval_caches()
                    w2 = ObjWorld(case['pairs_spec'], case['funcs'])
                    s2 = Scheduler([w2.body(p, i)], timeout=30.0)
                    CUR[0] = s2
                    try:
                        r2 = s2.run([])
                    finally:
                        CUR[0] = None
                    solo.append(json.loads(json.dumps(list(r2[0][1]) if r2[0][0] == 'ret' else ['RAISED'] + list(r2[0][1:]))))
            for i in range(len(real)):
                if real[i] != solo[i]:
                    return dict(kind='oracle', key='interference',
                                what='object program of thread %d under schedule %r returned %r; alone it returns %r (programs %r)'
                                     % (i, trace, real[i], solo[i], case['progs']), case=rcase)
            return dict(kind='mismatch', key='model-vs-code',
                        what='model and real objects disagree under schedule %r: model %r (wasted steps %d), real %r, programs %r'
                             % (trace, rep['res'], rep['wasted'], real, case['progs']), case=rcase)
        # 2. the schedule-independent prediction (theorem objs_results)
        if rep['den'] != real:
            return dict(kind='mismatch', key='model-vs-code', what='den %r != real %r (programs %r)' % (rep['den'], real, case['progs']),
                        case=rcase)
        # 3. published hashes: complete, and equal to the model's entries
        model_hash = {}
        for k, v in reversed(rep['cache']):
            if k[0] == 'hash':
                model_hash[k[1]] = v
        for d, h in enumerate(hashes):
            full = 0
            for x in w.pair_hashes[d]:
                full ^= x
            if h is not None and h != full:
                return dict(kind='oracle', key='partial-hash-published',
                            what='FrozenDict #%d ended with _hash=%r, the xor of its pair hashes is %r (schedule %r)' % (d, h, full, trace),
                            case=rcase)
            if model_hash.get(d) != h:
                return dict(kind='mismatch', key='model-vs-code', what='cache entry of dict %d: model %r real %r' % (d, model_hash.get(d), h),
                            case=rcase)
        if not rep['baseSame'] or not all(rep['entries']):
            return dict(kind='mismatch', key='model-vs-code', what='model run left an unsound table: %r' % (rep['cache'],), case=rcase)
    return None


def part_c(env, res, rng, hist, deadline):
    tier = env['tier']
    st = dict(cases=0, schedules_exhaustive=0, schedules_preempt=0, schedules_random=0, ops={}, hash_pairs={}, threads={},
              outs={}, steps_hist={})
    undo = install_obj_points()
    n0 = len(res.failures)
    try:
        n = 400 if tier == 'quick' else 6000
        for ci in range(n):
            if len(res.failures) > n0 or time.time() > deadline:
                break
            case = obj_case(rng, ['tiny', 'mid', 'tiny', 'mid', 'long'][ci % 5])
            counts = obj_steps(case)
            st['cases'] += 1
            st['threads'][str(len(counts))] = st['threads'].get(str(len(counts)), 0) + 1
            for p in case['progs']:
                for op in p:
                    st['ops'][op[0]] = st['ops'].get(op[0], 0) + 1
            for spec in case['pairs_spec']:
                st['hash_pairs'][str(len(spec))] = st['hash_pairs'].get(str(len(spec)), 0) + 1
            total = sum(counts)
            b = str(min(total // 5 * 5, 60))
            st['steps_hist'][b] = st['steps_hist'].get(b, 0) + 1
            if total <= (11 if tier == 'quick' else 13) and len(counts) == 2:
                scheds = list(sched.interleavings(counts))
                kind = 'exhaustive'
            else:
                scheds = preemption_schedules(counts, 3, 14 if tier == 'quick' else 60, rng)
                kind = 'preempt'
            tagged = [(x, kind) for x in scheds]
            for _ in range(3):
                sc = [i for i, c in enumerate(counts) for _ in range(c)]
                rng.shuffle(sc)
                tagged.append((sc, 'random'))
            recs = []
            for sc, kd in tagged:
                w, s, results, hashes = run_obj_case(case, sc)
                st['schedules_' + kd] += 1
                res.traces += 1
                sw = sum(1 for a, b in zip(s.trace, s.trace[1:]) if a != b)
                res.case(('obj', common.digest(case), tuple(s.trace)), nontrivial=sw >= 2,
                         sample=dict(kind='obj', case=case, schedule=s.trace) if st['cases'] == 2 and not recs else None)
                recs.append((w, list(s.trace), results, hashes))
            for r in recs[0][2]:
                for o in (r[1] if r and r[0] == 'ret' else []):
                    k = o[0] if o[0] != 'err' else 'err:' + o[1]
                    st['outs'][k] = st['outs'].get(k, 0) + 1
            f = compare_obj(env, case, recs)
            if f is not None:
                res.fail(f['kind'], f['key'], f['what'], f['case'])
    finally:
        undo()
    hist['C_model_correspondence'] = st


STRESS = ['$.a.orderBy($).thenBy(-$)', '$.rows.groupBy($.k, $.v, $.len())', '{$fd => $.n}.len()',
          'let(m => $.a.select($ * 2).memorize()) -> $m.sum() + $m.len()', '$.a.join($rows, $1 > $2.k, [$1, $2.v])',
          'sq($.n) + hostf($.n)', "regex('(\\\\w)(\\\\w)').search($.s, $2 + $1)", '[$fd, $fd2, $fd].toSet().len() + $.n',
          'def(tw, $ * 2) -> tw($.n)', '$.a.select($ * $doc.n).sum()']


def part_d(env, res, rng, hist):
    """free-running threads, 1 us switch interval (supporting evidence only)"""
    import yaql
    tier = env['tier']
    R = StmtRunner()
    w = R.world
    want = dict(((t, d), R.baseline(t, d)) for t in STRESS for d in range(len(DATAS)))
    old = sys.getswitchinterval()
    sys.setswitchinterval(1e-6)
    bad = []
    rounds, nthreads, loops = (6, 4, 12) if tier == 'quick' else (30, 6, 40)
    n = 0
    try:
        for r in range(rounds):
            ctx = w.shared()
            before = snapshot(ctx)
            parsed = dict((t, w.engine(t)) for t in STRESS)
            start = threading.Barrier(nthreads)

            def worker(k):
                rr = common.make_rng(env['seed'], 'C18-stress-%d-%d' % (r, k))
                start.wait()
                for _ in range(loops):
                    t = rr.choice(STRESS)
                    d = rr.randrange(len(DATAS))
                    o = outcome(lambda: parsed[t].evaluate(data=json.loads(json.dumps(DATAS[d])), context=ctx.create_child_context()))
                    if o != want[(t, d)]:
                        bad.append((t, d, o))
                        return
                    o2 = outcome(lambda: yaql.eval('$.n * 2 + 1', data=DATAS[d]))
                    if o2 != ['ret', DATAS[d]['n'] * 2 + 1]:
                        bad.append(('yaql.eval($.n * 2 + 1)', d, o2))
                        return
            if r % 2 == 0:
                reset_eval_caches()
            ths = [threading.Thread(target=worker, args=(k,), daemon=True) for k in range(nthreads)]
            for t in ths:
                t.start()
            for t in ths:
                t.join(120)
                if t.is_alive():
                    raise HarnessProblem('a free-running stress thread did not finish')
            n += nthreads * loops
            if bad:
                t, d, o = bad[0]
                res.fail('oracle', 'interference', 'free-running threads: %r on data #%d returned %r, alone %r' % (
                    t, d, o, want.get((t, d))), dict(kind='stress', text=t, data=d))
                break
            diff = snapshot_diff(before, snapshot(ctx))
            if diff is not None and not diff['attrs_only']:
                res.fail('oracle', 'shared-context-changed', 'free-running threads changed the shared context: %r' % (diff,),
                         dict(kind='stress'))
                break
    finally:
        sys.setswitchinterval(old)
        reset_eval_caches()
    hist['D_stress'] = dict(evaluations=n, threads=nthreads, rounds=rounds)


def directed(env, res, rng, gen, hist):
    """a write site the table cannot explain: the obligation is broken (runcheck reports it); aim extra schedules at
    statements that reach the site's module"""
    hist['directed_at'] = gen.get('unknown')


def replay(env, res, case):
    kind = case.get('kind')
    if case.get('part') == 'evalstore':
        from props import evalstore
        evalstore.run(dict(env, replay_case=case), res, res.extra.setdefault('histogram', {}), ID, threads=True)
        return res
    if kind == 'stmt':
        owners = Owners()
        owners.install()
        un = install_call_point()
        try:
            R = StmtRunner(owners, hostvals=bool(case.get('hostvals')))
            f, s = R.run(case['texts'], case['datas'], case['styles'], case['schedule'], full=bool(case.get('full')))
        finally:
            un()
            owners.uninstall()
        res.case(('replay',), True)
        if f is not None:
            res.fail(f['kind'], f['key'], f['what'], f['case'])
    elif kind == 'line':
        undo = install_line_points()
        if undo is None:
            raise HarnessProblem('sys.monitoring is not available: cannot replay a line-granularity schedule')
        owners = Owners()
        owners.install()
        try:
            R = StmtRunner(owners)
            R.run(case['texts'], case['datas'], case['styles'], [])        # warm first-use paths, as in the original run
            f, s = R.run(case['texts'], case['datas'], case['styles'], expand_blocks(case['blocks']))
            tries = 1
            if f is None or f['kind'] != 'oracle':
                # The sequence of line events is not bit-identical across processes (sets of definitions iterate in
                # address order), so the recorded schedule may drift: search around it - same statements, documents
                # and styles, seeded bursty schedules - until the failure shows again
                rr = common.make_rng(env['seed'], 'C18-replay')
                k = len(case['texts'])
                t_end = time.time() + 45
                while time.time() < t_end and tries < 600 and (f is None or f['kind'] != 'oracle'):
                    tries += 1
                    burst = rr.choice([[1, 1, 2, 3], [1, 2, 3, 5, 8, 20], [5, 20, 50, 200], [1, 1, 2, 3, 5, 8, 20, 50, 200]])
                    blocks = [[rr.randrange(k), rr.choice(burst)] for _ in range(1500)]
                    g, s = R.run(case['texts'], case['datas'], case['styles'], expand_blocks(blocks))
                    if g is not None and (g['kind'] == 'oracle' or f is None):
                        f = g
                        f['case'] = dict(case, blocks=to_blocks(s.trace))
        finally:
            owners.uninstall()
            undo()
        res.case(('replay', tries), True)
        if f is not None:
            f.setdefault('case', case)
            if 'blocks' not in f['case']:
                f['case'] = case
            res.fail(f['kind'], f['key'], f['what'][:1500].replace('under schedule', 'under line-granularity schedule'), f['case'])
    elif kind == 'eval':
        un1, un2 = install_call_point(), install_eval_points()
        try:
            f, s = eval_case(case['texts'], case['datas'], case['schedule'], case.get('warm') or [], case.get('level', 'cold'))
        finally:
            un2()
            un1()
            reset_eval_caches()
        res.case(('replay',), True)
        if f is not None:
            res.fail(f['kind'], f['key'], f['what'], f['case'])
    elif kind == 'obj':
        undo = install_obj_points()
        try:
            w, s, results, hashes = run_obj_case(case['case'], case['schedule'])
            f = compare_obj(env, case['case'], [(w, list(s.trace), results, hashes)])
        finally:
            undo()
        res.case(('replay',), True)
        if f is not None:
            res.fail(f['kind'], f['key'], f['what'], f['case'])
    elif kind == 'lists':
        from props import c18lists
        lists, s, real = c18lists.run_list_case(case['case'], case['schedule'])
        f = c18lists.compare_lists(env, case['case'], [(list(s.trace), real, [[list(r) for r in l] for l in lists])])
        res.case(('replay',), True)
        if f is not None:
            res.fail(f['kind'], f['key'], f['what'], f['case'])
    elif kind == 'stress':
        part_d(env, res, common.make_rng(env['seed'], 'C18'), {})
    return res


LEVEL_TEXT = ('Lean 4 theorems over a generic interleaving semantics (shared component + private state per thread, any '
              'number of threads, any program assignment, EVERY schedule): steps that leave the shared component unchanged '
              'isolate (isolation, isolation_exact); shared writes confined to a memo table whose entries are a function of '
              'their key isolate as well, the table only grows by such entries (isolation_benign_cache, via interleaving + '
              'oblivious_of_denotation); an evaluator that satisfies the frame hypothesis writes only cells of its own '
              '(eval_writes_private, eval_isolated) - and the store-passing evaluator of the core fragment over mutable '
              'context cells satisfies it (storeEval_frame: every write of an evaluation targets the context it allocated '
              'last), so any number of threads making any sequence of its calls over one prepared store leave the shared '
              'cells unchanged and return their solo results under every schedule (evalS_isolated). Instantiated for a small-step model of everything stateful in yaql - '
              'FrozenDict.__hash__, the three yaql.eval caches, dispatch, OrderingIterable, GroupAggregator, '
              'utils.memorize - objs_isolated / objs_results (results are an explicit schedule-independent function) and '
              'lazy_objects_private (with the exact condition: no lazy object reached through the shared context); negative '
              'witnesses for partial publication (pre-fix FrozenDict hash), parked per-call state, shared lazy objects. '
              'Raw mutable host values stored in the shared context (Model/SharedList: orderBy over a shared Python list, one '
              'step per key-selector dispatch): the copying sort of the code is read-only, so lists_isolated / lists_results '
              '(every schedule: lists unchanged, results = an explicit function of the initial lists); sorting the shared '
              'object in place interferes (inplace_sort_interferes: a concurrent reader sees the list CPython empties during '
              'list.sort; inplace_sort_changes_shared_alone; inplace_restore_interferes: restoring the order afterwards only '
              'repairs the context, not the reader). '
              'C18Gen.no_shared_writes: every write site of the live yaql sources (AST walk, regenerated per run) is in an '
              'allowed class. The real code runs under a deterministic thread scheduler at dispatch / iterator-step / '
              'key-hash granularity (exhaustive, <=3 preemptions, random) and at line granularity (seeded) against the sequential baseline, the shared '
              'context snapshot, the Lean machine under the same trace, and free-running under a 1 us switch interval; '
              'a sweep of every library function over every parameter that admits a raw list / dict / set runs alone and 2-3 '
              'at a time on the SAME host object (variable of the shared context, unconverted document, host function result), '
              'snapshot of the variable values included; '
              'with instrumented context classes, generated programs of the core fragment evaluated alone and 2-4 at a time '
              'write only contexts their own evaluation created (never the shared one, never another thread\'s, never one '
              'that already has a child), and the tree of contexts created / names written is the store model\'s.')
LEVEL_NOTE = ('partial: (1) the core evaluator enters at call granularity: eval_writes_private / eval_isolated hold without '
              'hypotheses for the store-passing evaluator over mutable context cells (C18Store.storeEval_frame, '
              'evalS_isolated; one step = create_child_context + evaluate, or one Function.__call__), which refines the C04 '
              'reference interpreter (EvalStore.refines_eval, audited under C09) and whose write log is compared with the '
              'instrumented real context classes, alone and 2-4 evaluations at a time; C18Eval.eval_model_isolated keeps the '
              'purely functional Model/Eval as a Sched machine; dispatch-level interleaving inside a call is explored on the '
              'real code; (2) the atomic step is one dispatch / iterator '
              'step / key hash, preemption between arbitrary bytecodes is only stress-tested; (3) the classification rules '
              'of the write-site walker and the three hand-justified rows are trusted; C extension internals are trusted.')
TECHNIQUE = ('Lean 4 proof (schedule induction over a generic machine, denotation + measure for benign caches) + per-run '
             'generated write-site table (decide +kernel) + systematic real-thread schedules + model correspondence')
DESIGN_REF = 'DESIGN.md section 5, C18; section 6 F11'
