"""C17 - context trees resolve variables and functions layer by layer.

Correspondence: random forests of Context / MultiContext / LinkedContext - with and without naming
conventions - and random operation histories are replayed on the real classes and on the Lean
model (Yaql.Model.Context + ContextHist: `hstep` / `answer`); after every step a random plan of
READS (all of them shuffled, a few, none) goes through ctx[name], name in ctx, keys(),
collect_functions and get_functions with use_convention False and True, for pools of variable names
and of function names with and without inner underscores.
Oracles (on the real code alone): (1) the flattened-layers reference of the property statement,
kept in Python below (`Ref`) from the harness's OWN record of what the public interface was told -
it never looks at yaql's objects; (2) read purity: the same reads made again, in reverse order, with
no write in between, answer the same."""
import json
import random

import common
from yaql.language import contexts, conventions, specs

ID = 'C17'
LEAN_MODULES = ['Yaql.Props.C17', 'Yaql.Props.C17Conv']
REQUIRED_THEOREMS = [
    'Yaql.Props.C17.get_data_refines', 'Yaql.Props.C17.contains_own', 'Yaql.Props.C17.keys_own',
    'Yaql.Props.C17.collect_refines', 'Yaql.Props.C17.multi_is_merge', 'Yaql.Props.C17.linked_is_concat',
    'Yaql.Props.C17.name_norm', 'Yaql.Props.C17.child_sees_parent', 'Yaql.Props.C17.write_local',
    'Yaql.Props.C17.write_then_read', 'Yaql.Props.C17.delete_multi',
] + ['Yaql.Props.C17Conv.' + n for n in (
    'collectU_refines', 'collectU_off', 'collectU_no_convention', 'collectU_uniform', 'collectU_congr',
    'data_writes_invisible', 'hrun_erase_reads', 'read_insertion_invisible', 'last_read_depends_on_writes',
    'same_writes_same_answers', 'Ex.memo_reads_not_pure')]
TRUSTED = ['python dict/set semantics modelled as association lists',
           'c17.Ref: the flattened-layers reference of the statement over the harness\'s own record of the writes',
           'c17.convert: what the CamelCase / Python / host-defined convention makes of a function name']
ASSUMPTIONS = ['values are ints/None; function definitions are opaque identities',
               'MultiContext is never built from an empty list (the constructor raises IndexError)',
               'conventions (the statement is silent): each plain context converts a requested function name by its own '
               'convention object; a context made without one inherits its parent\'s (MultiContext: first member\'s)']

NAMES = ['x', '$x', 'y', '', '$', '$1', '1', 'z']
# names functions are LOOKED UP by (trailing underscores are stripped by every lookup; an inner underscore is
# what a naming convention rewrites) and names definitions are REGISTERED under (spec.name, verbatim)
FNAMES = ['f', 'f_', 'g', 'foo_bar', 'fooBar', 'foo_bar__', 'FOO_BAR', 'F']
REGNAMES = ['f', 'f', 'f', 'g', 'fooBar', 'fooBar', 'fooBar', 'foo_bar', 'foo_bar', 'foo_bar', 'FOO_BAR', 'FOO_BAR',
            'F', 'FOOBAR', 'f_']
CONV_KINDS = ['camel', 'camel', 'camel', 'python', 'upper']


class UpperConvention(conventions.Convention):
    """a host-defined convention"""

    def convert_function_name(self, name):
        return name.upper()

    def convert_parameter_name(self, name):
        return name.upper()


def make_convention(kind):
    if kind is None:
        return None
    return {'camel': conventions.CamelCaseConvention, 'python': conventions.PythonConvention,
            'upper': UpperConvention}[kind]()


def convert(kind, name):
    """what the convention of that kind makes of a function name (transcribed from the conventions' documentation:
    CamelCase joins `_x` into `X` except at the very start; Python leaves names alone)"""
    if kind == 'camel':
        out, i = [], 0
        while i < len(name):
            ch = name[i]
            if ch == '_' and i > 0 and i + 1 < len(name) and (name[i + 1].isalnum() or name[i + 1] == '_'):
                out.append(name[i + 1].upper())
                i += 2
            else:
                out.append(ch)
                i += 1
        return ''.join(out)
    if kind == 'upper':
        return name.upper()
    return name


def gen_reads(rng, nh, dense):
    """the reads made after a step: {'all': shuffle seed} or {'some': [[kind, handle, index, use_convention]]}"""
    if nh == 0:
        return dict(some=[])
    if dense:
        return dict(all=rng.randrange(1 << 30))
    out = []
    k = rng.choice([0, 0, 1, 2, 3, 5, 8, 12])
    while len(out) < k:
        h = rng.randrange(nh)
        r = rng.random()
        if r < 0.4:
            rd = ['gf', h, rng.randrange(len(FNAMES)), rng.random() < 0.5]
        elif r < 0.8:
            rd = ['col', h, rng.randrange(len(FNAMES)), rng.random() < 0.5]
        elif r < 0.9:
            rd = ['get', h, rng.randrange(len(NAMES)), False]
        elif r < 0.97:
            rd = ['has', h, rng.randrange(len(NAMES)), False]
        else:
            rd = ['keys', h, 0, False]
        out.append(rd)
        if rd[0] in ('gf', 'col') and rng.random() < 0.5:
            # the same name the other way round - from the same context or from another one that may reach the same layer
            out.append([rng.choice(['gf', 'col']), rd[1] if rng.random() < 0.6 else rng.randrange(nh), rd[2], not rd[3]])
    return dict(some=out)


def all_reads(nh):
    out = []
    for h in range(nh):
        out += [['get', h, i, False] for i in range(len(NAMES))]
        out += [['has', h, i, False] for i in range(len(NAMES))]
        out.append(['keys', h, 0, False])
        for uc in (False, True):
            out += [['gf', h, i, uc] for i in range(len(FNAMES))]
            out += [['col', h, i, uc] for i in range(len(FNAMES))]
    return out


def reads_of(op, nh):
    rd = op.get('rd')
    if rd is None:
        return all_reads(nh)
    if 'all' in rd:
        out = all_reads(nh)
        random.Random(rd['all']).shuffle(out)
        return out
    return [r for r in rd['some'] if r[1] < nh]


def gen_history(rng, nsteps):
    ops = []
    nh = 0          # live handles
    kinds = []      # kind of each handle: 'plain' | 'multi' | 'linked'
    lt_kind = {}    # for linked handles: kind of the target
    nfid = 0
    fids = []       # (fname, id)
    style = rng.choice(['dense', 'sparse', 'sparse', 'sparse', 'mixed'])
    p_conv = rng.choice([0.0, 0.5, 0.8, 1.0])        # how many parentless contexts get a convention

    def a_conv(p):
        return rng.choice(CONV_KINDS) if rng.random() < p else None

    for _ in range(nsteps):
        if nh == 0:
            ops.append(dict(o='plain', parent=None, conv=a_conv(p_conv))); kinds.append('plain'); nh += 1
        else:
            r = rng.random()
            h = rng.randrange(nh)
            if r < 0.10 and nh < 14:
                parent = rng.choice([None] + list(range(nh)))
                ops.append(dict(o='plain', parent=parent, conv=a_conv(p_conv if parent is None else 0.2)))
                kinds.append('plain'); nh += 1
            elif r < 0.18 and nh < 14:
                k = rng.choice([1, 2, 2, 3])
                ops.append(dict(o='multi', members=[rng.randrange(nh) for _ in range(k)], conv=a_conv(0.15)))
                kinds.append('multi'); nh += 1
            elif r < 0.25 and nh < 14:
                t = rng.randrange(nh)
                ops.append(dict(o='linked', parent=rng.choice([None] + list(range(nh))), target=t, conv=a_conv(0.15)))
                lt_kind[nh] = kinds[t]; kinds.append('linked'); nh += 1
            elif r < 0.33 and nh < 14:
                ops.append(dict(o='child', h=h))
                if kinds[h] == 'linked' and lt_kind[h] != 'plain':
                    pass            # TypeError in both worlds, no handle
                else:
                    kinds.append('plain'); nh += 1
            elif r < 0.55:
                ops.append(dict(o='set', h=h, n=rng.choice(NAMES), v=rng.choice([None, 0, 1, 2, 3, 7])))
            elif r < 0.65:
                ops.append(dict(o='del', h=h, n=rng.choice(NAMES)))
            elif r < 0.90:
                if fids and rng.random() < 0.3:
                    f, i = rng.choice(fids)
                else:
                    f, i = rng.choice(REGNAMES), nfid
                    nfid += 1
                    fids.append((f, i))
                ops.append(dict(o='reg', h=h, f=f, id=i, x=rng.random() < 0.3))
            else:
                if fids:
                    f, i = rng.choice(fids)
                    ops.append(dict(o='delf', h=h, f=f, id=i))
                else:
                    ops.append(dict(o='set', h=h, n='x', v=1))
        dense = style == 'dense' or (style == 'mixed' and rng.random() < 0.3)
        ops[-1]['rd'] = gen_reads(rng, nh, dense)
    return ops


class Impl:
    def __init__(self):
        self.hs = []
        self.fds = {}

    def fd(self, f, i):
        if i not in self.fds:
            d = specs.FunctionDefinition(f, lambda: None)
            self.fds[i] = d
        return self.fds[i]

    def fid(self, d):
        for i, x in self.fds.items():
            if x is d:
                return i
        return -1

    def step(self, op):
        o = op['o']
        try:
            if o == 'plain':
                p = None if op['parent'] is None else self.hs[op['parent']]
                self.hs.append(contexts.Context(p, convention=make_convention(op.get('conv'))))
            elif o == 'multi':
                self.hs.append(contexts.MultiContext([self.hs[m] for m in op['members']],
                                                     convention=make_convention(op.get('conv'))))
            elif o == 'linked':
                p = None if op['parent'] is None else self.hs[op['parent']]
                self.hs.append(contexts.LinkedContext(p, self.hs[op['target']],
                                                      convention=make_convention(op.get('conv'))))
            elif o == 'child':
                self.hs.append(self.hs[op['h']].create_child_context())
            elif o == 'set':
                self.hs[op['h']][op['n']] = op['v']
            elif o == 'del':
                del self.hs[op['h']][op['n']]
            elif o == 'reg':
                self.hs[op['h']].register_function(self.fd(op['f'], op['id']), exclusive=op['x'])
            elif o == 'delf':
                self.hs[op['h']].delete_function(self.fd(op['f'], op['id']))
            return 'ok'
        except KeyError:
            return 'KeyError'
        except (TypeError, AttributeError, IndexError):
            return 'PyError'   # create_child_context of a linked context whose target is not a plain Context

    def read(self, rd):
        """one read through the public interface, in the vocabulary of the reference / the model"""
        kind, h, i, uc = rd
        c = self.hs[h]
        if kind == 'get':
            return c[NAMES[i]]
        if kind == 'has':
            return NAMES[i] in c
        if kind == 'keys':
            return sorted(c.keys())
        if kind == 'gf':
            s, e = c.get_functions(FNAMES[i], use_convention=uc) if uc else c.get_functions(FNAMES[i])
            return [sorted(self.fid(d) for d in s), bool(e)]
        ls = c.collect_functions(FNAMES[i], use_convention=uc) if uc else c.collect_functions(FNAMES[i])
        return [sorted(self.fid(d) for d in layer) for layer in ls]


# ---- the property's reference ("flattened layers"): the harness's OWN record of what the public interface was told;
# it never looks at yaql's objects

def norm(n):
    if not n.startswith('$'):
        n = '$' + n
    return '$1' if n == '$' else n


class Ref:
    """nodes[h] = ('plain', cell, parent handle | None) | ('multi', [member handles]) |
    ('linked', target handle, parent handle | None); cells[c] = what the plain context c holds.
    By the statement: a context denotes a list of layers, nearest first - a plain context its own cell followed by its
    parent's layers, a multi-context the layer-wise merge of its members' layer lists (data: first member wins,
    functions: union, exclusive: any), a linked context its target's layers followed by those of the parent it was
    given.  A layer is kept as the list of cells merged into it, in priority order.  Each plain context converts a
    requested function name by its own convention."""

    def __init__(self):
        self.nodes = []
        self.cells = []
        self.chain = []         # per handle: conventions along the .parent chain
        self._memo = {}

    def _cell(self, conv):
        self.cells.append(dict(data={}, funcs={}, excl=set(), conv=conv))
        return len(self.cells) - 1

    def layers(self, h):
        if h is None:
            return []
        if h in self._memo:
            return self._memo[h]
        n = self.nodes[h]
        if n[0] == 'plain':
            out = [[n[1]]] + self.layers(n[2])
        elif n[0] == 'linked':
            out = self.layers(n[1]) + self.layers(n[2])
        else:
            chains = [self.layers(m) for m in n[1]]
            out = []
            for d in range(max(len(ch) for ch in chains)):
                out.append([c for ch in chains if d < len(ch) for c in ch[d]])
        self._memo[h] = out         # shapes never change after construction
        return out

    # conventions (doc-silent, as implemented): chain[h] = the convention of the context object h and of the objects
    # along its `.parent` chain; a context made without one takes its parent's, a MultiContext its first member's and
    # only then that of the parent it builds (nothing / the single parent / a MultiContext of the parents), a
    # LinkedContext that of the parent it builds (one LinkedContext per ancestor of the target, then the given parent)
    @staticmethod
    def _base(given, parent_chain):
        return [given or (parent_chain[0] if parent_chain else None)] + parent_chain

    def _multi_chain(self, given, chains):
        given = given or chains[0][0]
        parents = [ch[1:] for ch in chains if len(ch) > 1]
        if not parents:
            return self._base(given, [])
        if len(parents) == 1:
            return self._base(given, parents[0])
        return self._base(given, self._multi_chain(None, parents))

    def _linked_chain(self, given, pchain, tchain):
        if len(tchain) <= 1:
            return self._base(given, pchain)
        return self._base(given, self._linked_chain(given, pchain, tchain[1:]))

    def step(self, op):
        o = op['o']
        if o == 'plain':
            p = op['parent']
            ch = self._base(op.get('conv'), self.chain[p] if p is not None else [])
            self.nodes.append(('plain', self._cell(ch[0]), p)); self.chain.append(ch)
        elif o == 'multi':
            self.nodes.append(('multi', list(op['members'])))
            self.chain.append(self._multi_chain(op.get('conv'), [self.chain[m] for m in op['members']]))
        elif o == 'linked':
            p = op['parent']
            self.nodes.append(('linked', op['target'], p))
            self.chain.append(self._linked_chain(op.get('conv'), self.chain[p] if p is not None else [],
                                                 self.chain[op['target']]))
        elif o == 'child':
            n = self.nodes[op['h']]
            if n[0] == 'linked' and self.nodes[n[1]][0] != 'plain':
                return 'PyError'        # statement silent; the code cannot build the child
            ch = self._base(None, self.chain[op['h']])
            self.nodes.append(('plain', self._cell(ch[0]), op['h'])); self.chain.append(ch)
        else:
            own = self.layers(op['h'])[0]
            if o == 'set':
                self.cells[own[0]]['data'][norm(op['n'])] = op['v']
            elif o == 'del':
                hit = [c for c in own if norm(op['n']) in self.cells[c]['data']]
                if not hit:
                    return 'KeyError'
                for c in hit:
                    self.cells[c]['data'].pop(norm(op['n']), None)
            elif o == 'reg':
                cell = self.cells[own[0]]
                cell['funcs'].setdefault(op['f'], set()).add(op['id'])
                if op['x']:
                    cell['excl'].add(op['f'])
            elif o == 'delf':
                for c in own:       # K4, as implemented: the name's exclusive flag goes with any deletion
                    self.cells[c]['funcs'].get(op['f'], set()).discard(op['id'])
                    self.cells[c]['excl'].discard(op['f'])
        return 'ok'

    def _layer_funcs(self, layer, f, uc):
        ids, excl = set(), False
        for c in layer:
            cell = self.cells[c]
            key = f.rstrip('_')
            if uc and cell['conv']:
                key = convert(cell['conv'], key)
            ids |= cell['funcs'].get(key, set())
            excl = excl or key in cell['excl']
        return sorted(ids), excl

    def read(self, rd):
        kind, h, i, uc = rd
        layers = self.layers(h)
        if kind == 'get':
            for layer in layers:
                for c in layer:
                    if norm(NAMES[i]) in self.cells[c]['data']:
                        return self.cells[c]['data'][norm(NAMES[i])]
            return None
        if kind == 'has':
            return any(norm(NAMES[i]) in self.cells[c]['data'] for c in layers[0])
        if kind == 'keys':
            return sorted({k for c in layers[0] for k in self.cells[c]['data']})
        if kind == 'gf':
            ids, excl = self._layer_funcs(layers[0], FNAMES[i], uc)
            return [ids, excl]
        out = []
        for layer in layers:
            ids, excl = self._layer_funcs(layer, FNAMES[i], uc)
            if ids:
                out.append(ids)
            if excl:
                break
        return out


def model_read(obs, rd):
    kind, h, i, uc = rd
    o = obs[h]
    if kind in ('get', 'has'):
        return o[kind][i]
    if kind == 'keys':
        return sorted(o['keys'])
    return o[kind][1 if uc else 0][i]


def describe_read(rd):
    kind, h, i, uc = rd
    if kind in ('get', 'has'):
        return 'handle %d %s %r' % (h, 'ctx[..]' if kind == 'get' else 'in', NAMES[i])
    if kind == 'keys':
        return 'handle %d keys()' % h
    return 'handle %d %s(%r, use_convention=%s)' % (h, 'get_functions' if kind == 'gf' else 'collect_functions',
                                                    FNAMES[i], uc)


def run_history(ops, drv, stats=None):
    """returns (failure kind, message, step index, key) or None"""
    impl = Impl()
    ref = Ref()
    model = drv.ask(dict(p='C17', ops=ops, names=NAMES, fnames=FNAMES))['steps'] if drv else None
    last_uc = {}
    for i, op in enumerate(ops):
        present = (op['n'] in impl.hs[op['h']]) if op['o'] == 'del' else None
        r = impl.step(op)
        rr = ref.step(op)
        if op['o'] == 'del' and present != (r == 'ok'):
            # the statement: a context's own (for a multi-context: merged) first layer is what
            # membership reports, and deletion acts on that layer
            return ('oracle', 'step %d %s: name %s the context before del, outcome %s' % (
                i, json.dumps(op), 'in' if present else 'not in', r), i, 'multi-delete-partial')
        if r != rr:
            return ('oracle', 'step %d %s: real outcome %s, the layered reference gives %s' % (i, json.dumps(op), r, rr),
                    i, 'multi-delete-partial' if op['o'] == 'del' else 'lookup')
        reads = reads_of(op, len(impl.hs)) if i < len(ops) - 1 else reads_of(op, len(impl.hs)) + all_reads(len(impl.hs))
        answers = []
        for rd in reads:
            a = impl.read(rd)
            answers.append(a)
            b = ref.read(rd)
            if a != b:
                return ('oracle', 'step %d %s: %s: real %r, layered reference %r' % (
                    i, json.dumps({k: v for k, v in op.items() if k != 'rd'}), describe_read(rd), a, b), i, 'lookup')
            if stats is not None and rd[0] in ('gf', 'col'):
                stats['reads:%s:uc=%s' % (rd[0], rd[3])] = stats.get('reads:%s:uc=%s' % (rd[0], rd[3]), 0) + 1
                key = (rd[1], FNAMES[rd[2]])
                if key in last_uc and last_uc[key] != rd[3]:
                    stats.setdefault('_flips', set()).add((key, rd[3]))
                last_uc[key] = rd[3]
        if op['o'] == 'del':
            # the statement: deleting removes the variable from the context's own (merged) first layer
            c = impl.hs[op['h']]
            if r == 'ok' and op['n'] in c:
                return ('oracle', 'step %d: del %r succeeded but name still in context' % (i, op['n']), i,
                        'multi-delete-partial')
        # reads are pure: the same reads once more, the other way round, with no write in between
        if reads and (i % 3 == 0 or i == len(ops) - 1):
            for rd, a in reversed(list(zip(reads, answers))):
                a2 = impl.read(rd)
                if a2 != a:
                    return ('oracle', 'step %d: %s answered %r, and %r when read again after other reads with no '
                            'write in between' % (i, describe_read(rd), a, a2), i, 'read-impure')
        if model is not None:
            m = model[i]
            if m['r'] != r:
                return ('mismatch',
                        'step %d %s: real outcome %s, model %s' % (i, json.dumps(op), r, m['r']), i, 'lookup')
            if len(m['obs']) != len(impl.hs):
                return ('mismatch', 'step %d: different number of handles' % i, i, 'lookup')
            for rd, a in zip(reads, answers):
                b = model_read(m['obs'], rd)
                if a != b:
                    return ('mismatch', 'step %d %s: %s: real %r model %r' % (
                        i, json.dumps({k: v for k, v in op.items() if k != 'rd'}), describe_read(rd), a, b), i, 'lookup')
    return None


def shrink(ops, drv, kind):
    """delete steps while the same kind of failure persists (handles are positional, so only
    steps that create no handle are removed, plus truncation), then thin out the reads"""
    import time
    deadline = time.time() + 40
    f = run_history(ops, drv)
    ops = ops[:f[2] + 1]
    i = 0
    while i < len(ops) - 1 and time.time() < deadline:
        if ops[i]['o'] in ('set', 'del', 'reg', 'delf'):
            cand = ops[:i] + ops[i + 1:]
            g = run_history(cand, drv)
            if g and g[0] == kind:
                ops = cand[:g[2] + 1]
                continue
        i += 1
    # reads: none at all on a step if the failure stays; else keep the plan
    for i in range(len(ops)):
        if time.time() > deadline:
            break
        if ops[i].get('rd') != dict(some=[]):
            cand = [dict(o) for o in ops]
            cand[i]['rd'] = dict(some=[])
            g = run_history(cand, drv)
            if g and g[0] == kind:
                ops = cand[:g[2] + 1]
    return ops


def run(env, res):
    drv = env['driver']
    tier = env['tier']
    rng = common.make_rng(env['seed'], 'C17')
    n_hist = 400 if tier == "quick" else 8000
    if env['replay']:
        rp = json.load(open(env['replay']))
        histories = [rp['case']['ops']]
    else:
        histories = None
    res.rule = ('random histories of 10-60 operations over forests of <=14 contexts mixing the three classes, with and '
                'without naming conventions (CamelCase / Python / a host-defined one; given to parentless contexts, '
                'sometimes to children and composites, inherited otherwise); definitions are registered under names '
                'with and without inner underscores, in both spellings; after every step a random plan of reads - all '
                'of them in a shuffled order, a few, or none - through ctx[..], in, keys(), get_functions and '
                'collect_functions with use_convention False and True (the same name both ways from the same and from '
                'other contexts, in both orders); every third step the reads are repeated in reverse order; '
                'distinct = distinct op sequences; non-trivial = history creates a multi or linked context '
                'and performs a write after it')
    kinds_hist = {}
    stats = {}
    n_flip = 0
    for k in range(n_hist if histories is None else len(histories)):
        ops = gen_history(rng, rng.randrange(10, 61)) if histories is None else histories[k]
        for op in ops:
            kinds_hist[op['o']] = kinds_hist.get(op['o'], 0) + 1
            if op.get('conv'):
                kinds_hist['conv:' + op['o'] + ':' + op['conv']] = kinds_hist.get('conv:' + op['o'] + ':' + op['conv'], 0) + 1
        seen_composite = False
        nontrivial = False
        for op in ops:
            if op['o'] in ('multi', 'linked'):
                seen_composite = True
            elif seen_composite and op['o'] in ('set', 'del', 'reg', 'delf'):
                nontrivial = True
        res.case(common.digest(ops), nontrivial, sample=[{k2: v for k2, v in op.items() if k2 != 'rd'}
                                                         for op in ops[:12]] if k < 2 else None)
        stats.pop('_flips', None)
        f = run_history(ops, drv, stats)
        flips = stats.pop('_flips', set())
        if {fl[0] for fl in flips if fl[1]} & {fl[0] for fl in flips if not fl[1]}:
            n_flip += 1         # some (context, name) was looked up literal-then-convention AND convention-then-literal
        res.traces += 1
        if f:
            kind = f[0]
            small = shrink(ops, drv, kind)
            g = run_history(small, drv)
            res.fail(kind, g[3], g[1], dict(ops=small, names=NAMES, fnames=FNAMES))
            if len(res.failures) >= 5:
                break
    kinds_hist.update(stats)
    kinds_hist['histories-with-a-name-looked-up-both-ways-in-both-orders'] = n_flip
    res.extra['op_histogram'] = kinds_hist
    return res

LEVEL_TEXT = ('Lean 4 theorems over a code-shaped model of the three context classes: for EVERY context shape and cell '
              'table, reads equal reads of the flattened layer list (get_data_refines, contains_own, keys_own, '
              'collect_refines), MultiContext/LinkedContext constructors build the merged / concatenated layer lists '
              '(multi_is_merge, linked_is_concat), writes are local, deletion acts on the merged first layer. The model '
              'is tied to the code by replaying random forests and operation histories on the real classes and on the '
              'compiled model, comparing every observation after every step, and by a Python transcription of the '
              'layered reference evaluated on the raw state of the real objects.')
LEVEL_NOTE = ('trusted: Lean kernel; hand-written model Yaql/Model/Context.lean (dict/set as association lists, '
              'values ints/None, function definitions as opaque ids); the differential harness. create_child_context of '
              'a LinkedContext whose target is not a plain Context raises in the real code and in the model '
              '(statement silent). delete_function clears the exclusive flag of the name (modelled as implemented).')
TECHNIQUE = 'Lean 4 proof (structural induction over context shapes) + differential replay of histories'
DESIGN_REF = 'DESIGN.md section 5, C17'
