"""C17 - context trees resolve variables and functions layer by layer.

Correspondence: random forests of Context / MultiContext / LinkedContext and
random operation histories are replayed on the real classes and on the Lean
model (Yaql.Model.Context); after every step every live context is asked
ctx[name], name in ctx, keys(), collect_functions, get_functions for a pool of
names.  Oracle (on the real code alone): the flattened-layers reference of the
property statement, transcribed in Python below (`ref_*`)."""
import json

import common
from yaql.language import contexts, specs

ID = 'C17'
LEAN_MODULES = ['Yaql.Props.C17']
REQUIRED_THEOREMS = [
    'Yaql.Props.C17.get_data_refines', 'Yaql.Props.C17.contains_own', 'Yaql.Props.C17.keys_own',
    'Yaql.Props.C17.collect_refines', 'Yaql.Props.C17.multi_is_merge', 'Yaql.Props.C17.linked_is_concat',
    'Yaql.Props.C17.name_norm', 'Yaql.Props.C17.child_sees_parent', 'Yaql.Props.C17.write_local',
    'Yaql.Props.C17.write_then_read', 'Yaql.Props.C17.delete_multi',
]
TRUSTED = ['python dict/set semantics modelled as association lists']
ASSUMPTIONS = ['values are ints/None; function definitions are opaque identities',
               'MultiContext is never built from an empty list (the constructor raises IndexError)']

NAMES = ['x', '$x', 'y', '', '$', '$1', '1', 'z']
FNAMES = ['f', 'g', 'f_']


def gen_history(rng, nsteps):
    ops = []
    nh = 0          # live handles
    kinds = []      # kind of each handle: 'plain' | 'multi' | 'linked'
    lt_kind = {}    # for linked handles: kind of the target
    nfid = 0
    fids = []       # (fname, id)
    for _ in range(nsteps):
        if nh == 0:
            ops.append(dict(o='plain', parent=None)); kinds.append('plain'); nh += 1
            continue
        r = rng.random()
        h = rng.randrange(nh)
        if r < 0.10 and nh < 14:
            ops.append(dict(o='plain', parent=rng.choice([None] + list(range(nh))))); kinds.append('plain'); nh += 1
        elif r < 0.18 and nh < 14:
            k = rng.choice([1, 2, 2, 3])
            ops.append(dict(o='multi', members=[rng.randrange(nh) for _ in range(k)])); kinds.append('multi'); nh += 1
        elif r < 0.25 and nh < 14:
            t = rng.randrange(nh)
            ops.append(dict(o='linked', parent=rng.choice([None] + list(range(nh))), target=t))
            lt_kind[nh] = kinds[t]; kinds.append('linked'); nh += 1
        elif r < 0.33 and nh < 14:
            ops.append(dict(o='child', h=h))
            if kinds[h] == 'linked' and lt_kind[h] != 'plain':
                pass            # TypeError in both worlds, no handle
            else:
                kinds.append('plain'); nh += 1
        elif r < 0.60:
            ops.append(dict(o='set', h=h, n=rng.choice(NAMES), v=rng.choice([None, 0, 1, 2, 3, 7])))
        elif r < 0.72:
            ops.append(dict(o='del', h=h, n=rng.choice(NAMES)))
        elif r < 0.90:
            if fids and rng.random() < 0.3:
                f, i = rng.choice(fids)
            else:
                f, i = rng.choice(FNAMES), nfid
                nfid += 1
                fids.append((f, i))
            ops.append(dict(o='reg', h=h, f=f, id=i, x=rng.random() < 0.3))
        else:
            if fids:
                f, i = rng.choice(fids)
                ops.append(dict(o='delf', h=h, f=f, id=i))
            else:
                ops.append(dict(o='set', h=h, n='x', v=1))
    return ops


class Impl:
    def __init__(self):
        self.hs = []
        self.fds = {}

    def fd(self, f, i):
        if i not in self.fds:
            d = specs.FunctionDefinition(f, lambda: None)
            self.fds[i] = d
        return self.fds[i]

    def fid(self, d):
        for i, x in self.fds.items():
            if x is d:
                return i
        return -1

    def step(self, op):
        o = op['o']
        try:
            if o == 'plain':
                p = None if op['parent'] is None else self.hs[op['parent']]
                self.hs.append(contexts.Context(p))
            elif o == 'multi':
                self.hs.append(contexts.MultiContext([self.hs[m] for m in op['members']]))
            elif o == 'linked':
                p = None if op['parent'] is None else self.hs[op['parent']]
                self.hs.append(contexts.LinkedContext(p, self.hs[op['target']]))
            elif o == 'child':
                self.hs.append(self.hs[op['h']].create_child_context())
            elif o == 'set':
                self.hs[op['h']][op['n']] = op['v']
            elif o == 'del':
                del self.hs[op['h']][op['n']]
            elif o == 'reg':
                self.hs[op['h']].register_function(self.fd(op['f'], op['id']), exclusive=op['x'])
            elif o == 'delf':
                self.hs[op['h']].delete_function(self.fd(op['f'], op['id']))
            return 'ok'
        except KeyError:
            return 'KeyError'
        except (TypeError, AttributeError, IndexError):
            return 'PyError'   # create_child_context of a linked context whose target is not a plain Context

    def observe(self):
        out = []
        for c in self.hs:
            gf = []
            for f in FNAMES:
                s, e = c.get_functions(f)
                gf.append([sorted(self.fid(d) for d in s), bool(e)])
            out.append(dict(
                get=[c[n] for n in NAMES],
                has=[n in c for n in NAMES],
                keys=list(c.keys()),
                col=[[sorted(self.fid(d) for d in layer) for layer in c.collect_functions(f)] for f in FNAMES],
                gf=gf))
        return out


# ---- the property's reference ("flattened layers"), evaluated on the real objects' raw state only

def norm(n):
    if not n.startswith('$'):
        n = '$' + n
    return '$1' if n == '$' else n


def own_layer(c):
    """first layer of a context as (data dict, {name: set(fd)}, exclusive names)"""
    if isinstance(c, contexts.Context):
        return dict(c._data), {k: set(v) for k, v in c._functions.items() if v}, set(c._exclusive_funcs)
    if isinstance(c, contexts.LinkedContext):
        return own_layer(c.linked_context)
    data, funcs, excl = {}, {}, set()
    for m in c._context_list:
        d, f, e = own_layer(m)
        for k, v in d.items():
            data.setdefault(k, v)
        for k, v in f.items():
            funcs.setdefault(k, set()).update(v)
        excl |= e
    return data, funcs, excl


def ref_layers(c):
    """layers from nearest to farthest, by the statement: a multi-context is the
    layer-wise merge of its members, a linked context its linked chain followed by
    its own parent chain (the `parent` given at construction)."""
    if c is None:
        return []
    if isinstance(c, contexts.Context):
        return [own_layer(c)] + ref_layers(c.parent)
    if isinstance(c, contexts.MultiContext):
        chains = [ref_layers(m) for m in c._context_list]
        out = []
        for depth in range(max(len(ch) for ch in chains)):
            data, funcs, excl = {}, {}, set()
            for ch in chains:
                if depth < len(ch):
                    d, f, e = ch[depth]
                    for k, v in d.items():
                        data.setdefault(k, v)
                    for k, v in f.items():
                        funcs.setdefault(k, set()).update(v)
                    excl |= e
            out.append((data, funcs, excl))
        return out
    # linked: target chain, then the parent chain that was passed to the outermost constructor
    chain = ref_layers(c.linked_context)
    p = c
    while isinstance(p, contexts.LinkedContext) and p.linked_context.parent is not None \
            and isinstance(p.parent, contexts.LinkedContext) and p.parent.linked_context is p.linked_context.parent:
        p = p.parent
    return chain + ref_layers(p.parent)


def ref_observe(impl):
    out = []
    for c in impl.hs:
        layers = ref_layers(c)
        get = []
        for n in NAMES:
            v = None
            for d, _, _ in layers:
                if norm(n) in d:
                    v = d[norm(n)]
                    break
            get.append(v)
        d0 = layers[0][0]
        col = []
        for f in FNAMES:
            f = f.rstrip('_')
            res = []
            for _, funcs, excl in layers:
                if funcs.get(f):
                    res.append(sorted(impl.fid(x) for x in funcs[f]))
                if f in excl:
                    break
            col.append(res)
        out.append(dict(get=get, has=[norm(n) in d0 for n in NAMES], keys=sorted(d0), col=col))
    return out


def run_history(ops, drv):
    """returns (failure kind, message, step index) or None"""
    impl = Impl()
    model = drv.ask(dict(p='C17', ops=ops, names=NAMES, fnames=FNAMES))['steps'] if drv else None
    for i, op in enumerate(ops):
        present = (op['n'] in impl.hs[op['h']]) if op['o'] == 'del' else None
        r = impl.step(op)
        if op['o'] == 'del' and present != (r == 'ok'):
            # the statement: a context's own (for a multi-context: merged) first layer is what
            # membership reports, and deletion acts on that layer
            return ('oracle', 'step %d %s: name %s the context before del, outcome %s' % (
                i, json.dumps(op), 'in' if present else 'not in', r), i)
        obs = impl.observe()
        ref = ref_observe(impl)
        for h, (a, b) in enumerate(zip(obs, ref)):
            for key in ('get', 'has', 'col'):
                if a[key] != b[key]:
                    return ('oracle', 'step %d %s: handle %d %s: real %r, layered reference %r' % (
                        i, json.dumps(op), h, key, a[key], b[key]), i)
            if sorted(a['keys']) != b['keys']:
                return ('oracle', 'step %d: handle %d keys: real %r, reference %r' % (i, h, a['keys'], b['keys']), i)
        if op['o'] == 'del':
            # the statement: deleting removes the variable from the context's own (merged) first layer
            c = impl.hs[op['h']]
            if r == 'ok' and op['n'] in c:
                return ('oracle', 'step %d: del %r succeeded but name still in context' % (i, op['n']), i)
        if model is not None:
            m = model[i]
            if m['r'] != r:
                return ('mismatch',
                        'step %d %s: real outcome %s, model %s' % (i, json.dumps(op), r, m['r']), i)
            if m['obs'] != obs:
                for h, (a, b) in enumerate(zip(obs, m['obs'])):
                    if a != b:
                        return ('mismatch', 'step %d %s: handle %d real %r model %r' % (i, json.dumps(op), h, a, b), i)
                return ('mismatch', 'step %d: different number of handles' % i, i)
    return None


def shrink(ops, drv, kind):
    """delete steps while the same kind of failure persists (handles are positional, so only
    steps that create no handle are removed, plus truncation)"""
    f = run_history(ops, drv)
    ops = ops[:f[2] + 1]
    i = 0
    while i < len(ops) - 1:
        if ops[i]['o'] in ('set', 'del', 'reg', 'delf'):
            cand = ops[:i] + ops[i + 1:]
            g = run_history(cand, drv)
            if g and g[0] == kind:
                ops = cand[:g[2] + 1]
                continue
        i += 1
    return ops


def run(env, res):
    drv = env['driver']
    tier = env['tier']
    rng = common.make_rng(env['seed'], 'C17')
    n_hist = 400 if tier == 'quick' else 12000
    if env['replay']:
        rp = json.load(open(env['replay']))
        histories = [rp['case']['ops']]
    else:
        histories = None
    res.rule = ('random histories of 10-60 operations over forests of <=14 contexts mixing the three classes; '
                'distinct = distinct op sequences; non-trivial = history creates a multi or linked context '
                'and performs a write after it')
    kinds_hist = {}
    for k in range(n_hist if histories is None else len(histories)):
        ops = gen_history(rng, rng.randrange(10, 61)) if histories is None else histories[k]
        for op in ops:
            kinds_hist[op['o']] = kinds_hist.get(op['o'], 0) + 1
        seen_composite = False
        nontrivial = False
        for op in ops:
            if op['o'] in ('multi', 'linked'):
                seen_composite = True
            elif seen_composite and op['o'] in ('set', 'del', 'reg', 'delf'):
                nontrivial = True
        res.case(common.digest(ops), nontrivial, sample=ops[:12] if k < 2 else None)
        f = run_history(ops, drv)
        res.traces += 1
        if f:
            kind = f[0]
            small = shrink(ops, drv, kind)
            g = run_history(small, drv)
            delk = 'multi-delete-partial' if (small[-1]['o'] == 'del') else 'lookup'
            res.fail(kind, delk, g[1], dict(ops=small, names=NAMES, fnames=FNAMES))
            if len(res.failures) >= 5:
                break
    res.extra['op_histogram'] = kinds_hist
    return res

LEVEL_TEXT = ('Lean 4 theorems over a code-shaped model of the three context classes: for EVERY context shape and cell '
              'table, reads equal reads of the flattened layer list (get_data_refines, contains_own, keys_own, '
              'collect_refines), MultiContext/LinkedContext constructors build the merged / concatenated layer lists '
              '(multi_is_merge, linked_is_concat), writes are local, deletion acts on the merged first layer. The model '
              'is tied to the code by replaying random forests and operation histories on the real classes and on the '
              'compiled model, comparing every observation after every step, and by a Python transcription of the '
              'layered reference evaluated on the raw state of the real objects.')
LEVEL_NOTE = ('trusted: Lean kernel; hand-written model Yaql/Model/Context.lean (dict/set as association lists, '
              'values ints/None, function definitions as opaque ids); the differential harness. create_child_context of '
              'a LinkedContext whose target is not a plain Context raises in the real code and in the model '
              '(statement silent). delete_function clears the exclusive flag of the name (modelled as implemented).')
TECHNIQUE = 'Lean 4 proof (structural induction over context shapes) + differential replay of histories'
DESIGN_REF = 'DESIGN.md section 5, C17'
