"""C04 - core evaluation semantics follow the language reference.

Generated programs of the fragment (literals, variables, list / map / index expressions, member
access, method chains, lambdas, let / -> / def / with / unpack) on JSON-like documents bound to `$`
are evaluated three ways:
  real    engine(text).evaluate(data=doc) of the yaql under test (text = rendering of the AST),
  ref     harness/evalref.py, a plain-Python transcription of the documented meaning (no yaql),
  model   the compiled Lean reference interpreter Yaql.Eval.run (the theorems are about it).
Relation: equal finalised result, or the same exception class.
Names (variables, keyword arguments, def-ined functions, dict keys) are drawn from pools that a naming convention, a case
fold or a sloppy lexer would rewrite, together with the names they would be rewritten into; half of the programs run
inside a short evaluation HISTORY on one engine (a reused Statement on another document; the SAME host document object
evaluated, updated in place by the host, evaluated again - same or freshly parsed Statement) and the LAST result is
the one compared.
Names also come from the vocabulary a Python implementation uses for its own parameters (value, self, context, engine,
args, kwargs, name, key ...); values include the ones the host language takes for equal (1 / true / 1.0, 0 / false / 0.0 /
-0.0, '' / null) side by side - as literals, document leaves and arguments of repeated calls of one def-ined function /
lambda - and results that hold lazy sequences, produced twice.  Results are compared with their types at every depth
(`typed`): Python's `==` is never used on results.  An evaluation that RAISES (any exception class: TypeError,
AttributeError, KeyError ...) where the references return a value is an oracle failure like any other difference.
Oracle (failing input): real differs from ref and the model does not side with real.
Mismatch (tie broken): the model differs from real although ref agrees with real (a slip in the
model), or ref is the odd one out (a slip in the transcription)."""
import json
import multiprocessing
import os
import signal
import zlib
import time

import common
import values
import evalgen
import evalref
from props import c04dispatch

ID = 'C04'
LEAN_MODULES = ['Yaql.Props.C04'] + c04dispatch.LEAN_MODULES
REQUIRED_THEOREMS = ['Yaql.Props.C04.' + n for n in (
    'frame frame_root sibling_independence shadowing shadowing_let unknown_null dollar_alias lambda_binds_innermost '
    'lambda_dollar get_argFrame with_numbering closure_lexical closure_lexical_args ucall_eq no_leak_arg no_leak_lambda '
    'no_leak_callee member_maps fuel_mono empty_frame_invisible let_names_verbatim let_other_name kwarg_names_verbatim '
    'def_names_verbatim normName_inj_plain def_call_pure def_call_own_args def_calls_independent def_then_call '
    'def_identity_faithful def_identity_injective').split()] + c04dispatch.REQUIRED_THEOREMS
generate = c04dispatch.generate          # Gen/RegistryTypes.lean: the live registry with its real parameter types
TRUSTED = ['harness/evalref.py (plain-Python transcription of the language reference, second opinion for every case)',
           'harness/evalgen.py: the renderer AST -> yaql text (every generated text is parsed back by the engine under '
           'test and compared with the AST that goes to the model)']
ASSUMPTIONS = ['documents are JSON-like: null / bool / int / float / str, lists, dicts with string keys (no sets, host objects); floats pass '
               'through the model (literals, document leaves, arguments, results, keys, `=`, `+`, sort keys) while `-`, `*`, unary '
               '`-` and the order comparisons on floats are predicted by the transcription only (model: out of domain)',
               'functions of the fragment: let with def unpack list dict select where selectMany orderBy orderByDescending '
               'takeWhile skipWhile indexWhere toDict aggregate sum first toList take skip get len any all; operators '
               '+ - * = != < <= > >= and or not unary-; anything else is outside the model',
               'function names are identified up to trailing underscores (documented: "all trailing underscores are stripped '
               'from the names"); every other name is data',
               'out of domain (skipped, counted): a variable holding a one-shot iterator read back, lazy sequences that '
               'raise / orderings / context objects stored inside data, operators applied to lazy sequences, keyword '
               'arguments of builtins, recursion deeper than the fuel']

OPTIONS = {'yaql.convertSetsToLists': True, 'yaql.limitIterators': 10000, 'yaql.memoryQuota': 10000000}
FUEL = 400

# ------------------------------------------------------------------ the three evaluators

_ENGINE = None
_ROOT = None


def engine():
    global _ENGINE, _ROOT
    if _ENGINE is None:
        import yaql
        _ENGINE = yaql.YaqlFactory().create(options=OPTIONS)
        _ROOT = yaql.create_context()
    return _ENGINE, _ROOT


class Timeout(BaseException):
    pass


def _alarm(signum, frame):
    raise Timeout()


def plain_result(r):
    """the finalised result in comparable form; anything that is not plain data is named"""
    from yaql.language import contexts
    if isinstance(r, contexts.ContextBase):
        return ('ctx',)
    return ('ok', r)


def perturb(v):
    """another document of the same shape (what a reused statement saw before)"""
    if isinstance(v, bool) or v is None:
        return v
    if isinstance(v, (int, float)):
        return v + 3
    if isinstance(v, str):
        return v + 'x'
    if isinstance(v, list):
        return [perturb(x) for x in reversed(v)]
    if isinstance(v, dict):
        return {k: perturb(x) for k, x in v.items()}
    return v


# ---- a host that keeps ONE document object and updates it in place between evaluations

def earlier(rng, v):
    """an earlier state of the document `v` (plain data, tuples for lists) from which in-place updates of the kind a
    host makes - keys added / changed / deleted, elements appended / replaced / popped, at any depth - lead to `v`.
    Keys and elements are only missing at the END, so that re-adding them restores the order of `v`."""
    if isinstance(v, dict):
        keys = list(v)
        cut = max(len(keys) - rng.choice((0, 0, 1, 2)), 0)
        out = {k: (earlier(rng, v[k]) if rng.random() < 0.6 else v[k]) for k in keys[:cut]}
        if rng.random() < 0.15:
            out['gone'] = rng.choice((0, 'x', (1, 2)))           # a key the host deletes later
        return out
    if isinstance(v, tuple):
        cut = max(len(v) - rng.choice((0, 0, 1, 2)), 0)
        out = [(earlier(rng, x) if rng.random() < 0.6 else x) for x in v[:cut]]
        if rng.random() < 0.15:
            out.append(rng.choice((0, 'x', None)))               # an element the host pops later
        return tuple(out)
    if isinstance(v, bool):
        return rng.choice((not v, not v, int(v), float(v)))
    if isinstance(v, int):
        return rng.choice((v + 1, v + 3, v - 2, float(v), v == 1))        # (also: the equal value of another type)
    if isinstance(v, float):
        return rng.choice((v + 1, int(v), -v, v == 1))
    if isinstance(v, str):
        return rng.choice((v + 'x', '', 7))
    return rng.choice((0, None, 'was'))


def _container_kind(x):
    return 'd' if isinstance(x, dict) else 'l' if isinstance(x, (list, tuple)) else None


def mutate_into(host, target):
    """update the host's containers IN PLACE (same objects, at every depth where the kind of container stays) until they
    hold `target`"""
    if isinstance(host, dict):
        for k in [k for k in host if k not in target]:
            del host[k]
        for k, tv in target.items():
            if k in host and _container_kind(host[k]) and _container_kind(host[k]) == _container_kind(tv):
                mutate_into(host[k], tv)
            else:
                host[k] = evalgen.to_host(tv)
    else:
        del host[len(target):]
        for i, tv in enumerate(target):
            if i < len(host) and _container_kind(host[i]) and _container_kind(host[i]) == _container_kind(tv):
                mutate_into(host[i], tv)
            elif i < len(host):
                host[i] = evalgen.to_host(tv)
            else:
                host.append(evalgen.to_host(tv))


def _ordered(v):
    if isinstance(v, dict):
        return ('d', [(k, _ordered(x)) for k, x in v.items()])
    if isinstance(v, (list, tuple)):
        return ('l', [_ordered(x) for x in v])
    return (type(v).__name__, repr(v))


REUSE_MODES = ('single', 'single', 'single', 'single', 'single', 'statement-on-another-document',
               'statement-on-another-document', 'same-document-mutated/same-statement',
               'same-document-mutated/fresh-statement', 'same-document-mutated-twice/same-statement')


FORCE_SINGLE = False


def reuse_mode(text):
    if FORCE_SINGLE:
        return 'single'
    return REUSE_MODES[zlib.crc32(text.encode('utf8')) % len(REUSE_MODES)]


def run_real_once(text, doc, timeout):
    """the result of the LAST evaluation of a short history on one engine; what it has to be is the meaning of `text` on
    the contents the document has at that time (= `doc`)"""
    import random
    eng, root = engine()
    mode = reuse_mode(text) if isinstance(doc, dict) else 'single'

    def attempt(st, data):
        try:
            st.evaluate(data=data, context=root.create_child_context())
        except Timeout:
            raise
        except Exception:       # noqa - the other / earlier document may not fit the program
            pass
    try:
        st = eng(text)
        signal.signal(signal.SIGALRM, _alarm)
        signal.setitimer(signal.ITIMER_REAL, timeout)
        try:
            if mode == 'statement-on-another-document':
                # a parsed statement is reusable: it is first evaluated on ANOTHER document of the same shape, and what
                # is compared is the result of the later evaluation of the same Statement object
                attempt(st, perturb(evalgen.to_host(doc)))
                host = evalgen.to_host(doc)
            elif mode.startswith('same-document-mutated'):
                # the host keeps ONE document object: evaluates, updates it in place, evaluates again
                rng = random.Random(zlib.crc32((text + repr(doc)).encode('utf8')))
                stages = [earlier(rng, doc)]
                if 'twice' in mode:
                    stages.insert(0, earlier(rng, stages[0]))
                host = evalgen.to_host(stages[0])
                attempt(st, host)
                for nxt in stages[1:] + [doc]:
                    mutate_into(host, nxt)
                    if nxt is not doc:
                        attempt(st, host)
                if _ordered(host) != _ordered(doc):
                    raise RuntimeError('mutate_into did not reach the document: %r vs %r' % (host, doc))
                if 'fresh' in mode:
                    st = eng(text)
            else:
                host = evalgen.to_host(doc)
            return plain_result(st.evaluate(data=host, context=root.create_child_context()))
        finally:
            signal.setitimer(signal.ITIMER_REAL, 0)
    except Timeout:
        return ('err', 'Timeout')
    except RecursionError:
        return ('err', 'RecursionError')
    except RuntimeError as e:
        if 'mutate_into' in str(e):
            raise
        return ('err', type(e).__name__)
    except Exception as e:
        return ('err', type(e).__name__)


def run_real(text, doc, timeout=5):
    r = run_real_once(text, doc, timeout)
    if r == ('err', 'Timeout'):
        r = run_real_once(text, doc, 8 * timeout)
    return r


def to_ref(v):
    if isinstance(v, dict):
        return evalref.FD((k, to_ref(x)) for k, x in v.items())
    if isinstance(v, (tuple, list)):
        return tuple(to_ref(x) for x in v)
    return v


def run_ref(doc, ast):
    return evalref.run(to_ref(doc), ast)


def wire(ast):
    return evalgen.map_lits(ast, values.enc)


def unwire(ast):
    return evalgen.map_lits(ast, lambda j: values.dec(j))


def enc_doc(doc):
    if isinstance(doc, dict):
        return {'d': [[values.enc(k), enc_doc(v)] for k, v in doc.items()]}
    if isinstance(doc, (tuple, list)):
        return {'tu': [enc_doc(x) for x in doc]}
    return values.enc(doc)


def dec_doc(j):
    if isinstance(j, dict) and 'd' in j:
        return {dec_doc(k): dec_doc(v) for k, v in j['d']}
    if isinstance(j, dict) and ('tu' in j or 'li' in j):
        return tuple(dec_doc(x) for x in (j.get('tu') or j.get('li') or []))
    return values.dec(j)


def ask_model(drv, cases):
    """cases: [(ast, doc)] -> replies decoded to ('ok', v) | ('ctx',) | ('err', cls) | ('ood',) | None"""
    if drv is None:
        return [None] * len(cases)
    out = []
    for i in range(0, len(cases), 250):
        rs = drv.ask({'p': 'C04', 'fuel': FUEL,
                      'cases': [{'doc': enc_doc(doc), 'e': wire(ast)} for ast, doc in cases[i:i + 250]]})['res']
        out += [dec_model(m) for m in rs]
    return out


def dec_model(m):
    if 'err' in m:
        return ('ood',) if m['err'] == 'OOD' else ('err', m['err'])
    if 'ctx' in m:
        return ('ctx',)
    return ('ok', dec_value(m['ok']))


def dec_value(j):
    if j is None or isinstance(j, bool):
        return j
    (k, x), = j.items()
    if k == 'i':
        return int(x)
    if k == 'f':
        return values.bits2f(x)
    if k == 's':
        return ''.join(chr(c) for c in x)
    if k in ('tu', 'li', 'it'):
        return [dec_value(t) for t in x]
    if k == 'd':
        # NOT a Python dict: it would merge the keys 1 / true / 1.0 of a (wrong) model result into one
        return Pairs((dec_value(a), dec_value(b)) for a, b in x)
    raise ValueError(j)


class Pairs(list):
    """the entries of a dictionary the model returned, as they crossed the wire"""


# ------------------------------------------------------------------ comparison

def typed(x):
    """results compared with their TYPES at every depth: 1, true and 1.0 are three values (Python's `[1] == [True] ==
    [1.0]` and `{1: 0} == {True: 0}` must not be used anywhere on this path), 0.0 and -0.0 are two (floats by their bits);
    lists and tuples alike, dicts as maps from typed keys"""
    if isinstance(x, Pairs):
        return ('D', tuple(sorted(((typed(k), typed(v)) for k, v in x), key=repr)))
    if isinstance(x, (list, tuple)):
        return ('L', tuple(typed(y) for y in x))
    if isinstance(x, dict):
        return ('D', tuple(sorted(((typed(k), typed(v)) for k, v in x.items()), key=repr)))
    if isinstance(x, float):
        return ('float', values.fbits(x))
    if x is None or isinstance(x, (bool, int, str)):
        return (type(x).__name__, repr(x))
    return ('?', type(x).__name__, repr(x))


def same(a, b):
    if a[0] != b[0]:
        return False
    if a[0] == 'ok':
        return typed(a[1]) == typed(b[1])
    return tuple(a) == tuple(b)


def agree(real, other):
    """None = the other side makes no prediction"""
    if other is None or other[0] == 'ood':
        return None
    return same(real, other)


def show_value(v):
    """JSON-like text that tells 1 / true / 1.0 / -0.0 apart, also as dictionary keys"""
    if isinstance(v, Pairs):
        return '{' + ', '.join(sorted('%s: %s' % (show_value(k), show_value(x)) for k, x in v)) + '}'
    if isinstance(v, dict):
        return '{' + ', '.join(sorted('%s: %s' % (show_value(k), show_value(x)) for k, x in v.items())) + '}'
    if isinstance(v, (list, tuple)):
        return '[' + ', '.join(show_value(x) for x in v) + ']'
    if v is None or isinstance(v, (bool, int, float, str)):
        return json.dumps(v)
    return repr(v)


def show(r):
    if r is None:
        return 'no-model'
    if r[0] == 'ok':
        return 'ok %s' % show_value(r[1])
    if r[0] == 'err':
        return 'raises ' + r[1]
    if r[0] == 'ctx':
        return 'a context object'
    return 'out-of-domain'


KNOWN_DEF = 'def-name-translated'


def translated_def_names(ast):
    """names given to def() in the program that the registration code rewrites (specs.convert_function_name under the
    context's CamelCaseConvention) although the call site looks the name up as written"""
    out = []

    def walk(e):
        if e[0] == 'call' and evalref.fn_key(e[1]) == 'def' and e[2] and e[2][0][0] in ('kw', 'lit') and \
                isinstance(e[2][0][1], str):
            n = e[2][0][1]
            try:
                if evalref.fn_key_as_implemented(n) != evalref.fn_key(n):
                    out.append(n)
            except IndexError:
                out.append(n)
        for c, _ in evalgen.children(e):
            walk(c)
    walk(ast)
    return out


def known_tag(ast, doc, real):
    """the known finding `def-name-translated`: the program def-ines a function under a name the registration rewrites
    AND the real result is exactly what the documented meaning gives once that one rewriting is put into it"""
    names = translated_def_names(ast)
    if names and same(real, evalref.run(to_ref(doc), ast, def_as_implemented=True)):
        return KNOWN_DEF
    return None


def evaluate_case(ast, doc, model):
    """-> (failure or None, info); failure = (kind, what, tag); tag = key of a known finding that explains it, or None"""
    text = evalgen.render(ast)
    real = run_real(text, doc)
    ref = run_ref(doc, ast)
    a_ref, a_mod = agree(real, ref), agree(real, model)
    info = dict(text=text, real=real, ref=ref, model=model, mode=reuse_mode(text) if isinstance(doc, dict) else 'single')
    if real[0] == 'err' and real[1] in ('RecursionError', 'MemoryError'):
        return None, info                  # a limit of the host interpreter, not a meaning
    where = '%s on %s' % (text, json.dumps(evalgen.to_host(doc), sort_keys=True))
    if info['mode'] != 'single':
        where += ' [history: %s; the LAST result is compared]' % info['mode']
    if a_ref is False and a_mod is not True:
        tag = known_tag(ast, doc, real)
        extra = ''
        if tag:
            extra = (' || def() registers the name %r rewritten by the naming convention (%r); called as written it is '
                     'unknown' % (translated_def_names(ast)[0], _as_impl(translated_def_names(ast)[0])))
        return ('oracle', '%s: real %s, reference %s (model: %s)%s' % (where, show(real), show(ref), show(model), extra),
                tag), info
    if a_ref is False:
        return ('mismatch', '%s: the transcription gives %s but real and model agree on %s' % (
            where, show(ref), show(real)), None), info
    if a_mod is False:
        return ('mismatch', '%s: real %s, model %s (transcription: %s)' % (where, show(real), show(model), show(ref)),
                None), info
    return None, info


def _as_impl(name):
    try:
        return evalref.fn_key_as_implemented(name)
    except IndexError:
        return 'IndexError'


# ------------------------------------------------------------------ scoping facts (probes on the real engine)

PROBES = [
    ('leak to sibling', "[let(x => 1) -> $x, $x]", [1, None]),
    ('wrong $', "[with(7) -> $, $1.len()]", [7, 0]),
    ('leak to outer', "[[1, 2].select(let(x => $) -> $x).toList(), $x]", [[1, 2], None]),
    ('leak to outer', "def(f, let(x => $) -> $x) -> [f(3), $x]", [3, None]),
    ('leak to outer', "[def(f, 1) -> f(), def(g, 2) -> g()]", [1, 2]),
    ('leak to sibling', "[def(f, 1) -> f(), f()]", ('err', 'NoFunctionRegisteredException')),
    ('leak to outer', "[[1].select(def(f, $) -> f(2)).toList(), f(3)]", ('err', 'NoFunctionRegisteredException')),
    ('wrong $', "[7, 8].select([$, $1])", [[7, 7], [8, 8]]),
    ('wrong $', "with(1, 2) -> [$, $1, $2, $0, $3]", [1, 1, 2, None, None]),
    ('wrong $', "[1, 2].select([10, 20].select($ + 1).toList() + [$])", [[11, 21, 1], [11, 21, 2]]),
    ('wrong $', "[3, 4].aggregate($1 * 10 + $2, 0)", 34),
    ('wrong $', "[5, 6].unpack() -> [$1, $2, $]", [5, 6, 5]),
    ('wrong $', "def(f, [$1, $2, $k]) -> [f(1, 2), f(3), f(4, k => 5), f()]",
     [[1, 2, None], [3, None, None], [4, None, 5], [{}, None, None]]),
    ('wrong $', "def(g, [$, $ > 0 and g($ - 1), $]) -> g(2)", [2, [1, [0, False, 0], 1], 2]),
    ('dynamic instead of lexical closure', "let(k => 1) -> def(f, $k) -> let(k => 2) -> f()", 1),
    ('dynamic instead of lexical closure', "let(k => 1) -> def(f, [$k, $]) -> [5, 6].select(f($ * 2))", [[1, 10], [1, 12]]),
    ('dynamic instead of lexical closure', "def(f, $) -> with(9) -> f(4)", 4),
    ('missing child context', "let(x => 1) -> [let(x => 2) -> $x, $x]", [2, 1]),
    ('missing child context', "let(x => 1) -> [[1].select(let(x => 5) -> $x).toList(), $x]", [[5], 1]),
    ('unknown variable not null', "[$nope, $nope = null]", [None, True]),
    ('member access not mapped', "[{a => 1}, {a => 2}].a", [1, 2]),
    ('member access not mapped', "[{a => 1}, {a => 2}].select($.a)", [1, 2]),
    ('dynamic instead of lexical closure', "[1, 2, 3].select(let(k => $) -> def(f, $k * 10) -> f())", [10, 20, 30]),
    ('dynamic instead of lexical closure', "[[1, 2], [3]].select(def(n, $.len()) -> $.select($ * n()))", [[2, 4], [3]]),
    ('wrong $', "[1, 2].select(def(f, $) -> [f(7), f()])", [[7, 1], [7, 2]]),
]


# doc-silent spots modelled as implemented (past disagreements between the references and the code)
REGRESSIONS = [
    ('literal operands are type-checked before anything is evaluated', "false + [][0]", ('err', 'NoMatchingFunctionException')),
    ('literal operands are type-checked before anything is evaluated', "[][0] - a", ('err', 'NoMatchingFunctionException')),
    ('literal operands are type-checked before anything is evaluated', "[][0] < true", ('err', 'IndexError')),
    ('literal operands are type-checked before anything is evaluated', "'abc'[[][0]]", ('err', 'NoMatchingFunctionException')),
    ('literal operands are type-checked before anything is evaluated', "[1].unpack(1, [][0])", ('err', 'NoMatchingMethodException')),
    ('the selector of an ordering runs inside the comparisons', "[1].orderBy($.foo)", [1]),
    ('a generator raises only when it is consumed', "[1, 'a'].select($ + 1).first()", 2),
    ('len does not accept an ordering', "[2, 1].orderBy($).len()", ('err', 'NoMatchingMethodException')),
    ('unpack() without names consumes the whole source', "[1, 'a'].select($ + 1).unpack() -> $1", ('err', 'NoMatchingFunctionException')),
    ('unpack(names) looks at len(names) + 1 elements', "[1, 'a'].select($ + 1).unpack(x) -> $x", ('err', 'NoMatchingFunctionException')),
    ('unpack(names) looks at len(names) + 1 elements', "[1, 2, 'a'].select($ + 1).unpack(x) -> $x", ('err', 'ValueError')),
    ('unpack(names) looks at len(names) + 1 elements', "[1, 'a'].select($ + 1).unpack(x, y) -> $x", ('err', 'NoMatchingFunctionException')),
]


def expect(expected):
    return expected if isinstance(expected, tuple) and expected[:1] == ('err',) else ('ok', expected)


def parse_ast(text):
    eng, _ = engine()
    return evalgen.from_yaql(eng(text))


def scoping_facts():
    """the named scoping facts of the statement that the engine under test breaks"""
    bad = []
    for fact, text, expected in PROBES:
        got = run_real(text, {})
        if not same(got, expect(expected)):
            bad.append('%s: %s gives %s, expected %s' % (fact, text, show(got), show(expect(expected))))
    return bad


# ------------------------------------------------------------------ shrinking

def fails(ast, doc, drv, kind, tag=None, mode=None):
    """the failure of this (smaller) case if it is of the same kind, explained by the same known finding (or by none)
    and found under the same evaluation history"""
    try:
        text = evalgen.render(ast)
        if mode is not None and not (isinstance(doc, dict) and reuse_mode(text).startswith(mode)):
            return None
        m = ask_model(drv, [(ast, doc)])[0]
        f, _ = evaluate_case(ast, doc, m)
    except Exception:
        return None
    return f if f and f[0] == kind and f[2] == tag else None


def shrink_doc_candidates(doc):
    out = []
    if isinstance(doc, dict):
        for k in doc:
            out.append({a: b for a, b in doc.items() if a != k})
        for k, v in doc.items():
            for c in shrink_doc_candidates(v):
                d = dict(doc)
                d[k] = c
                out.append(d)
    elif isinstance(doc, tuple):
        for i in range(len(doc)):
            out.append(doc[:i] + doc[i + 1:])
    return out


def shrink(ast, doc, drv, kind, tag=None, mode=None, budget=400, doc_budget=120):
    changed = True
    if isinstance(doc, dict) and doc and fails(ast, {}, drv, kind, tag, mode):
        doc = {}                            # the document plays no role
    while changed and (budget > 0 or doc_budget > 0):
        changed = False
        for cand in evalgen.shrink_candidates(ast):
            if evalgen.size(cand) >= evalgen.size(ast):
                continue
            budget -= 1
            if budget <= 0:
                break
            if fails(cand, doc, drv, kind, tag, mode):
                ast, changed = cand, True
                break
        if changed:
            continue
        for cand in ([{}] if isinstance(doc, dict) and doc else []) + shrink_doc_candidates(doc):
            doc_budget -= 1                 # (its own budget: a long program must not leave the document unshrunk)
            if doc_budget <= 0:
                break
            if fails(ast, cand, drv, kind, tag, mode):
                doc, changed = cand, True
                break
    return ast, doc


def failure_key(ast):
    names = sorted(k for k in evalgen.constructs(ast) if not k.startswith(('lit', 'kw')))
    return '+'.join(names)[:80]


def replay_of(ast, doc, facts=None):
    r = {'ast': wire(ast), 'doc': enc_doc(doc), 'text': evalgen.render(ast)}
    if facts is not None:
        r['scoping_facts_broken'] = facts
    return r


def report(ast, doc, drv, f):
    """shrink, re-evaluate, describe"""
    # a failure that needs an evaluation history (the text decides which) is shrunk among texts with the same history
    mode = reuse_mode(evalgen.render(ast))
    keep = None
    if mode != 'single' and not run_single(ast, doc, drv, f):
        keep = mode.split('/')[0].replace('-twice', '')          # the failure needs this kind of history
    sast, sdoc = shrink(ast, doc, drv, f[0], f[2], keep)
    g = fails(sast, sdoc, drv, f[0], f[2], keep) or f
    facts = None
    what = g[1]
    if g[0] == 'oracle' and not g[2]:
        facts = scoping_facts()
        if facts:
            what += ' || scoping facts of the statement broken on this engine: ' + '; '.join(facts[:4])
    return (g[0], g[2] or failure_key(sast), what, replay_of(sast, sdoc, facts))


def run_single(ast, doc, drv, f):
    """does the case fail also as ONE plain evaluation (then the history is irrelevant and shrinking may change it)"""
    global FORCE_SINGLE
    FORCE_SINGLE = True
    try:
        g = fails(ast, doc, drv, f[0], f[2], None)
    finally:
        FORCE_SINGLE = False
    return g is not None


# ------------------------------------------------------------------ worker

def bump(d, k, n=1):
    d[k] = d.get(k, 0) + n


def work(args):
    idx, n_cases, seed, max_depth, use_model = args
    rng = common.make_rng(seed, 'C04/%d' % idx)
    drv = common.Driver() if use_model else None
    out = dict(cases=[], failures=[], n=0, traces=0, outcome={}, errs={}, depth={}, size={}, types={}, constructs={},
               pairs={}, ood_ref=0, ood_model=0, parse_diff=[], sample=None, modes={}, names={}, known={}, values={})
    try:
        batch = []
        for _ in range(n_cases):
            ast, doc, t = evalgen.program(rng, max_depth)
            batch.append((ast, doc, t))
        replies = ask_model(drv, [(a, d) for a, d, _ in batch])
        for (ast, doc, t), model in zip(batch, replies):
            text = evalgen.render(ast)
            back = parse_ast(text)
            if back != ast or repr(back) != repr(ast):         # (repr: the literal 1 is not the literal true / 1.0)
                out['parse_diff'].append(text)
                continue
            f, info = evaluate_case(ast, doc, model)
            real, ref = info['real'], info['ref']
            out['n'] += 1
            if model is not None:
                out['traces'] += 1
            bump(out['outcome'], real[0])
            if real[0] == 'err':
                bump(out['errs'], real[1])
            if ref[0] == 'ood':
                out['ood_ref'] += 1
            if model is not None and model[0] == 'ood':
                out['ood_model'] += 1
            bump(out['depth'], min(evalgen.depth(ast), 12))
            bump(out['size'], min(evalgen.size(ast) // 5 * 5, 60))
            bump(out['types'], t if isinstance(t, str) else t[0])
            for k, c in evalgen.constructs(ast).items():
                bump(out['constructs'], k, c)
            for o, i in evalgen.nesting_pairs(ast):
                bump(out['pairs'], o + '>' + i)
            predicted = ref[0] != 'ood' or (model is not None and model[0] != 'ood')
            out['cases'].append((common.digest([text, repr(doc)]), real[0] == 'ok' and predicted))
            if out['sample'] is None and real[0] == 'ok' and evalgen.size(ast) > 8:
                out['sample'] = dict(text=text, doc=json.dumps(evalgen.to_host(doc), sort_keys=True)[:200],
                                     real=show(real)[:200])
            bump(out['modes'], info['mode'])
            for cls in evalgen.name_classes(ast):
                bump(out['names'], cls)
            for cls in evalgen.value_classes(ast, doc):
                bump(out['values'], cls)
            if f and f[2]:
                bump(out['known'], f[2])
                if not any(k == f[2] for _, k, _, _ in out['failures']):
                    out['failures'].append(report(ast, doc, drv, f))   # one (shrunk) instance of a known finding
            elif f and sum(1 for _, k, _, _ in out['failures'] if k != KNOWN_DEF) < 2:
                out['failures'].append(report(ast, doc, drv, f))
    finally:
        if drv:
            drv.close()
    return out


def fixed_battery(drv, res):
    """the probe programs, three ways, every run"""
    n = 0
    for fact, text, expected in PROBES + REGRESSIONS:
        ast = parse_ast(text)
        model = ask_model(drv, [(ast, {})])[0]
        f, info = evaluate_case(ast, {}, model)
        n += 1
        res.case(common.digest([text, 'probe']), True)
        if drv is not None:
            res.traces += 1
        if not same(info['ref'], expect(expected)):
            res.fail('mismatch', 'probe', 'probe %s: the transcription gives %s, the probe table expects %s' % (
                text, show(info['ref']), show(expect(expected))), replay_of(ast, {}))
        if f:
            facts = scoping_facts() if f[0] == 'oracle' else None
            what = f[1] + (' || scoping fact: ' + fact if f[0] == 'oracle' and (fact, text, expected) in PROBES else '')
            res.fail(f[0], f[2] or failure_key(ast), what, replay_of(ast, {}, facts))
    return n


def run(env, res):
    tier = env['tier']
    drv = env['driver']
    use_model = drv is not None
    res.rule = ('type-directed programs of the fragment (generator depth <= 4 quick / <= 6 thorough) over a random JSON-like '
                'document bound to `$`: 30% scoping scenarios with random parts, 20% lists of independent expressions, the '
                'rest typed expressions; every binding construct is followed by uses of what it bound and by reads of names '
                'bound elsewhere and of RELATIVES of bound names (snake/camel, trailing / leading underscore, case, digits); '
                'names of variables / keywords / functions / keys from adversarial pools (also the host implementation\'s own '
                'vocabulary: value, self, context, args ..); scalars that Python takes for equal (1 / true / 1.0, 0 / false / 0.0 / '
                '-0.0) as literals, document leaves and arguments of repeated calls; 50% single evaluations, 20% a reused '
                'Statement after another document, 30% the same host document object mutated in place between evaluations '
                '(same / fresh Statement); distinct = distinct (text, document); non-trivial = the real evaluation returns '
                'a value and at least one reference makes a prediction')
    if env['replay']:
        rp = json.load(open(env['replay']))
        case = rp['case']
        if case.get('section') == 'dispatch':
            return c04dispatch.replay(env, res, case)
        ast, doc = unwire(case['ast']), dec_doc(case['doc'])
        model = ask_model(drv, [(ast, doc)])[0]
        f, info = evaluate_case(ast, doc, model)
        res.case(common.digest([info['text'], repr(doc)]), True, sample=info['text'])
        res.traces += 1 if use_model else 0
        if f:
            facts = scoping_facts() if f[0] == 'oracle' else None
            res.fail(f[0], f[2] or failure_key(ast), f[1], replay_of(ast, doc, facts))
        return res
    t0 = time.time()
    n_probe = fixed_battery(drv, res)
    c04dispatch.run_section(env, res, __import__('sys').modules[__name__])
    if tier == 'quick':
        nproc, per, depth = 4, 4000, 4
    else:
        nproc, per, depth = 10, 22000, 6
    jobs = [(i, per, env['seed'], depth, use_model) for i in range(nproc)]
    with multiprocessing.Pool(nproc) as pool:
        results = pool.map(work, jobs, chunksize=1)
    hist = dict(outcome={}, real_error_classes={}, ast_depth={}, ast_size={}, result_types={}, constructs={},
                evaluation_history={}, names_by_class={}, known_finding_hits={}, value_situations={})
    pairs, ood_ref, ood_model, n, parse_diff = {}, 0, 0, 0, []
    for out in results:
        for sig, nt in out['cases']:
            res.case(sig, nt)
        res.traces += out['traces']
        n += out['n']
        ood_ref += out['ood_ref']
        ood_model += out['ood_model']
        parse_diff += out['parse_diff']
        if out['sample'] and len(res.samples) < 6:
            res.samples.append(out['sample'])
        for kind, key, what, replay in out['failures']:
            res.fail(kind, key, what, replay)
        for src, dst in ((out['outcome'], hist['outcome']), (out['errs'], hist['real_error_classes']),
                         (out['depth'], hist['ast_depth']), (out['size'], hist['ast_size']),
                         (out['types'], hist['result_types']), (out['constructs'], hist['constructs']), (out['pairs'], pairs),
                         (out['modes'], hist['evaluation_history']), (out['names'], hist['names_by_class']),
                         (out['known'], hist['known_finding_hits']), (out['values'], hist['value_situations'])):
            for k, v in src.items():
                dst[str(k)] = dst.get(str(k), 0) + v
    if parse_diff:
        raise RuntimeError('the renderer and the parser disagree about %d generated texts, e.g. %r' % (
            len(parse_diff), parse_diff[0]))
    ok = hist['outcome'].get('ok', 0) + hist['outcome'].get('ctx', 0)
    hist['evaluate_without_error_pct'] = round(100.0 * ok / max(n, 1), 1)
    hist['out_of_domain'] = dict(transcription=ood_ref, model=ood_model)
    matrix = {o: {i: pairs.get(o + '>' + i, 0) for i in evalgen.CONSTRUCTS} for o in evalgen.CONSTRUCTS}
    res.extra['histogram'] = hist
    res.extra['nesting_pairs'] = dict(rows='outer construct', columns='inner construct (programs containing the pair)',
                                      matrix=matrix,
                                      covered=sum(1 for o in matrix for i in matrix[o] if matrix[o][i]),
                                      of=len(evalgen.CONSTRUCTS) ** 2)
    res.extra['programs'] = n
    res.extra['probes'] = n_probe
    res.extra['correspondence_wall_s'] = round(time.time() - t0, 1)
    return res


LEVEL_TEXT = ('Lean 4 theorems, for ALL expressions, contexts, documents and fuel, about an executable reference interpreter '
              'of the core fragment written from the language reference (contexts = immutable chains of frames; every call '
              'that can publish names gets a fresh child; a lambda runs in a child of its DEFINING context): evaluation hands '
              'back only extensions of pre-existing contexts and evaluates siblings in the unchanged context (frame, '
              'sibling_independence, no_leak_*), lookup returns the nearest binding, unknown names are null, `$`/`$1`/empty name '
              'are one variable, `$k` inside a lambda body is the k-th argument of the innermost application whatever is bound '
              'outside, a def-ined function called from any later context gives the result it gives where it was defined, '
              '`coll.name` = `coll.select($.name)`, more fuel never changes a definite outcome; names are data '
              '(let_names_verbatim, kwarg_names_verbatim, def_names_verbatim: for ALL names, a let / keyword argument / def is '
              'visible exactly under its own normal form - `$`-prefix and `$`=`$1` for variables, trailing underscores for '
              'functions - and invisible to every other name); a call of a def-ined function is the body evaluated on the '
              'argument VALUES of that call and of nothing else (def_call_own_args, def_call_pure, def_calls_independent), values '
              'being compared structurally, so that 1 / true / 1.0 are three arguments (def_identity_faithful / _injective).  '
              'The interpreter is tied to the '
              'code by running generated programs (typed generator, scoping scenarios, reads of names bound elsewhere) on the '
              'real engine, on the compiled model and on an independent plain-Python transcription, comparing finalised results / '
              'exception classes three ways (types compared at every depth, floats by their bits); names come from pools a '
              'normalisation would rewrite and from the host implementation\'s own vocabulary, values include the ones Python '
              'takes for equal (1 / true / 1.0 ...) as literals, document leaves and arguments of repeated calls, and half of the '
              'programs are the last step of an evaluation history on one engine (reused Statement, host document mutated in place).')
LEVEL_NOTE = ('trusted: Lean kernel; the hand-written interpreter Yaql/Model/Eval.lean (reusing the value semantics of Model/Seq.lean '
              'and the name normalisation of Model/Context.lean); harness/evalref.py; the renderer (every text is parsed back by '
              'the engine under test and compared with the AST).  "frame" holds by construction of the representation (contexts '
              'are values), so what is proved is its observable content.  The builtins inside the evaluator are dispatched by '
              'name / receiver kind; that this IS overload resolution on the real registry is proved (props/c04dispatch.py: '
              'C04DispatchGen.C04Dispatch_partial over the registry regenerated with its real parameter types, C04Dispatch.'
              'resolve_kinds for all values, C04DispatchEval ties) for the 21 145 call shapes of the dispatch fragment.  Out of domain (skipped, counted): one-shot iterators read back from variables, raising generators / '
              'orderings / contexts stored inside data, operators on lazy sequences.')
TECHNIQUE = 'Lean 4 proof (induction on fuel over a non-recursive step functional) + three-way differential run of generated programs'
DESIGN_REF = 'DESIGN.md section 5, C04'
