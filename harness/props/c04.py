"""C04 - core evaluation semantics follow the language reference.

Generated programs of the fragment (literals, variables, list / map / index expressions, member
access, method chains, lambdas, let / -> / def / with / unpack) on JSON-like documents bound to `$`
are evaluated three ways:
  real    engine(text).evaluate(data=doc) of the yaql under test (text = rendering of the AST),
  ref     harness/evalref.py, a plain-Python transcription of the documented meaning (no yaql),
  model   the compiled Lean reference interpreter Yaql.Eval.run (the theorems are about it).
Relation: equal finalised result, or the same exception class.
Names (variables, keyword arguments, def-ined functions, dict keys) are drawn from pools that a naming convention, a case
fold or a sloppy lexer would rewrite, together with the names they would be rewritten into; half of the programs run
inside a short evaluation HISTORY on one engine (a reused Statement on another document; the SAME host document object
evaluated, updated in place by the host, evaluated again - same or freshly parsed Statement) and the LAST result is
the one compared.
Names also come from the vocabulary a Python implementation uses for its own parameters (value, self, context, engine,
args, kwargs, name, key ...); values include the ones the host language takes for equal (1 / true / 1.0, 0 / false / 0.0 /
-0.0, '' / null) side by side - as literals, document leaves and arguments of repeated calls of one def-ined function /
lambda - and results that hold lazy sequences, produced twice.  Results are compared with their types at every depth
(`typed`): Python's `==` is never used on results.  An evaluation that RAISES (any exception class: TypeError,
AttributeError, KeyError ...) where the references return a value is an oracle failure like any other difference.
Collections `.name` is applied to hold elements of MIXED kinds (records next to nested collections of records, literals /
document fields / host variables / lazy sequences); 30% of the programs run on a context chain the HOST prepared - variables in
the context handed to `yaql.create_context(context=..)` (below the library layers), in contexts stacked on the library context,
the same name at several depths - with the document entering through `evaluate(data=..)` on the top context / a child,
`yaql.create_context(data=..)` + `evaluate(context=..)` without data, or bound by the host itself at any depth; a fifth of the
calls of builtin methods pass their trailing arguments - lambdas included - BY KEYWORD (`toDict(keySelector => .., valueSelector
=> ..)`), some under names that are no parameter.
Oracle (failing input): real differs from ref and the model does not side with real.
Mismatch (tie broken): the model differs from real although ref agrees with real (a slip in the
model), or ref is the odd one out (a slip in the transcription)."""
import json
import multiprocessing
import os
import signal
import zlib
import time

import common
import values
import evalgen
import evalref
from props import c04dispatch

ID = 'C04'
LEAN_MODULES = ['Yaql.Props.C04', 'Yaql.Props.C04Gen'] + c04dispatch.LEAN_MODULES
REQUIRED_THEOREMS = ['Yaql.Props.C04.' + n for n in (
    'frame frame_root sibling_independence shadowing shadowing_let unknown_null dollar_alias lambda_binds_innermost '
    'lambda_dollar get_argFrame with_numbering closure_lexical closure_lexical_args ucall_eq no_leak_arg no_leak_lambda '
    'no_leak_callee member_maps fuel_mono empty_frame_invisible let_names_verbatim let_other_name kwarg_names_verbatim '
    'def_names_verbatim normName_inj_plain def_call_pure def_call_own_args def_calls_independent def_then_call '
    'def_identity_faithful def_identity_injective select_member_elem member_elementwise memberV_nested host_var_visible '
    'host_var_topmost doc_position_irrelevant dollar_from_any_depth runHost_nil toDict_by_keyword lambda_by_keyword '
    'select_by_keyword noOverload_raises positional_id').split()] + [
        'Yaql.Props.C04Gen.kwParams_live', 'Yaql.Props.C04Gen.kwParams_total', 'Yaql.Props.C04Gen.kwParams_camel'] + \
    c04dispatch.REQUIRED_THEOREMS


def generate():
    import pyfacts
    info = dict(pyfacts.run(['KwParams'])['KwParams'] or {})
    info.update(c04dispatch.generate() or {})   # Gen/RegistryTypes.lean: the live registry with its real parameter types
    return info

TRUSTED = ['harness/evalref.py (plain-Python transcription of the language reference, second opinion for every case)',
           'harness/evalgen.py: the renderer AST -> yaql text (every generated text is parsed back by the engine under '
           'test and compared with the AST that goes to the model)']
ASSUMPTIONS = ['documents are JSON-like: null / bool / int / float / str, lists, dicts with string keys (no sets, host objects); floats pass '
               'through the model (literals, document leaves, arguments, results, keys, `=`, `+`, sort keys) while `-`, `*`, unary '
               '`-` and the order comparisons on floats are predicted by the transcription only (model: out of domain)',
               'functions of the fragment: let with def unpack list dict select where selectMany orderBy orderByDescending '
               'takeWhile skipWhile indexWhere toDict aggregate sum first toList take skip get len any all; operators '
               '+ - * = != < <= > >= and or not unary-; anything else is outside the model',
               'keyword arguments of the 16 builtin methods with parameters are evaluated as the positional call that says the same '
               '(Expr.positional; the keyword names are proved equal to the live registry\'s by C04Gen.kwParams_live); repeated '
               'keywords, a parameter left out in between, eager keyword arguments written in another order than the parameters '
               'and keyword arguments of the function form / of get / len are out of domain',
               'host context chains: variables hold converted (frozen) data; the library layers between the host\'s contexts bind no '
               'variable (empty_frame_invisible)',
               'function names are identified up to trailing underscores (documented: "all trailing underscores are stripped '
               'from the names"); every other name is data',
               'out of domain (skipped, counted): a variable holding a one-shot iterator read back, lazy sequences that '
               'raise / orderings / context objects stored inside data (also: the projection of a NESTED collection that would '
               'raise), operators applied to lazy sequences, recursion deeper than the fuel']

OPTIONS = {'yaql.convertSetsToLists': True, 'yaql.limitIterators': 10000, 'yaql.memoryQuota': 10000000}
FUEL = 400

# ------------------------------------------------------------------ the three evaluators

_ENGINE = None
_ROOT = None


def engine():
    global _ENGINE, _ROOT
    if _ENGINE is None:
        import yaql
        _ENGINE = yaql.YaqlFactory().create(options=OPTIONS)
        _ROOT = yaql.create_context()
    return _ENGINE, _ROOT


class Timeout(BaseException):
    pass


def _alarm(signum, frame):
    raise Timeout()


def plain_result(r):
    """the finalised result in comparable form; anything that is not plain data is named"""
    from yaql.language import contexts
    if isinstance(r, contexts.ContextBase):
        return ('ctx',)
    return ('ok', r)


def perturb(v):
    """another document of the same shape (what a reused statement saw before)"""
    if isinstance(v, bool) or v is None:
        return v
    if isinstance(v, (int, float)):
        return v + 3
    if isinstance(v, str):
        return v + 'x'
    if isinstance(v, list):
        return [perturb(x) for x in reversed(v)]
    if isinstance(v, dict):
        return {k: perturb(x) for k, x in v.items()}
    return v


# ---- a host that keeps ONE document object and updates it in place between evaluations

def earlier(rng, v):
    """an earlier state of the document `v` (plain data, tuples for lists) from which in-place updates of the kind a
    host makes - keys added / changed / deleted, elements appended / replaced / popped, at any depth - lead to `v`.
    Keys and elements are only missing at the END, so that re-adding them restores the order of `v`."""
    if isinstance(v, dict):
        keys = list(v)
        cut = max(len(keys) - rng.choice((0, 0, 1, 2)), 0)
        out = {k: (earlier(rng, v[k]) if rng.random() < 0.6 else v[k]) for k in keys[:cut]}
        if rng.random() < 0.15:
            out['gone'] = rng.choice((0, 'x', (1, 2)))           # a key the host deletes later
        return out
    if isinstance(v, tuple):
        cut = max(len(v) - rng.choice((0, 0, 1, 2)), 0)
        out = [(earlier(rng, x) if rng.random() < 0.6 else x) for x in v[:cut]]
        if rng.random() < 0.15:
            out.append(rng.choice((0, 'x', None)))               # an element the host pops later
        return tuple(out)
    if isinstance(v, bool):
        return rng.choice((not v, not v, int(v), float(v)))
    if isinstance(v, int):
        return rng.choice((v + 1, v + 3, v - 2, float(v), v == 1))        # (also: the equal value of another type)
    if isinstance(v, float):
        return rng.choice((v + 1, int(v), -v, v == 1))
    if isinstance(v, str):
        return rng.choice((v + 'x', '', 7))
    return rng.choice((0, None, 'was'))


def _container_kind(x):
    return 'd' if isinstance(x, dict) else 'l' if isinstance(x, (list, tuple)) else None


def mutate_into(host, target):
    """update the host's containers IN PLACE (same objects, at every depth where the kind of container stays) until they
    hold `target`"""
    if isinstance(host, dict):
        for k in [k for k in host if k not in target]:
            del host[k]
        for k, tv in target.items():
            if k in host and _container_kind(host[k]) and _container_kind(host[k]) == _container_kind(tv):
                mutate_into(host[k], tv)
            else:
                host[k] = evalgen.to_host(tv)
    else:
        del host[len(target):]
        for i, tv in enumerate(target):
            if i < len(host) and _container_kind(host[i]) and _container_kind(host[i]) == _container_kind(tv):
                mutate_into(host[i], tv)
            elif i < len(host):
                host[i] = evalgen.to_host(tv)
            else:
                host.append(evalgen.to_host(tv))


def _ordered(v):
    if isinstance(v, dict):
        return ('d', [(k, _ordered(x)) for k, x in v.items()])
    if isinstance(v, (list, tuple)):
        return ('l', [_ordered(x) for x in v])
    return (type(v).__name__, repr(v))


REUSE_MODES = ('single', 'single', 'single', 'single', 'single', 'statement-on-another-document',
               'statement-on-another-document', 'same-document-mutated/same-statement',
               'same-document-mutated/fresh-statement', 'same-document-mutated-twice/same-statement')


FORCE_SINGLE = False


def reuse_mode(text):
    if FORCE_SINGLE:
        return 'single'
    return REUSE_MODES[zlib.crc32(text.encode('utf8')) % len(REUSE_MODES)]


def host_eval(st, host, env, root):
    """the evaluation the result of which is compared: `st` on the host document `host`, entered the way `env` says
    (harness/evalgen.py: gen_host_env).  env None: `evaluate(data=doc, context=<child of the library context>)`.
    Otherwise the host has a context chain of its own - layer 0 is handed to `yaql.create_context(context=..)` (its
    variables live BELOW the layers of the standard library), the other layers are stacked on the context that returns -
    and binds the document
      create_context[-child]  with `yaql.create_context(data=doc, context=layer0)`, evaluating without data on the top
                              context [a child of it];
      host-binds-$            itself: `layer[at - 1]['$'] = convert_input_data(doc)`, evaluating without data on a child;
      evaluate-top / -child   with `evaluate(data=doc, context=top [a child of top])`.
    Only public API; every context of the chain is made for this one evaluation."""
    if env is None:
        return st.evaluate(data=host, context=root.create_child_context())
    import yaql
    from yaql.language import contexts, conventions, utils
    layers, entry, at = env['layers'], env['entry'], env['at']
    bind_root = entry.startswith('create_context')
    if layers[0] or bind_root:
        h0 = contexts.Context(convention=conventions.CamelCaseConvention())
        for n, v in layers[0]:
            h0[n] = utils.convert_input_data(evalgen.to_host(v))
        top = yaql.create_context(data=host, context=h0) if bind_root else yaql.create_context(context=h0)
    else:
        top = root.create_child_context()
    if entry == 'host-binds-$' and at == 1:
        if layers[0]:
            h0['$'] = utils.convert_input_data(host)
        else:
            top['$'] = utils.convert_input_data(host)
    for i, layer in enumerate(layers[1:], 1):
        top = top.create_child_context()
        for n, v in layer:
            top[n] = utils.convert_input_data(evalgen.to_host(v))
        if entry == 'host-binds-$' and at == i + 1:
            top['$'] = utils.convert_input_data(host)
    if entry == 'evaluate-top':
        return st.evaluate(data=host, context=top)
    if entry == 'evaluate-child':
        return st.evaluate(data=host, context=top.create_child_context())
    if entry == 'create_context':
        return st.evaluate(context=top)
    return st.evaluate(context=top.create_child_context())


def run_real_once(text, doc, timeout, env=None):
    """the result of the LAST evaluation of a short history on one engine; what it has to be is the meaning of `text` on
    the contents the document has at that time (= `doc`)"""
    import random
    eng, root = engine()
    mode = reuse_mode(text) if isinstance(doc, dict) else 'single'

    def attempt(st, data):
        try:
            st.evaluate(data=data, context=root.create_child_context())
        except Timeout:
            raise
        except Exception:       # noqa - the other / earlier document may not fit the program
            pass
    try:
        st = eng(text)
        signal.signal(signal.SIGALRM, _alarm)
        signal.setitimer(signal.ITIMER_REAL, timeout)
        try:
            if mode == 'statement-on-another-document':
                # a parsed statement is reusable: it is first evaluated on ANOTHER document of the same shape, and what
                # is compared is the result of the later evaluation of the same Statement object
                attempt(st, perturb(evalgen.to_host(doc)))
                host = evalgen.to_host(doc)
            elif mode.startswith('same-document-mutated'):
                # the host keeps ONE document object: evaluates, updates it in place, evaluates again
                rng = random.Random(zlib.crc32((text + repr(doc)).encode('utf8')))
                stages = [earlier(rng, doc)]
                if 'twice' in mode:
                    stages.insert(0, earlier(rng, stages[0]))
                host = evalgen.to_host(stages[0])
                attempt(st, host)
                for nxt in stages[1:] + [doc]:
                    mutate_into(host, nxt)
                    if nxt is not doc:
                        attempt(st, host)
                if _ordered(host) != _ordered(doc):
                    raise RuntimeError('mutate_into did not reach the document: %r vs %r' % (host, doc))
                if 'fresh' in mode:
                    st = eng(text)
            else:
                host = evalgen.to_host(doc)
            return plain_result(host_eval(st, host, env, root))
        finally:
            signal.setitimer(signal.ITIMER_REAL, 0)
    except Timeout:
        return ('err', 'Timeout')
    except RecursionError:
        return ('err', 'RecursionError')
    except RuntimeError as e:
        if 'mutate_into' in str(e):
            raise
        return ('err', type(e).__name__)
    except Exception as e:
        return ('err', type(e).__name__)


def run_real(text, doc, timeout=5, env=None):
    r = run_real_once(text, doc, timeout, env)
    if r == ('err', 'Timeout'):
        r = run_real_once(text, doc, 8 * timeout, env)
    return r


def to_ref(v):
    if isinstance(v, dict):
        return evalref.FD((k, to_ref(x)) for k, x in v.items())
    if isinstance(v, (tuple, list)):
        return tuple(to_ref(x) for x in v)
    return v


def ref_env(env):
    if env is None:
        return None
    return dict(env, layers=[[(n, to_ref(v)) for n, v in layer] for layer in env['layers']])


def run_ref(doc, ast, env=None):
    return evalref.run(to_ref(doc), ast, env=ref_env(env))


def enc_env(env):
    return {'layers': [[[n, enc_doc(v)] for n, v in layer] for layer in env['layers']], 'entry': env['entry'], 'at': env['at']}


def dec_env(j):
    if j is None:
        return None
    return {'layers': [[[n, dec_doc(v)] for n, v in layer] for layer in j['layers']], 'entry': j['entry'], 'at': j['at']}


def wire(ast):
    return evalgen.map_lits(ast, values.enc)


def unwire(ast):
    return evalgen.map_lits(ast, lambda j: values.dec(j))


def enc_doc(doc):
    if isinstance(doc, dict):
        return {'d': [[values.enc(k), enc_doc(v)] for k, v in doc.items()]}
    if isinstance(doc, (tuple, list)):
        return {'tu': [enc_doc(x) for x in doc]}
    return values.enc(doc)


def dec_doc(j):
    if isinstance(j, dict) and 'd' in j:
        return {dec_doc(k): dec_doc(v) for k, v in j['d']}
    if isinstance(j, dict) and ('tu' in j or 'li' in j):
        return tuple(dec_doc(x) for x in (j.get('tu') or j.get('li') or []))
    return values.dec(j)


def model_case(ast, doc, env=None):
    c = {'doc': enc_doc(doc), 'e': wire(ast)}
    if env is not None:
        c['host'] = enc_env(env)
    return c


def ask_model(drv, cases):
    """cases: [(ast, doc) | (ast, doc, env)] -> replies decoded to ('ok', v) | ('ctx',) | ('err', cls) | ('ood',) | None"""
    if drv is None:
        return [None] * len(cases)
    out = []
    for i in range(0, len(cases), 250):
        rs = drv.ask({'p': 'C04', 'fuel': FUEL, 'cases': [model_case(*c) for c in cases[i:i + 250]]})['res']
        out += [dec_model(m) for m in rs]
    return out


def dec_model(m):
    if 'err' in m:
        return ('ood',) if m['err'] == 'OOD' else ('err', m['err'])
    if 'ctx' in m:
        return ('ctx',)
    return ('ok', dec_value(m['ok']))


def dec_value(j):
    if j is None or isinstance(j, bool):
        return j
    (k, x), = j.items()
    if k == 'i':
        return int(x)
    if k == 'f':
        return values.bits2f(x)
    if k == 's':
        return ''.join(chr(c) for c in x)
    if k in ('tu', 'li', 'it'):
        return [dec_value(t) for t in x]
    if k == 'd':
        # NOT a Python dict: it would merge the keys 1 / true / 1.0 of a (wrong) model result into one
        return Pairs((dec_value(a), dec_value(b)) for a, b in x)
    raise ValueError(j)


class Pairs(list):
    """the entries of a dictionary the model returned, as they crossed the wire"""


# ------------------------------------------------------------------ comparison

def typed(x):
    """results compared with their TYPES at every depth: 1, true and 1.0 are three values (Python's `[1] == [True] ==
    [1.0]` and `{1: 0} == {True: 0}` must not be used anywhere on this path), 0.0 and -0.0 are two (floats by their bits);
    lists and tuples alike, dicts as maps from typed keys"""
    if isinstance(x, Pairs):
        return ('D', tuple(sorted(((typed(k), typed(v)) for k, v in x), key=repr)))
    if isinstance(x, (list, tuple)):
        return ('L', tuple(typed(y) for y in x))
    if isinstance(x, dict):
        return ('D', tuple(sorted(((typed(k), typed(v)) for k, v in x.items()), key=repr)))
    if isinstance(x, float):
        return ('float', values.fbits(x))
    if x is None or isinstance(x, (bool, int, str)):
        return (type(x).__name__, repr(x))
    return ('?', type(x).__name__, repr(x))


def same(a, b):
    if a[0] != b[0]:
        return False
    if a[0] == 'ok':
        return typed(a[1]) == typed(b[1])
    return tuple(a) == tuple(b)


def agree(real, other):
    """None = the other side makes no prediction"""
    if other is None or other[0] == 'ood':
        return None
    return same(real, other)


def show_value(v):
    """JSON-like text that tells 1 / true / 1.0 / -0.0 apart, also as dictionary keys"""
    if isinstance(v, Pairs):
        return '{' + ', '.join(sorted('%s: %s' % (show_value(k), show_value(x)) for k, x in v)) + '}'
    if isinstance(v, dict):
        return '{' + ', '.join(sorted('%s: %s' % (show_value(k), show_value(x)) for k, x in v.items())) + '}'
    if isinstance(v, (list, tuple)):
        return '[' + ', '.join(show_value(x) for x in v) + ']'
    if v is None or isinstance(v, (bool, int, float, str)):
        return json.dumps(v)
    return repr(v)


def show(r):
    if r is None:
        return 'no-model'
    if r[0] == 'ok':
        return 'ok %s' % show_value(r[1])
    if r[0] == 'err':
        return 'raises ' + r[1]
    if r[0] == 'ctx':
        return 'a context object'
    return 'out-of-domain'


KNOWN_DEF = 'def-name-translated'


def translated_def_names(ast):
    """names given to def() in the program that the registration code rewrites (specs.convert_function_name under the
    context's CamelCaseConvention) although the call site looks the name up as written"""
    out = []

    def walk(e):
        if e[0] == 'call' and evalref.fn_key(e[1]) == 'def' and e[2] and e[2][0][0] in ('kw', 'lit') and \
                isinstance(e[2][0][1], str):
            n = e[2][0][1]
            try:
                if evalref.fn_key_as_implemented(n) != evalref.fn_key(n):
                    out.append(n)
            except IndexError:
                out.append(n)
        for c, _ in evalgen.children(e):
            walk(c)
    walk(ast)
    return out


def known_tag(ast, doc, real, env=None):
    """the known finding `def-name-translated`: the program def-ines a function under a name the registration rewrites
    AND the real result is exactly what the documented meaning gives once that one rewriting is put into it"""
    names = translated_def_names(ast)
    if names and same(real, evalref.run(to_ref(doc), ast, def_as_implemented=True, env=ref_env(env))):
        return KNOWN_DEF
    return None


def show_env(env):
    return '%s; host context chain from the root upwards %s, `$` bound above %d of them' % (
        env['entry'], json.dumps([{n: evalgen.to_host(v) for n, v in layer} for layer in env['layers']], sort_keys=True), env['at'])


def evaluate_case(ast, doc, model, env=None):
    """-> (failure or None, info); failure = (kind, what, tag); tag = key of a known finding that explains it, or None"""
    text = evalgen.render(ast)
    real = run_real(text, doc, env=env)
    ref = run_ref(doc, ast, env)
    a_ref, a_mod = agree(real, ref), agree(real, model)
    info = dict(text=text, real=real, ref=ref, model=model, mode=reuse_mode(text) if isinstance(doc, dict) else 'single')
    if real[0] == 'err' and real[1] in ('RecursionError', 'MemoryError'):
        return None, info                  # a limit of the host interpreter, not a meaning
    where = '%s on %s' % (text, json.dumps(evalgen.to_host(doc), sort_keys=True))
    if info['mode'] != 'single':
        where += ' [history: %s; the LAST result is compared]' % info['mode']
    if env is not None:
        where += ' [how the data enters: %s]' % show_env(env)
    if a_ref is False and a_mod is not True:
        tag = known_tag(ast, doc, real, env)
        extra = ''
        if tag:
            extra = (' || def() registers the name %r rewritten by the naming convention (%r); called as written it is '
                     'unknown' % (translated_def_names(ast)[0], _as_impl(translated_def_names(ast)[0])))
        return ('oracle', '%s: real %s, reference %s (model: %s)%s' % (where, show(real), show(ref), show(model), extra),
                tag), info
    if a_ref is False:
        return ('mismatch', '%s: the transcription gives %s but real and model agree on %s' % (
            where, show(ref), show(real)), None), info
    if a_mod is False:
        return ('mismatch', '%s: real %s, model %s (transcription: %s)' % (where, show(real), show(model), show(ref)),
                None), info
    return None, info


def _as_impl(name):
    try:
        return evalref.fn_key_as_implemented(name)
    except IndexError:
        return 'IndexError'


# ------------------------------------------------------------------ scoping facts (probes on the real engine)

PROBES = [
    ('leak to sibling', "[let(x => 1) -> $x, $x]", [1, None]),
    ('wrong $', "[with(7) -> $, $1.len()]", [7, 0]),
    ('leak to outer', "[[1, 2].select(let(x => $) -> $x).toList(), $x]", [[1, 2], None]),
    ('leak to outer', "def(f, let(x => $) -> $x) -> [f(3), $x]", [3, None]),
    ('leak to outer', "[def(f, 1) -> f(), def(g, 2) -> g()]", [1, 2]),
    ('leak to sibling', "[def(f, 1) -> f(), f()]", ('err', 'NoFunctionRegisteredException')),
    ('leak to outer', "[[1].select(def(f, $) -> f(2)).toList(), f(3)]", ('err', 'NoFunctionRegisteredException')),
    ('wrong $', "[7, 8].select([$, $1])", [[7, 7], [8, 8]]),
    ('wrong $', "with(1, 2) -> [$, $1, $2, $0, $3]", [1, 1, 2, None, None]),
    ('wrong $', "[1, 2].select([10, 20].select($ + 1).toList() + [$])", [[11, 21, 1], [11, 21, 2]]),
    ('wrong $', "[3, 4].aggregate($1 * 10 + $2, 0)", 34),
    ('wrong $', "[5, 6].unpack() -> [$1, $2, $]", [5, 6, 5]),
    ('wrong $', "def(f, [$1, $2, $k]) -> [f(1, 2), f(3), f(4, k => 5), f()]",
     [[1, 2, None], [3, None, None], [4, None, 5], [{}, None, None]]),
    ('wrong $', "def(g, [$, $ > 0 and g($ - 1), $]) -> g(2)", [2, [1, [0, False, 0], 1], 2]),
    ('dynamic instead of lexical closure', "let(k => 1) -> def(f, $k) -> let(k => 2) -> f()", 1),
    ('dynamic instead of lexical closure', "let(k => 1) -> def(f, [$k, $]) -> [5, 6].select(f($ * 2))", [[1, 10], [1, 12]]),
    ('dynamic instead of lexical closure', "def(f, $) -> with(9) -> f(4)", 4),
    ('missing child context', "let(x => 1) -> [let(x => 2) -> $x, $x]", [2, 1]),
    ('missing child context', "let(x => 1) -> [[1].select(let(x => 5) -> $x).toList(), $x]", [[5], 1]),
    ('unknown variable not null', "[$nope, $nope = null]", [None, True]),
    ('member access not mapped', "[{a => 1}, {a => 2}].a", [1, 2]),
    ('member access not mapped', "[{a => 1}, {a => 2}].select($.a)", [1, 2]),
    ('member access not mapped', "[{a => 1}, [{a => 2}]].a", [1, [2]]),
    ('member access not mapped', "[[{a => 1}], {a => 2}, [[{a => 3}], {a => 4}]].a", [[1], 2, [[3], 4]]),
    ('member access not mapped', "[[{a => 1}], {a => 2}].select($.a)", [[1], 2]),
    ('member access not mapped', "[1, 2].select([{a => $}, [{a => $ + 1}]]).a", [[1, [2]], [2, [3]]]),
    ('dynamic instead of lexical closure', "[1, 2, 3].select(let(k => $) -> def(f, $k * 10) -> f())", [10, 20, 30]),
    ('dynamic instead of lexical closure', "[[1, 2], [3]].select(def(n, $.len()) -> $.select($ * n()))", [[2, 4], [3]]),
    ('wrong $', "[1, 2].select(def(f, $) -> [f(7), f()])", [[7, 1], [7, 2]]),
    # a lambda passed BY KEYWORD is a lambda: `$` is the element it is applied to
    ('wrong $', "[[a, 1], [b, 2]].toDict(keySelector => $[0], valueSelector => $[1])", {'a': 1, 'b': 2}),
    ('wrong $', "[[a, 1], [b, 2]].toDict(valueSelector => $[1], keySelector => $[0])", {'a': 1, 'b': 2}),
    ('wrong $', "[[a, 1], [b, 2]].toDict($[0], valueSelector => $[1] + 1)", {'a': 2, 'b': 3}),
    ('wrong $', "[[1, 2], [3]].select($.toDict(keySelector => $, valueSelector => $ * 10))", [{1: 10, 2: 20}, {3: 30}]),
    ('wrong $', "[3, 4].select(selector => [$, $1])", [[3, 3], [4, 4]]),
    ('wrong $', "let(k => 5) -> [1, 7].where(predicate => $ > $k)", [7]),
    ('wrong $', "[3, 4].aggregate(selector => $1 * 10 + $2, seed => 0)", 34),
    ('wrong $', "[1, 2].toDict(key_selector => $)", ('err', 'NoMatchingMethodException')),
    ('wrong $', "[1, 2].select($, selector => $)", ('err', 'NoMatchingMethodException')),
]


# doc-silent spots modelled as implemented (past disagreements between the references and the code)
REGRESSIONS = [
    ('literal operands are type-checked before anything is evaluated', "false + [][0]", ('err', 'NoMatchingFunctionException')),
    ('literal operands are type-checked before anything is evaluated', "[][0] - a", ('err', 'NoMatchingFunctionException')),
    ('literal operands are type-checked before anything is evaluated', "[][0] < true", ('err', 'IndexError')),
    ('literal operands are type-checked before anything is evaluated', "'abc'[[][0]]", ('err', 'NoMatchingFunctionException')),
    ('literal operands are type-checked before anything is evaluated', "[1].unpack(1, [][0])", ('err', 'NoMatchingMethodException')),
    ('the selector of an ordering runs inside the comparisons', "[1].orderBy($.foo)", [1]),
    ('a generator raises only when it is consumed', "[1, 'a'].select($ + 1).first()", 2),
    ('len does not accept an ordering', "[2, 1].orderBy($).len()", ('err', 'NoMatchingMethodException')),
    ('unpack() without names consumes the whole source', "[1, 'a'].select($ + 1).unpack() -> $1", ('err', 'NoMatchingFunctionException')),
    ('unpack(names) looks at len(names) + 1 elements', "[1, 'a'].select($ + 1).unpack(x) -> $x", ('err', 'NoMatchingFunctionException')),
    ('unpack(names) looks at len(names) + 1 elements', "[1, 2, 'a'].select($ + 1).unpack(x) -> $x", ('err', 'ValueError')),
    ('unpack(names) looks at len(names) + 1 elements', "[1, 'a'].select($ + 1).unpack(x, y) -> $x", ('err', 'NoMatchingFunctionException')),
]


def expect(expected):
    return expected if isinstance(expected, tuple) and expected[:1] == ('err',) else ('ok', expected)


def parse_ast(text):
    eng, _ = engine()
    return evalgen.from_yaql(eng(text))


def scoping_facts():
    """the named scoping facts of the statement that the engine under test breaks"""
    bad = []
    for fact, text, expected in PROBES:
        got = run_real(text, {})
        if not same(got, expect(expected)):
            bad.append('%s: %s gives %s, expected %s' % (fact, text, show(got), show(expect(expected))))
    for fact, text, doc, env, expected in host_probes():
        got = run_real(text, doc, env=env)
        if not same(got, expect(expected)):
            bad.append('%s: %s [%s] gives %s, expected %s' % (fact, text, show_env(env), show(got), show(expect(expected))))
    return bad


# "named variables resolve through the enclosing scopes" - the outermost scopes are the contexts of the HOST: the same
# probe under every way the document / the host's variables can enter (harness/evalgen.py: ENTRIES)
HOST_PROBE_TEXTS = [
    ('host variable not seen', "[$env, $.k, $]", lambda d: ['prod', d['k'], d]),
    ('host variable not seen from a lambda', "[5, 6, 7].where($ > $limit + 3)", lambda d: [6, 7]),
    ('host variable not seen from a lambda', "$.xs.select([$, $env, $limit])", lambda d: [[x, 'prod', 2] for x in d['xs']]),
    ('host variable not seen from a let chain', "let(limit => 10) -> let(y => $limit) -> [$limit, $y, $env, $.k]",
     lambda d: [10, 10, 'prod', d['k']]),
    ('host variable not seen from a def body', "def(f, [$env, $limit, $1]) -> let(env => 0) -> [f(1), $env]",
     lambda d: [['prod', 2, 1], 0]),
    ('host variable not seen from a def body', "def(f, $.xs.select($ + $limit)) -> f($)", lambda d: [x + 2 for x in d['xs']]),
    ('shadowing between host contexts', "[$env, $region, $nope]", lambda d: ['prod', 'upper', None]),
    ('member access not mapped', "$.rows.a", lambda d: [1, [2, [3]], 4]),
]
HOST_PROBE_DOC = {'k': 'v', 'xs': (1, 2), 'rows': ({'a': 1}, ({'a': 2}, ({'a': 3},)), {'a': 4})}
HOST_PROBE_LAYERS = [
    [[['env', 'prod'], ['limit', 2], ['region', 'lower']], [['region', 'upper']]],
    [[], [['env', 'prod'], ['region', 'lower']], [['limit', 2], ['region', 'upper']]],
    [[['env', 'stale'], ['region', 'lower']], [['env', 'prod']], [['limit', 2], ['region', 'upper']], []],
]


def host_probes():
    out = []
    for li, layers in enumerate(HOST_PROBE_LAYERS):
        for entry in sorted(set(evalgen.ENTRIES)):
            ats = [0] if entry.startswith('create_context') else \
                list(range(1, len(layers) + 1)) if entry == 'host-binds-$' else [len(layers)]
            for at in ats:
                env = {'layers': layers, 'entry': entry, 'at': at}
                for fact, text, exp in HOST_PROBE_TEXTS:
                    out.append((fact, text, HOST_PROBE_DOC, env, evalgen.to_host(exp(evalgen.to_host(HOST_PROBE_DOC)))))
    return out


# ------------------------------------------------------------------ shrinking

def fails(ast, doc, drv, kind, tag=None, mode=None, env=None):
    """the failure of this (smaller) case if it is of the same kind, explained by the same known finding (or by none)
    and found under the same evaluation history"""
    try:
        text = evalgen.render(ast)
        if mode is not None and not (isinstance(doc, dict) and reuse_mode(text).startswith(mode)):
            return None
        m = ask_model(drv, [(ast, doc, env)])[0]
        f, _ = evaluate_case(ast, doc, m, env)
    except Exception:
        return None
    return f if f and f[0] == kind and f[2] == tag else None


def shrink_env_candidates(env):
    """fewer variables, fewer contexts, the plain entry"""
    out = [None]
    layers = env['layers']
    for i, layer in enumerate(layers):
        for j in range(len(layer)):
            out.append(dict(env, layers=layers[:i] + [layer[:j] + layer[j + 1:]] + layers[i + 1:]))
    for i in range(1, len(layers)):
        if not layers[i] and env['at'] != i + 1:
            out.append(dict(env, layers=layers[:i] + layers[i + 1:], at=env['at'] - (1 if env['at'] > i else 0)))
    return out


def shrink_doc_candidates(doc):
    out = []
    if isinstance(doc, dict):
        for k in doc:
            out.append({a: b for a, b in doc.items() if a != k})
        for k, v in doc.items():
            for c in shrink_doc_candidates(v):
                d = dict(doc)
                d[k] = c
                out.append(d)
    elif isinstance(doc, tuple):
        for i in range(len(doc)):
            out.append(doc[:i] + doc[i + 1:])
    return out


def shrink(ast, doc, drv, kind, tag=None, mode=None, budget=400, doc_budget=120, env=None):
    changed = True
    env_budget = 40
    if env is not None and fails(ast, doc, drv, kind, tag, mode, None):
        env = None                          # how the data enters plays no role
    if isinstance(doc, dict) and doc and fails(ast, {}, drv, kind, tag, mode, env):
        doc = {}                            # the document plays no role
    while changed and (budget > 0 or doc_budget > 0):
        changed = False
        for cand in evalgen.shrink_candidates(ast):
            if evalgen.size(cand) >= evalgen.size(ast):
                continue
            budget -= 1
            if budget <= 0:
                break
            if fails(cand, doc, drv, kind, tag, mode, env):
                ast, changed = cand, True
                break
        if changed:
            continue
        for cand in ([{}] if isinstance(doc, dict) and doc else []) + shrink_doc_candidates(doc):
            doc_budget -= 1                 # (its own budget: a long program must not leave the document unshrunk)
            if doc_budget <= 0:
                break
            if fails(ast, cand, drv, kind, tag, mode, env):
                doc, changed = cand, True
                break
        if changed or env is None:
            continue
        for cand in shrink_env_candidates(env)[1:]:
            env_budget -= 1
            if env_budget <= 0:
                break
            if fails(ast, doc, drv, kind, tag, mode, cand):
                env, changed = cand, True
                break
    return ast, doc, env


def failure_key(ast):
    names = sorted(k for k in evalgen.constructs(ast) if not k.startswith(('lit', 'kw')))
    return '+'.join(names)[:80]


def replay_of(ast, doc, facts=None, env=None):
    r = {'ast': wire(ast), 'doc': enc_doc(doc), 'text': evalgen.render(ast)}
    if env is not None:
        r['host'] = enc_env(env)
        r['how_the_data_enters'] = show_env(env)
    if facts is not None:
        r['scoping_facts_broken'] = facts
    return r


def report(ast, doc, drv, f, env=None):
    """shrink, re-evaluate, describe"""
    # a failure that needs an evaluation history (the text decides which) is shrunk among texts with the same history
    mode = reuse_mode(evalgen.render(ast))
    keep = None
    if mode != 'single' and not run_single(ast, doc, drv, f, env):
        keep = mode.split('/')[0].replace('-twice', '')          # the failure needs this kind of history
    sast, sdoc, senv = shrink(ast, doc, drv, f[0], f[2], keep, env=env)
    g = fails(sast, sdoc, drv, f[0], f[2], keep, senv) or f
    facts = None
    what = g[1]
    if g[0] == 'oracle' and not g[2]:
        facts = scoping_facts()
        if facts:
            what += ' || scoping facts of the statement broken on this engine: ' + '; '.join(facts[:4])
    return (g[0], g[2] or failure_key(sast), what, replay_of(sast, sdoc, facts, senv))


def run_single(ast, doc, drv, f, env=None):
    """does the case fail also as ONE plain evaluation (then the history is irrelevant and shrinking may change it)"""
    global FORCE_SINGLE
    FORCE_SINGLE = True
    try:
        g = fails(ast, doc, drv, f[0], f[2], None, env)
    finally:
        FORCE_SINGLE = False
    return g is not None


# ------------------------------------------------------------------ worker

def bump(d, k, n=1):
    d[k] = d.get(k, 0) + n


def work(args):
    idx, n_cases, seed, max_depth, use_model = args
    rng = common.make_rng(seed, 'C04/%d' % idx)
    drv = common.Driver() if use_model else None
    out = dict(cases=[], failures=[], n=0, traces=0, outcome={}, errs={}, depth={}, size={}, types={}, constructs={},
               pairs={}, ood_ref=0, ood_model=0, parse_diff=[], sample=None, modes={}, names={}, known={}, values={},
               entries={}, shapes={}, kwargs={})
    try:
        batch = []
        for _ in range(n_cases):
            ast, doc, t, env = evalgen.program_env(rng, max_depth)
            batch.append((ast, doc, t, env))
        replies = ask_model(drv, [(a, d, e) for a, d, _, e in batch])
        for (ast, doc, t, env), model in zip(batch, replies):
            text = evalgen.render(ast)
            back = parse_ast(text)
            if back != ast or repr(back) != repr(ast):         # (repr: the literal 1 is not the literal true / 1.0)
                out['parse_diff'].append(text)
                continue
            f, info = evaluate_case(ast, doc, model, env)
            bump(out['entries'], 'evaluate(data, context=child of the library context)' if env is None else env['entry'])
            if env is not None:
                depths = [i for i, layer in enumerate(env['layers']) if layer]
                bump(out['entries'], 'host variables %s' % ('none' if not depths else '+'.join(
                    sorted({'root (below the library)' if i == 0 else 'top' if i == len(env['layers']) - 1 else 'middle'
                            for i in depths}))))
            for cls in member_shapes(ast, doc, env):
                bump(out['shapes'], cls)
            for cls in keyword_shapes(ast):
                bump(out['kwargs'], cls)
            real, ref = info['real'], info['ref']
            out['n'] += 1
            if model is not None:
                out['traces'] += 1
            bump(out['outcome'], real[0])
            if real[0] == 'err':
                bump(out['errs'], real[1])
            if ref[0] == 'ood':
                out['ood_ref'] += 1
            if model is not None and model[0] == 'ood':
                out['ood_model'] += 1
            bump(out['depth'], min(evalgen.depth(ast), 12))
            bump(out['size'], min(evalgen.size(ast) // 5 * 5, 60))
            bump(out['types'], t if isinstance(t, str) else t[0])
            for k, c in evalgen.constructs(ast).items():
                bump(out['constructs'], k, c)
            for o, i in evalgen.nesting_pairs(ast):
                bump(out['pairs'], o + '>' + i)
            predicted = ref[0] != 'ood' or (model is not None and model[0] != 'ood')
            out['cases'].append((common.digest([text, repr(doc), repr(env)]), real[0] == 'ok' and predicted))
            if out['sample'] is None and real[0] == 'ok' and evalgen.size(ast) > 8:
                out['sample'] = dict(text=text, doc=json.dumps(evalgen.to_host(doc), sort_keys=True)[:200],
                                     real=show(real)[:200])
            bump(out['modes'], info['mode'])
            for cls in evalgen.name_classes(ast):
                bump(out['names'], cls)
            for cls in evalgen.value_classes(ast, doc):
                bump(out['values'], cls)
            if f and f[2]:
                bump(out['known'], f[2])
                if not any(k == f[2] for _, k, _, _ in out['failures']):
                    out['failures'].append(report(ast, doc, drv, f, env))   # one (shrunk) instance of a known finding
            elif f and sum(1 for _, k, _, _ in out['failures'] if k != KNOWN_DEF) < 2:
                out['failures'].append(report(ast, doc, drv, f, env))
    finally:
        if drv:
            drv.close()
    return out


def kinds_of(v):
    return {('record' if isinstance(x, dict) else 'collection' if isinstance(x, (tuple, list)) else 'scalar') for x in v}


def member_shapes(ast, doc, env):
    """what `.name` is applied to in this case (statistics): mixed list literals, documents / host variables holding
    collections of mixed element kinds"""
    out = set()

    def walk(e):
        if e[0] == 'member':
            out.add('member access')
            src = e[1]
            if src[0] == 'list' and len({x[0] for x in src[1]} & {'map', 'list'}) == 2:
                out.add('member access on a list literal of mixed element kinds')
        for c, _ in evalgen.children(e):
            walk(c)
    walk(ast)

    def data(v):
        if isinstance(v, dict):
            for x in v.values():
                data(x)
        elif isinstance(v, (tuple, list)):
            if len(kinds_of(v) & {'record', 'collection'}) == 2:
                out.add('a collection of mixed element kinds (record next to collection) in the data')
            for x in v:
                data(x)
    data(doc)
    for layer in (env or {}).get('layers', ()):
        for _, v in layer:
            data(v)
    return out


def keyword_shapes(ast):
    """statistics: builtin methods called with keyword arguments"""
    out = set()

    def walk(e):
        if e[0] == 'method' and e[4]:
            names = evalgen.METHOD_PARAMS.get(e[2])
            ok = names is not None and all(k[0] == 'kw' and k[1] in names for k, _ in e[4])
            out.add('a builtin method called with keyword arguments')
            out.add('... %s' % ('under the parameters\' names' if ok else 'under a name that is no parameter'))
            if ok and any(k[1].lower() != k[1] for k, _ in e[4]):
                out.add('... a multi-word (convention-translated) name')
            if ok and any(v[0] not in ('lit', 'kw') for _, v in e[4]):
                out.add('... a lambda / expression passed by keyword')
        for c, _ in evalgen.children(e):
            walk(c)
    walk(ast)
    return out


def fixed_battery(drv, res):
    """the probe programs, three ways, every run"""
    n = 0
    for fact, text, doc, env, expected in host_probes():
        ast = parse_ast(text)
        model = ask_model(drv, [(ast, doc, env)])[0]
        f, info = evaluate_case(ast, doc, model, env)
        n += 1
        res.case(common.digest([text, 'host-probe', repr(env)]), True)
        if drv is not None:
            res.traces += 1
        if not same(info['ref'], expect(expected)):
            res.fail('mismatch', 'probe', 'probe %s [%s]: the transcription gives %s, the probe table expects %s' % (
                text, show_env(env), show(info['ref']), show(expect(expected))), replay_of(ast, doc, None, env))
        if f:
            what = f[1] + (' || scoping fact: ' + fact if f[0] == 'oracle' else '')
            res.fail(f[0], f[2] or failure_key(ast), what, replay_of(ast, doc, None, env))
            break
    for fact, text, expected in PROBES + REGRESSIONS:
        ast = parse_ast(text)
        model = ask_model(drv, [(ast, {})])[0]
        f, info = evaluate_case(ast, {}, model)
        n += 1
        res.case(common.digest([text, 'probe']), True)
        if drv is not None:
            res.traces += 1
        if not same(info['ref'], expect(expected)):
            res.fail('mismatch', 'probe', 'probe %s: the transcription gives %s, the probe table expects %s' % (
                text, show(info['ref']), show(expect(expected))), replay_of(ast, {}))
        if f:
            facts = scoping_facts() if f[0] == 'oracle' else None
            what = f[1] + (' || scoping fact: ' + fact if f[0] == 'oracle' and (fact, text, expected) in PROBES else '')
            res.fail(f[0], f[2] or failure_key(ast), what, replay_of(ast, {}, facts))
    return n


def run(env, res):
    tier = env['tier']
    drv = env['driver']
    use_model = drv is not None
    res.rule = ('type-directed programs of the fragment (generator depth <= 4 quick / <= 6 thorough) over a random JSON-like '
                'document bound to `$`: 30% scoping scenarios with random parts, 20% lists of independent expressions, the '
                'rest typed expressions; every binding construct is followed by uses of what it bound and by reads of names '
                'bound elsewhere and of RELATIVES of bound names (snake/camel, trailing / leading underscore, case, digits); '
                'names of variables / keywords / functions / keys from adversarial pools (also the host implementation\'s own '
                'vocabulary: value, self, context, args ..); scalars that Python takes for equal (1 / true / 1.0, 0 / false / 0.0 / '
                '-0.0) as literals, document leaves and arguments of repeated calls; 50% single evaluations, 20% a reused '
                'Statement after another document, 30% the same host document object mutated in place between evaluations '
                '(same / fresh Statement); distinct = distinct (text, document); non-trivial = the real evaluation returns '
                'a value and at least one reference makes a prediction')
    if env['replay']:
        rp = json.load(open(env['replay']))
        case = rp['case']
        if case.get('section') == 'dispatch':
            return c04dispatch.replay(env, res, case)
        ast, doc, env = unwire(case['ast']), dec_doc(case['doc']), dec_env(case.get('host'))
        model = ask_model(drv, [(ast, doc, env)])[0]
        f, info = evaluate_case(ast, doc, model, env)
        res.case(common.digest([info['text'], repr(doc), repr(env)]), True, sample=info['text'])
        res.traces += 1 if use_model else 0
        if f:
            facts = scoping_facts() if f[0] == 'oracle' else None
            res.fail(f[0], f[2] or failure_key(ast), f[1], replay_of(ast, doc, facts, env))
        return res
    t0 = time.time()
    n_probe = fixed_battery(drv, res)
    c04dispatch.run_section(env, res, __import__('sys').modules[__name__])
    if tier == 'quick':
        nproc, per, depth = 4, 4000, 4
    else:
        nproc, per, depth = 10, 22000, 6
    jobs = [(i, per, env['seed'], depth, use_model) for i in range(nproc)]
    with multiprocessing.Pool(nproc) as pool:
        results = pool.map(work, jobs, chunksize=1)
    hist = dict(outcome={}, real_error_classes={}, ast_depth={}, ast_size={}, result_types={}, constructs={},
                evaluation_history={}, names_by_class={}, known_finding_hits={}, value_situations={},
                how_the_data_enters={}, member_access_shapes={}, keyword_arguments={})
    pairs, ood_ref, ood_model, n, parse_diff = {}, 0, 0, 0, []
    for out in results:
        for sig, nt in out['cases']:
            res.case(sig, nt)
        res.traces += out['traces']
        n += out['n']
        ood_ref += out['ood_ref']
        ood_model += out['ood_model']
        parse_diff += out['parse_diff']
        if out['sample'] and len(res.samples) < 6:
            res.samples.append(out['sample'])
        for kind, key, what, replay in out['failures']:
            res.fail(kind, key, what, replay)
        for src, dst in ((out['outcome'], hist['outcome']), (out['errs'], hist['real_error_classes']),
                         (out['depth'], hist['ast_depth']), (out['size'], hist['ast_size']),
                         (out['types'], hist['result_types']), (out['constructs'], hist['constructs']), (out['pairs'], pairs),
                         (out['modes'], hist['evaluation_history']), (out['names'], hist['names_by_class']),
                         (out['known'], hist['known_finding_hits']), (out['values'], hist['value_situations']),
                         (out['entries'], hist['how_the_data_enters']), (out['shapes'], hist['member_access_shapes']),
                         (out['kwargs'], hist['keyword_arguments'])):
            for k, v in src.items():
                dst[str(k)] = dst.get(str(k), 0) + v
    if parse_diff:
        raise RuntimeError('the renderer and the parser disagree about %d generated texts, e.g. %r' % (
            len(parse_diff), parse_diff[0]))
    ok = hist['outcome'].get('ok', 0) + hist['outcome'].get('ctx', 0)
    hist['evaluate_without_error_pct'] = round(100.0 * ok / max(n, 1), 1)
    hist['out_of_domain'] = dict(transcription=ood_ref, model=ood_model)
    matrix = {o: {i: pairs.get(o + '>' + i, 0) for i in evalgen.CONSTRUCTS} for o in evalgen.CONSTRUCTS}
    res.extra['histogram'] = hist
    res.extra['nesting_pairs'] = dict(rows='outer construct', columns='inner construct (programs containing the pair)',
                                      matrix=matrix,
                                      covered=sum(1 for o in matrix for i in matrix[o] if matrix[o][i]),
                                      of=len(evalgen.CONSTRUCTS) ** 2)
    res.extra['programs'] = n
    res.extra['probes'] = n_probe
    res.extra['correspondence_wall_s'] = round(time.time() - t0, 1)
    return res


LEVEL_TEXT = ('Lean 4 theorems, for ALL expressions, contexts, documents and fuel, about an executable reference interpreter '
              'of the core fragment written from the language reference (contexts = immutable chains of frames; every call '
              'that can publish names gets a fresh child; a lambda runs in a child of its DEFINING context): evaluation hands '
              'back only extensions of pre-existing contexts and evaluates siblings in the unchanged context (frame, '
              'sibling_independence, no_leak_*), lookup returns the nearest binding, unknown names are null, `$`/`$1`/empty name '
              'are one variable, `$k` inside a lambda body is the k-th argument of the innermost application whatever is bound '
              'outside, a def-ined function called from any later context gives the result it gives where it was defined, '
              '`coll.name` = `coll.select($.name)`, more fuel never changes a definite outcome; names are data '
              '(let_names_verbatim, kwarg_names_verbatim, def_names_verbatim: for ALL names, a let / keyword argument / def is '
              'visible exactly under its own normal form - `$`-prefix and `$`=`$1` for variables, trailing underscores for '
              'functions - and invisible to every other name); a call of a def-ined function is the body evaluated on the '
              'argument VALUES of that call and of nothing else (def_call_own_args, def_call_pure, def_calls_independent), values '
              'being compared structurally, so that 1 / true / 1.0 are three arguments (def_identity_faithful / _injective).  '
              'The interpreter is tied to the '
              'code by running generated programs (typed generator, scoping scenarios, reads of names bound elsewhere) on the '
              'real engine, on the compiled model and on an independent plain-Python transcription, comparing finalised results / '
              'exception classes three ways (types compared at every depth, floats by their bits); names come from pools a '
              'normalisation would rewrite and from the host implementation\'s own vocabulary, values include the ones Python '
              'takes for equal (1 / true / 1.0 ...) as literals, document leaves and arguments of repeated calls, and half of the '
              'programs are the last step of an evaluation history on one engine (reused Statement, host document mutated in place).')
LEVEL_NOTE = ('trusted: Lean kernel; the hand-written interpreter Yaql/Model/Eval.lean (reusing the value semantics of Model/Seq.lean '
              'and the name normalisation of Model/Context.lean); harness/evalref.py; the renderer (every text is parsed back by '
              'the engine under test and compared with the AST).  "frame" holds by construction of the representation (contexts '
              'are values), so what is proved is its observable content.  Round 5: `.name` maps over collections of mixed element '
              'kinds (member_maps for arbitrary elements, member_elementwise); a variable bound at any depth of the host\'s '
              'context chain is seen from every scope and where `$` is bound is irrelevant (host_var_visible, '
              'doc_position_irrelevant); keyword arguments of builtin methods are the positional call that says the same '
              '(toDict_by_keyword, lambda_by_keyword, select_by_keyword; keyword names = the live registry\'s: '
              'C04Gen.kwParams_live).  The builtins inside the evaluator are dispatched by '
              'name / receiver kind; that this IS overload resolution on the real registry is proved (props/c04dispatch.py: '
              'C04DispatchGen.C04Dispatch_partial over the registry regenerated with its real parameter types, C04Dispatch.'
              'resolve_kinds for all values, C04DispatchEval ties) for the 21 145 call shapes of the dispatch fragment.  Out of domain (skipped, counted): one-shot iterators read back from variables, raising generators / '
              'orderings / contexts stored inside data, operators on lazy sequences.')
TECHNIQUE = 'Lean 4 proof (induction on fuel over a non-recursive step functional) + three-way differential run of generated programs'
DESIGN_REF = 'DESIGN.md section 5, C04'
