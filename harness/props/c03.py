"""C03 - parsing is total: a statement or a YAQL parsing error, nothing else.

Oracle (real code alone): `engine(text)` returns a Statement or raises YaqlLexicalException /
YaqlGrammarException; no other exception type; a reported position lies inside the text; it terminates.
Correspondence: the Lean lexer + parser models (Yaql.Model.Lexer / Parser) classify the same text the
same way (ok / Lexical pos / Grammar pos?), see `model_outcome`."""
import itertools
import json
import multiprocessing
import signal

import common
import treeutil

ID = 'C03'
NOT_READY = None
LEAN_MODULES = ['Yaql.Props.C03', 'Yaql.Props.C03Lex', 'Yaql.Props.C03Parse', 'Yaql.Props.C03Bound']
REQUIRED_THEOREMS = ['Yaql.Props.C03.total_classified', 'Yaql.Props.C03.lexical_position_inside',
                     'Yaql.Props.C03.grammar_position_inside', 'Yaql.Props.C03.parseText_eq_parse',
                     'Yaql.Props.C03.grammar_before_later_lexical', 'Yaql.Props.C03Lex.nextTok_progress',
                     'Yaql.Props.C03Lex.conversions_total', 'Yaql.Props.C03Parse.parse_total_classified',
                     'Yaql.Props.C03Bound.tokens_printable', 'Yaql.Props.C03Bound.grammar_error_value_printable',
                     'Yaql.Props.C03Bound.over_limit_numeral_stops', 'Yaql.Props.C03Bound.digitsVal_lt']
TRUSTED = ["ply's LALR(1) table construction and its token/rule dispatch (modelled by its documented effect)",
           "CPython's re, codecs.decode('unicode-escape'), int()/float() text conversion"]
ASSUMPTIONS = ['lone surrogates are thrown at the real parser only (Lean Char is a scalar value)']

ATOMS = ['1', '1.5', 'a', 'true', 'null', '$', '$x', "'s'", '"d"', '`v`', 'f(', '(', ')', '[', ']', '{', '}', ',',
         '=>', '.', '?.', '+', '-', '*', '/', 'mod', '=', '!=', '<', '>=', 'in', 'not', 'and', 'or', '->', '=~', '!~',
         '~', '__x', '\\', "'", '"', '`', '#', '1e5', '.5', '1.', 'é', 'x1_', '_y', '1a', '$$']
VALID = ['1 + 2', '$.a.b', "f(1, 'x', a => 2)", '[1, 2, 3].select($ * 2)', "{a => 1, 'b' => [2]}", '$x[0]',
         'not $ and true or false', '-1 - -2', "let(x => 1) -> $x", 'a.b?.c(1,, 2)', "`v\\`x` + \"q\\\"\" + 'p\\''",
         '$.where($ > 1 and $ <= 10 or $ in [1, 2])', 'f(g(h(1)))', '1 =~ 2 !~ 3', '$ -> $']
ESC = ['\\\\', "\\'", '\\"', '\\a', '\\b', '\\f', '\\n', '\\r', '\\t', '\\v', '\\0', '\\7', '\\12', '\\123', '\\1234',
       '\\8', '\\x41', '\\x4', '\\xzz', '\\x', '\\u0041', '\\u00', '\\uzzzz', '\\ud800', '\\U00000041', '\\U0010FFFF',
       '\\U00110000', '\\U7FFFFFFF', '\\U80000000', '\\UFFFFFFFF', '\\U0000004', '\\Uzzzzzzzz', '\\N{DIGIT ONE}',
       '\\N{foo}', '\\N{}', '\\N{', '\\N', '\\q', '\\ ', '\\`', '\\$', '\\é']


def outcome(engine, text):
    """classify what the real parser does with `text`"""
    from yaql.language import exceptions, expressions
    try:
        st = engine(text)
        if not isinstance(st, expressions.Statement):
            return ('bad-return', type(st).__name__)
        return ('ok',)
    except exceptions.YaqlLexicalException as e:
        return ('lexical', e.position)
    except exceptions.YaqlGrammarException as e:
        return ('grammar', e.position)
    except exceptions.YaqlParsingException as e:
        return ('parsing', type(e).__name__, e.position)
    except RecursionError:
        return ('recursion',)
    except BaseException as e:  # noqa
        return ('foreign', type(e).__name__, str(e)[:120])


def judge(text, out):
    """the property's oracle; returns None or (key, message)"""
    if out[0] in ('ok',):
        return None
    if out[0] in ('lexical', 'grammar'):
        pos = out[1]
        if pos is None:
            return None if out[0] == 'grammar' else ('position', 'lexical error without position for %r' % (text,))
        if not (isinstance(pos, int) and 0 <= pos < len(text)):
            return ('position', '%s error position %r outside the text (length %d) for %r' % (out[0], pos, len(text), text[:80]))
        return None
    if out[0] == 'recursion':
        return ('recursion', 'RecursionError escaped the parser for a text of length %d' % len(text))
    return ('foreign-exception', 'parsing %r raised %r instead of a YAQL parsing error' % (text[:80], out))


class Timeout(Exception):
    pass


BOUNDARY_BASES = VALID + ['1 +', '(1', 'f(1,', '[1, 2', 'a b', '$x.', '{a =>', '1 2', 'f(1) g(2)', ')', 'not', '$.a.b ~', "'s' 's'"]


def token_spans(engine, text):
    """(start, end) of every token the engine's own lexer finds in `text` (up to a lexical error)"""
    lx = engine.lexer.clone()
    lx.input(text)
    spans = []
    while True:
        try:
            t = lx.token()
        except Exception:       # noqa
            break
        if t is None:
            break
        spans.append((t.lexpos, lx.lexpos))
    return spans


def boundary_tokens(tier):
    """tokens at the size limits of the conversions a token action (or an error message) performs: numerals around the
    interpreter's int<->str digit limit with and without a dot, and very long words / variables / calls / strings"""
    import sys
    limit = sys.get_int_max_str_digits() or 4300
    sizes = [limit - 1, limit, limit + 1, limit + 700] + ([2 * limit, 3 * limit + 1] if tier == 'thorough' else [])
    out = []
    for n in sizes:
        out += [('int%+d' % (n - limit), '9' * n), ('int%+d' % (n - limit), '1' + '0' * (n - 1))]
    for n in (308, 309, 310):          # the range of a double: int -> float conversion overflows from 1e309 on
        out += [('int~1e%d' % n, '1' + '0' * n), ('float~1e%d' % n, '1' + '0' * n + '.0')]
    for n in (limit, limit + 1):
        out += [('float', '1' * n + '.5'), ('float', '0.' + '1' * n), ('zeros', '0' * n + '7')]
    big = 5000
    out += [('word', 'a' * big), ('var', '$' + 'b' * big), ('call', 'f' * big + '('), ('dunder', '__' + 'x' * big),
            ('str', "'" + 'c' * big + "'"), ('str', '"' + 'c' * big + '\\x4"'), ('str', '`' + 'c' * big + '`'),
            ('unterminated', "'" + 'c' * big)]
    return out


def gen_boundary(rng, engine, tier):
    """every boundary-size token in EVERY syntactic position: alone, before and after every atom of the alphabet, inserted
    at every token gap of valid and invalid expressions and substituted for every one of their tokens - so it also stands
    where the grammar expects no value, no operator, or nothing at all"""
    toks = boundary_tokens(tier)
    quick = tier == 'quick'
    for name, b in toks:
        yield 'boundary-alone', b
        for a in ATOMS:
            if quick and rng.random() < 0.5:
                continue
            yield 'boundary-seq2', a + ' ' + b
            yield 'boundary-seq2', b + ' ' + a
            if rng.random() < 0.1:
                yield 'boundary-seq3', a + ' ' + b + ' ' + rng.choice(ATOMS)
                yield 'boundary-seq3', rng.choice(ATOMS) + ' ' + a + ' ' + b
    for v in BOUNDARY_BASES:
        spans = token_spans(engine, v)
        gaps = sorted(set([0, len(v)] + [s for s, _ in spans] + [e for _, e in spans]))
        for name, b in toks:
            for g in gaps:
                if quick and rng.random() < 0.6:
                    continue
                yield 'boundary-inserted', v[:g] + ' ' + b + ' ' + v[g:]
            for s_, e_ in spans:
                if quick and rng.random() < 0.6:
                    continue
                yield 'boundary-substituted', v[:s_] + ' ' + b + ' ' + v[e_:]
    # every run of 1-4 tokens of an expression said TWICE (as a further comma-separated item): the same keyword argument,
    # dictionary key, element, variable ... a second time, in valid and invalid places
    for v in BOUNDARY_BASES + ['f(a => 1)', 'f(1, a => 2, b => 3)', '{a => 1}', "dict(a => 1, 'b' => 2)", '$.f(x => $, y => 1)']:
        spans = token_spans(engine, v)
        for i in range(len(spans)):
            for j in range(i + 1, min(len(spans), i + 4) + 1):
                s_, e_ = spans[i][0], spans[j - 1][1]
                yield 'said-twice', v[:e_] + ', ' + v[s_:e_] + v[e_:]
                if not quick or rng.random() < 0.3:
                    yield 'said-twice', v[:e_] + ' ' + v[s_:e_] + v[e_:]
    # the whole ARGUMENT-LIST grammar: every sequence of up to 4 slots, each slot positional / empty / named (two names, so
    # that a name can come twice, adjacent or apart) / a mapping with a non-keyword key, for every kind of caller: function,
    # method, delegate call on a variable and on a parenthesised value, list, dictionary, indexer.  The semantic actions
    # run while REDUCING the call are part of parsing; on all engine flavours.
    slots = ['1', '', 'a => 2', 'b => $', 'a => null', "'a' => 3"]
    callers = ['f(%s)', '$.f(%s)', 'dict(%s)', '$x(%s)', '(f)(%s)', '[%s]', '{%s}', '$[%s]', 'f(1).g(%s)', 'f(g(%s), a => 1)']
    for n in range(0, 5):
        for combo in itertools.product(slots, repeat=n):
            if n == 4 and quick and rng.random() < 0.5:
                continue
            body = ', '.join(combo)
            for c in (callers if n <= 3 else rng.sample(callers, 3)):
                yield 'arglist', c % body
    for _ in range(100 if quick else 1500):
        k = rng.randrange(2, 8)
        parts = [rng.choice(ATOMS) for _ in range(k)]
        parts[rng.randrange(k)] = rng.choice(toks)[1]
        if rng.random() < 0.3:
            parts[rng.randrange(k)] = rng.choice(toks)[1]
        yield 'boundary-soup', ' '.join(parts)


def gen_texts(rng, tier):
    n3 = 1 if tier == 'quick' else 3
    # every token sequence up to length 2 (quick) / 3 (thorough slice) over the atom alphabet
    for a in ATOMS:
        yield 'seq1', a
    for a, b in itertools.product(ATOMS, repeat=2):
        yield 'seq2', a + ' ' + b
    trip = list(itertools.product(ATOMS, repeat=3))
    rng.shuffle(trip)
    for a, b, c in trip[:6000 if tier == 'quick' else len(trip)]:
        yield 'seq3', a + ' ' + b + rng.choice(['', ' ']) + c
    # token soups
    for _ in range(1500 * n3):
        k = rng.randrange(4, 41)
        yield 'soup', ''.join(rng.choice(ATOMS) + rng.choice(['', ' ', ' ', '\t', '\n']) for _ in range(k))
    # single-character mutants of valid expressions
    alphabet = list("01aZ_$'\"`\\()[]{},.?+-*/=!<>~#@ \t\n:;|&%^é٠\U0001F600")
    for v in VALID:
        for i in range(len(v) + 1):
            yield 'mut-del', v[:i] + v[i + 1:]
            for c in (alphabet if tier == 'thorough' else rng.sample(alphabet, 6)):
                yield 'mut-ins', v[:i] + c + v[i:]
                yield 'mut-sub', v[:i] + c + v[i + 1:]
    # every escape shape in the three quote styles, alone, doubled and embedded
    for q in "'\"`":
        for e in ESC:
            yield 'escape', q + e + q
            yield 'escape', q + 'a' + e + 'b' + q
            yield 'escape', q + e + e + q
        for e1, e2 in (rng.sample(list(itertools.product(ESC, repeat=2)), 150 * n3)):
            yield 'escape', q + e1 + e2 + q
    # all \UXXXXXXXX boundary values and \x / \u families
    for h in ['0000D800', '0000DFFF', '0010FFFF', '00110000', '7FFFFFFF', '80000000', 'FFFFFFFF', 'ffffffff', '0000000g']:
        for q in "'\"":
            yield 'escape', q + '\\U' + h + q
    # very long numerals and identifiers
    for n in [1, 17, 308, 309, 400, 4299, 4300, 4301, 5000, 6000]:
        yield 'long', '1' * n
        yield 'long', '1' * n + '.5'
        yield 'long', '0.' + '1' * n
        yield 'long', '9' * n + '.' + '9' * n
    for n in [10, 1000, 100000]:
        yield 'long', 'a' * n
        yield 'long', '$' + 'b' * n
        yield 'long', 'f' * n + '(1)'
        yield 'long', "'" + 'c' * n + "'"
    for n in [10, 50, 200] + ([400] if tier == 'thorough' else []):
        yield 'deep', '(' * n + '1' + ')' * n
        yield 'deep', '[' * n + ']' * n
        yield 'deep', '-' * n + '1'
        yield 'deep', '1' + ' + 1' * n
        yield 'deep', 'f(' * n + ')' * n
    # far deeper than any interpreter stack: the parser is iterative, the depth of a text is no reason to fail; these
    # are parsed under the interpreter's DEFAULT recursion limit and only classified (no tree is compared)
    for n in [600, 1500, 4000] + ([12000] if tier == 'thorough' else []):
        yield 'deepx', '(' * n + '1' + ')' * n
        yield 'deepx', '[' * n + ']' * n
        yield 'deepx', '- ' * n + '1'
        yield 'deepx', '1' + ' + 1' * n
        yield 'deepx', 'f(' * n + ')' * n
        yield 'deepx', '$' + '.a' * n
        yield 'deepx', '{a => ' * n + '1' + '}' * n
    # arbitrary code points incl. astral and lone surrogates
    for _ in range(800 * n3):
        k = rng.randrange(1, 8)
        yield 'codepoints', ''.join(chr(rng.choice([rng.randrange(0x20, 0x7f), rng.randrange(0x80, 0x3000),
                                                     rng.randrange(0x10000, 0x110000), rng.randrange(0xD800, 0xE000)]))
                                    for _ in range(k))
    for cp in list(range(0, 0x250)) + [0x2028, 0x2029, 0x3000, 0xFEFF, 0xFFFF, 0x10000, 0x10FFFF]:
        yield 'codepoints', chr(cp)
        yield 'codepoints', 'a' + chr(cp) + 'b'


_engs = {}


def model_eng(ename):
    """the engine description the model needs (operator list, delegates) - C02's `Eng`"""
    from props import c02
    if ename not in _engs:
        _engs[ename] = c02.Eng('legacy' if ename == 'legacy' else 'default', ename == 'delegates')
    return _engs[ename]


def model_outcomes(drv, ename, texts):
    """`parseText` of the assembled Lean model (lexer + LR automaton, interleaved) for each text"""
    import lexcfg
    e = model_eng(ename)
    req = dict(p='C03', cfg=lexcfg.cfg_json(e.fac, texts), texts=[lexcfg.cps(t) for t in texts])
    req.update(e.spec())
    ans = drv.ask(req)
    return ans.get('results')


def norm_tree(t):
    """number constants compared by value: the model keeps a float literal as its decimal text, the real tree
    holds the float (literal VALUES are C16's business; here they only must not differ)"""
    import lexcfg
    if isinstance(t, list):
        if len(t) == 3 and t[0] == 'const' and t[1] == 'number' and isinstance(t[2], dict) and 'flt' in t[2]:
            txt = ''.join(chr(c) for c in t[2]['flt'])
            try:
                if 'bits' in t[2]:      # the double the model computed (Lexer.literalFloat)
                    v = lexcfg.float_of_bits(t[2]['bits'])
                else:
                    v = lexcfg.model_float(txt) if ('e' not in txt and 'n' not in txt and 'i' not in txt) else float(txt)
            except Exception:  # noqa
                v = txt
            return ['const', 'number', {'flt': repr(v)}]
        return [norm_tree(x) for x in t]
    return t


def same_outcome(real, real_tree, m):
    """real: outcome() tuple; m: model reply"""
    if 'surr' in m:
        return True            # outside the model (lone surrogate spelled by an escape)
    if real[0] == 'ok':
        return 'ok' in m and (real_tree is None or norm_tree(m['ok']) == norm_tree(real_tree))
    if real[0] == 'lexical':
        return m.get('lexical', -1) == real[1] and 'lexical' in m
    if real[0] == 'grammar':
        return 'grammar' in m and m['grammar'] == real[1]
    return True                # foreign outcomes are the oracle's business


def run(env, res):
    import yaql
    tier = env['tier']
    rng = common.make_rng(env['seed'], 'C03')
    engines = {'default': yaql.YaqlFactory().create(),
               'delegates': yaql.YaqlFactory(allow_delegates=True).create()}
    import yaql.legacy
    engines['legacy'] = yaql.legacy.YaqlFactory().create()
    res.rule = ('texts from: all token sequences of length 1-2 and a seeded slice of length 3 over a %d-atom alphabet, token '
                'soups, single-character insert/delete/substitute mutants of valid expressions, every backslash escape shape '
                'in three quote styles, long numerals/identifiers, deep nestings, random code points; x 3 engines; distinct = '
                'distinct (engine, text); non-trivial = the text is not accepted (an error path was exercised)' % len(ATOMS))
    hist = {}
    kinds = {}
    if env['replay']:
        rp = json.load(open(env['replay']))['case']
        items = [(rp.get('kind', 'replay'), rp['text'])]
    else:
        items = itertools.chain(gen_texts(rng, tier), gen_boundary(rng, engines['default'], tier))

    def on_alarm(signum, frame):
        raise Timeout()
    signal.signal(signal.SIGALRM, on_alarm)
    import sys
    sys.setrecursionlimit(10000)
    seen = set()
    pending = {k: [] for k in engines}     # texts to show to the model, per engine

    def flush(ename, force=False):
        buf = pending[ename]
        if drv is None or not buf or (len(buf) < 400 and not force):
            return
        pending[ename] = []
        texts = [t for t, _, _ in buf]
        ms = model_outcomes(drv, ename, texts)
        if ms is None:
            res.fail('mismatch', 'model-table', 'the model cannot build the operator table of engine %s' % ename, dict(engine=ename))
            return
        for (t, out, tree), m in zip(buf, ms):
            res.traces += 1
            if not same_outcome(out, tree, m):
                res.fail('mismatch', 'classification', 'engine %s, text %r: real %r, model %r' % (
                    ename, t[:80], out, {k: v for k, v in m.items() if k != 'ok'} or 'ok (different tree)'),
                    dict(kind='model', text=t, engine=ename))
    drv = env['driver']
    import lexcfg
    from props import c02
    for kind, text in items:
        if (kind, text) in seen:
            continue
        seen.add((kind, text))
        for ename, eng in engines.items():
            if ename != 'default' and kind not in ('seq1', 'seq2', 'mut-del', 'soup', 'escape', 'boundary-alone', 'boundary-substituted', 'said-twice', 'arglist'):
                continue
            signal.alarm(20)
            try:
                if kind == 'deepx':
                    sys.setrecursionlimit(1000)
                out = outcome(eng, text)
            except Timeout:
                out = ('timeout',)
            finally:
                signal.alarm(0)
                sys.setrecursionlimit(10000)
            kinds[kind] = kinds.get(kind, 0) + 1
            hist[out[0]] = hist.get(out[0], 0) + 1
            res.case((ename, text), nontrivial=out[0] != 'ok',
                     sample=dict(engine=ename, kind=kind, text=text[:60], outcome=list(out)) if res.evaluations % 9000 == 1 else None)
            if out[0] == 'timeout':
                res.fail('oracle', 'non-termination', 'parsing %r did not terminate within 20 s' % (text[:80],),
                         dict(kind=kind, text=text, engine=ename))
                continue
            j = judge(text, out)
            if j:
                res.fail('oracle', j[0], j[1] + ' [engine %s]' % ename, dict(kind=kind, text=text, engine=ename))
            elif drv is not None and not lexcfg.has_surrogate(text) and (len(text) < 3000 or (kind.startswith('boundary') and len(text) < 20000)):
                tree = None
                if out[0] == 'ok':
                    try:
                        tree = c02.tree_json(eng(text).expression)
                    except Exception:  # noqa
                        tree = None
                pending[ename].append((text, out, tree))
                flush(ename)
        if len(res.failures) >= 8:
            break
    for ename in engines:
        flush(ename, force=True)
    # the same oracle while another thread parses on the same engine (token-fetch interleavings, as in C01):
    # a position must lie inside the caller's own text whatever else the engine is doing
    if not env['replay'] and not res.failures:
        import sched
        from props import c01
        cur = [None]
        uninstall = c01.install_points(lambda: cur[0])
        try:
            eng = engines['default']
            pool = ['a', '1 +', 'a b', '$.a.b.c ~', "'x' 'y'", '[1, 2', 'f(1,)', '1 2 3 4 5 6', '__x', 'é']
            steps = {t: c01.count_steps(eng, t) for t in pool}
            n_sched = 0
            for _ in range(250 if tier == 'quick' else 5000):
                texts = [rng.choice(pool), rng.choice(pool)]
                schedule = [i for i, t in enumerate(texts) for _ in range(steps[t])]
                rng.shuffle(schedule)
                sc = sched.Scheduler([(lambda t=t: outcome(eng, t)) for t in texts])
                cur[0] = sc
                try:
                    results = sc.run(schedule)
                finally:
                    cur[0] = None
                n_sched += 1
                for t, r in zip(texts, results):
                    res.case(('conc', tuple(texts), tuple(schedule), t), nontrivial=True)
                    out = r[1] if r and r[0] == 'ret' else ('foreign', 'thread', repr(r))
                    j = judge(t, out)
                    if j:
                        res.fail('oracle', j[0], j[1] + ' [while another thread parsed %r on the same engine, schedule %r]' % (
                            [x for x in texts], sc.trace), dict(kind='concurrent', texts=texts, schedule=sc.trace, text=t))
                        break
                if res.failures:
                    break
            kinds['concurrent-schedules'] = n_sched
        finally:
            uninstall()
    res.extra['outcome_histogram'] = hist
    res.extra['input_kinds'] = kinds
    return res


LEVEL_TEXT = ('Lean 4 theorems about the assembled model of engine(text) (lexer model + LR shift-reduce model run '
              'interleaved, both total by structural recursion): for EVERY character classification, operator table and '
              'text the outcome is a tree, a lexical error or a grammar error (total_classified); a lexical position is '
              'inside the text and names a piece of the text standing there; a grammar position is the start of a token of '
              'the text (lexical_position_inside, grammar_position_inside); numeral and escape conversions have no third '
              'outcome (C03Lex.conversions_total). Tie to the code: the real parser and the compiled model classify the same '
              'generated texts identically (class, position, and the tree when accepted) on three engines; the oracle on the '
              'real code alone is: no foreign exception, position inside the text, termination - also while another thread '
              'parses on the same engine. Round 5: C03Bound.tokens_printable / grammar_error_value_printable - every token the parser '
              'is given, at any position of any text, carries a value that can be formatted into the error message (integers below '
              '10^maxDigits; longer numerals never become tokens); texts put boundary-size tokens (digit limit, double range, 5000-'
              'character words and strings) into every syntactic position, say every part twice, and enumerate the argument-list '
              'grammar on all engine flavours.')
LEVEL_NOTE = ("trusted: Lean kernel; ply's LALR(1) table construction and master-regex dispatch (the model reproduces their "
              "documented effect; equivalence is differential); CPython re/codecs/int/float conversions (\\N{..} names and "
              "the int digit limit are passed to the model as data); lone surrogates are outside the model (Lean Char) and "
              "are only thrown at the real parser. Termination of the real parser is observed under a watchdog.")
TECHNIQUE = 'Lean 4 proof (structural recursion: totality, position lemmas) + differential classification of generated texts'
DESIGN_REF = 'DESIGN.md section 5, C03'
