"""C03 - parsing is total: a statement or a YAQL parsing error, nothing else.

Oracle (real code alone): `engine(text)` returns a Statement or raises YaqlLexicalException /
YaqlGrammarException; no other exception type; a reported position lies inside the text; it terminates.
Correspondence: the Lean lexer + parser models (Yaql.Model.Lexer / Parser) classify the same text the
same way (ok / Lexical pos / Grammar pos?), see `model_outcome`."""
import itertools
import json
import multiprocessing
import signal

import common
import treeutil

ID = 'C03'
NOT_READY = 'lexer+parser model assembly pending (oracle part built)'
LEAN_MODULES = ['Yaql.Props.C03']
REQUIRED_THEOREMS = []
TRUSTED = ["ply's LALR(1) table construction and its token/rule dispatch (modelled by its documented effect)",
           "CPython's re, codecs.decode('unicode-escape'), int()/float() text conversion"]
ASSUMPTIONS = ['lone surrogates are thrown at the real parser only (Lean Char is a scalar value)']

ATOMS = ['1', '1.5', 'a', 'true', 'null', '$', '$x', "'s'", '"d"', '`v`', 'f(', '(', ')', '[', ']', '{', '}', ',',
         '=>', '.', '?.', '+', '-', '*', '/', 'mod', '=', '!=', '<', '>=', 'in', 'not', 'and', 'or', '->', '=~', '!~',
         '~', '__x', '\\', "'", '"', '`', '#', '1e5', '.5', '1.', 'é', 'x1_', '_y', '1a', '$$']
VALID = ['1 + 2', '$.a.b', "f(1, 'x', a => 2)", '[1, 2, 3].select($ * 2)', "{a => 1, 'b' => [2]}", '$x[0]',
         'not $ and true or false', '-1 - -2', "let(x => 1) -> $x", 'a.b?.c(1,, 2)', "`v\\`x` + \"q\\\"\" + 'p\\''",
         '$.where($ > 1 and $ <= 10 or $ in [1, 2])', 'f(g(h(1)))', '1 =~ 2 !~ 3', '$ -> $']
ESC = ['\\\\', "\\'", '\\"', '\\a', '\\b', '\\f', '\\n', '\\r', '\\t', '\\v', '\\0', '\\7', '\\12', '\\123', '\\1234',
       '\\8', '\\x41', '\\x4', '\\xzz', '\\x', '\\u0041', '\\u00', '\\uzzzz', '\\ud800', '\\U00000041', '\\U0010FFFF',
       '\\U00110000', '\\U7FFFFFFF', '\\U80000000', '\\UFFFFFFFF', '\\U0000004', '\\Uzzzzzzzz', '\\N{DIGIT ONE}',
       '\\N{foo}', '\\N{}', '\\N{', '\\N', '\\q', '\\ ', '\\`', '\\$', '\\é']


def outcome(engine, text):
    """classify what the real parser does with `text`"""
    from yaql.language import exceptions, expressions
    try:
        st = engine(text)
        if not isinstance(st, expressions.Statement):
            return ('bad-return', type(st).__name__)
        return ('ok',)
    except exceptions.YaqlLexicalException as e:
        return ('lexical', e.position)
    except exceptions.YaqlGrammarException as e:
        return ('grammar', e.position)
    except exceptions.YaqlParsingException as e:
        return ('parsing', type(e).__name__, e.position)
    except RecursionError:
        return ('recursion',)
    except BaseException as e:  # noqa
        return ('foreign', type(e).__name__, str(e)[:120])


def judge(text, out):
    """the property's oracle; returns None or (key, message)"""
    if out[0] in ('ok',):
        return None
    if out[0] in ('lexical', 'grammar'):
        pos = out[1]
        if pos is None:
            return None if out[0] == 'grammar' else ('position', 'lexical error without position for %r' % (text,))
        if not (isinstance(pos, int) and 0 <= pos < len(text)):
            return ('position', '%s error position %r outside the text (length %d) for %r' % (out[0], pos, len(text), text[:80]))
        return None
    if out[0] == 'recursion':
        return ('recursion', 'RecursionError escaped the parser for a text of length %d' % len(text))
    return ('foreign-exception', 'parsing %r raised %r instead of a YAQL parsing error' % (text[:80], out))


class Timeout(Exception):
    pass


def gen_texts(rng, tier):
    n3 = 1 if tier == 'quick' else 3
    # every token sequence up to length 2 (quick) / 3 (thorough slice) over the atom alphabet
    for a in ATOMS:
        yield 'seq1', a
    for a, b in itertools.product(ATOMS, repeat=2):
        yield 'seq2', a + ' ' + b
    trip = list(itertools.product(ATOMS, repeat=3))
    rng.shuffle(trip)
    for a, b, c in trip[:6000 if tier == 'quick' else len(trip)]:
        yield 'seq3', a + ' ' + b + rng.choice(['', ' ']) + c
    # token soups
    for _ in range(1500 * n3):
        k = rng.randrange(4, 41)
        yield 'soup', ''.join(rng.choice(ATOMS) + rng.choice(['', ' ', ' ', '\t', '\n']) for _ in range(k))
    # single-character mutants of valid expressions
    alphabet = list("01aZ_$'\"`\\()[]{},.?+-*/=!<>~#@ \t\n:;|&%^é٠\U0001F600")
    for v in VALID:
        for i in range(len(v) + 1):
            yield 'mut-del', v[:i] + v[i + 1:]
            for c in (alphabet if tier == 'thorough' else rng.sample(alphabet, 6)):
                yield 'mut-ins', v[:i] + c + v[i:]
                yield 'mut-sub', v[:i] + c + v[i + 1:]
    # every escape shape in the three quote styles, alone, doubled and embedded
    for q in "'\"`":
        for e in ESC:
            yield 'escape', q + e + q
            yield 'escape', q + 'a' + e + 'b' + q
            yield 'escape', q + e + e + q
        for e1, e2 in (rng.sample(list(itertools.product(ESC, repeat=2)), 150 * n3)):
            yield 'escape', q + e1 + e2 + q
    # all \UXXXXXXXX boundary values and \x / \u families
    for h in ['0000D800', '0000DFFF', '0010FFFF', '00110000', '7FFFFFFF', '80000000', 'FFFFFFFF', 'ffffffff', '0000000g']:
        for q in "'\"":
            yield 'escape', q + '\\U' + h + q
    # very long numerals and identifiers
    for n in [1, 17, 308, 309, 400, 4299, 4300, 4301, 5000, 6000]:
        yield 'long', '1' * n
        yield 'long', '1' * n + '.5'
        yield 'long', '0.' + '1' * n
        yield 'long', '9' * n + '.' + '9' * n
    for n in [10, 1000, 100000]:
        yield 'long', 'a' * n
        yield 'long', '$' + 'b' * n
        yield 'long', 'f' * n + '(1)'
        yield 'long', "'" + 'c' * n + "'"
    for n in [10, 50, 200] + ([400] if tier == 'thorough' else []):
        yield 'deep', '(' * n + '1' + ')' * n
        yield 'deep', '[' * n + ']' * n
        yield 'deep', '-' * n + '1'
        yield 'deep', '1' + ' + 1' * n
        yield 'deep', 'f(' * n + ')' * n
    # arbitrary code points incl. astral and lone surrogates
    for _ in range(800 * n3):
        k = rng.randrange(1, 8)
        yield 'codepoints', ''.join(chr(rng.choice([rng.randrange(0x20, 0x7f), rng.randrange(0x80, 0x3000),
                                                     rng.randrange(0x10000, 0x110000), rng.randrange(0xD800, 0xE000)]))
                                    for _ in range(k))
    for cp in list(range(0, 0x250)) + [0x2028, 0x2029, 0x3000, 0xFEFF, 0xFFFF, 0x10000, 0x10FFFF]:
        yield 'codepoints', chr(cp)
        yield 'codepoints', 'a' + chr(cp) + 'b'


def model_outcomes(drv, texts):
    """hook for the Lean lexer+parser models; filled in when both models are available"""
    return None


def run(env, res):
    import yaql
    tier = env['tier']
    rng = common.make_rng(env['seed'], 'C03')
    engines = {'default': yaql.YaqlFactory().create(),
               'delegates': yaql.YaqlFactory(allow_delegates=True).create()}
    import yaql.legacy
    engines['legacy'] = yaql.legacy.YaqlFactory().create()
    res.rule = ('texts from: all token sequences of length 1-2 and a seeded slice of length 3 over a %d-atom alphabet, token '
                'soups, single-character insert/delete/substitute mutants of valid expressions, every backslash escape shape '
                'in three quote styles, long numerals/identifiers, deep nestings, random code points; x 3 engines; distinct = '
                'distinct (engine, text); non-trivial = the text is not accepted (an error path was exercised)' % len(ATOMS))
    hist = {}
    kinds = {}
    if env['replay']:
        rp = json.load(open(env['replay']))['case']
        items = [(rp.get('kind', 'replay'), rp['text'])]
    else:
        items = gen_texts(rng, tier)

    def on_alarm(signum, frame):
        raise Timeout()
    signal.signal(signal.SIGALRM, on_alarm)
    import sys
    sys.setrecursionlimit(10000)
    seen = set()
    for kind, text in items:
        if (kind, text) in seen:
            continue
        seen.add((kind, text))
        for ename, eng in engines.items():
            if ename != 'default' and kind not in ('seq1', 'seq2', 'mut-del', 'soup', 'escape'):
                continue
            signal.alarm(20)
            try:
                out = outcome(eng, text)
            except Timeout:
                out = ('timeout',)
            finally:
                signal.alarm(0)
            kinds[kind] = kinds.get(kind, 0) + 1
            hist[out[0]] = hist.get(out[0], 0) + 1
            res.case((ename, text), nontrivial=out[0] != 'ok',
                     sample=dict(engine=ename, kind=kind, text=text[:60], outcome=list(out)) if res.evaluations % 9000 == 1 else None)
            if out[0] == 'timeout':
                res.fail('oracle', 'non-termination', 'parsing %r did not terminate within 20 s' % (text[:80],),
                         dict(kind=kind, text=text, engine=ename))
                continue
            j = judge(text, out)
            if j:
                res.fail('oracle', j[0], j[1] + ' [engine %s]' % ename, dict(kind=kind, text=text, engine=ename))
        if len(res.failures) >= 8:
            break
    # the same oracle while another thread parses on the same engine (token-fetch interleavings, as in C01):
    # a position must lie inside the caller's own text whatever else the engine is doing
    if not env['replay'] and not res.failures:
        import sched
        from props import c01
        cur = [None]
        uninstall = c01.install_points(lambda: cur[0])
        try:
            eng = engines['default']
            pool = ['a', '1 +', 'a b', '$.a.b.c ~', "'x' 'y'", '[1, 2', 'f(1,)', '1 2 3 4 5 6', '__x', 'é']
            steps = {t: c01.count_steps(eng, t) for t in pool}
            n_sched = 0
            for _ in range(250 if tier == 'quick' else 5000):
                texts = [rng.choice(pool), rng.choice(pool)]
                schedule = [i for i, t in enumerate(texts) for _ in range(steps[t])]
                rng.shuffle(schedule)
                sc = sched.Scheduler([(lambda t=t: outcome(eng, t)) for t in texts])
                cur[0] = sc
                try:
                    results = sc.run(schedule)
                finally:
                    cur[0] = None
                n_sched += 1
                for t, r in zip(texts, results):
                    res.case(('conc', tuple(texts), tuple(schedule), t), nontrivial=True)
                    out = r[1] if r and r[0] == 'ret' else ('foreign', 'thread', repr(r))
                    j = judge(t, out)
                    if j:
                        res.fail('oracle', j[0], j[1] + ' [while another thread parsed %r on the same engine, schedule %r]' % (
                            [x for x in texts], sc.trace), dict(kind='concurrent', texts=texts, schedule=sc.trace, text=t))
                        break
                if res.failures:
                    break
            kinds['concurrent-schedules'] = n_sched
        finally:
            uninstall()
    res.extra['outcome_histogram'] = hist
    res.extra['input_kinds'] = kinds
    return res


LEVEL_TEXT = 'placeholder'
LEVEL_NOTE = 'placeholder'
TECHNIQUE = 'Lean 4 proof + differential classification'
