"""C08 - iterator limit and memory quota bound every evaluation.

Oracle (on the real code alone), every case in a worker process with a 5 s watchdog and an address-space
limit, so that a regression shows as `timeout` / `MemoryError` and never as a hung check:
 S. registry sweep: an endless instrumented source (pull counter; elements ints / empty tuples / empty
    iterators; direct or inside a one-element list) is fed into EVERY registered function at EVERY
    parameter position whose declared type admits it, N in {0,1,2,5,50}; lambdas constant-true / constant-
    false / identity / returning a fresh endless source.  The result is finalised.  pulls <= N+1 on every
    source, no timeout, no MemoryError, no collection longer than N in a returned result.
 E. expressions over a registered `src()` (endless) under yaql.limitIterators.
 R. result shapes around N-1, N, N+1 nested in lists / dicts / sets / iterators through `$` (both input-
    conversion modes): CollectionTooLargeException iff some collection exceeds N (model: Convert.convOut).
 L. utils.limit_iterable itself against the model (`Limits.run`), sized collections without iteration.
 Q. memory quota: repetition `$ * k`, `k * $` on str / tuple / list with counts up to 10**10 and quotas at
    the boundary of the modelled sizes (model: Limits.listByInt / stringByInt over Gen.Sizes), growth
    chains (concatenation, join, replace, accumulation...) with probes: no value above Q observed, none
    returned, MemoryQuotaExceededException instead of MemoryError / timeout."""
import json
import os
import select
import subprocess
import sys
import threading
import time

HARNESS = os.path.dirname(os.path.dirname(os.path.abspath(__file__)))
if HARNESS not in sys.path:
    sys.path.insert(0, HARNESS)

import common                                  # noqa: E402
import pyfacts                                 # noqa: E402
import srcobl                                  # noqa: E402

ID = 'C08'
LEAN_MODULES = ['Yaql.Props.C08', 'Yaql.Props.C08Gen', 'Yaql.Props.C08EvalMono', 'Yaql.Props.C08EvalOff', 'Yaql.Props.C08Eval',
                'Yaql.Props.C08Entry'] + \
    srcobl.modules('C08')      # Props/SrcLimits, SrcRepeat: limit_iterable / limit_memory_usage / list_by_int = current source
REQUIRED_THEOREMS = ['Yaql.Props.C08.' + n for n in (
    'limit_pulls', 'limit_prefix', 'limit_endless_raises', 'unlimited_never_raises', 'limit_sized',
    'finalize_bounded', 'finalize_refuses', 'repeat_estimate_safe', 'repeat_nonpositive', 'repeat_estimate_safe_str',
    'memorize_bounded', 'quota_flow', 'quota_result', 'frozen_dict_measured', 'dict_set_checked',
    'entry_bounded', 'entry_refuses', 'entry_call_bounded', 'entries_agree', 'top_level_limit_not_enough')] + ['Yaql.Props.C08Gen.' + n for n in (
        'consumers_limited', 'producers_limited', 'frozen_dict_unmeasured_old', 'table_nonvacuous', 'sizes_ok', 'repeat_estimate_safe_now',
        'repeat_estimate_safe_str_now', 'repeat_estimate_unsafe_old')] + ['Yaql.Props.C08Eval.' + n for n in (
            'evalL_off', 'runL_off', 'evalL_rel', 'runL_rel', 'evalL_refines', 'runL_refines', 'limits_monotone',
            'limits_monotone_error', 'new_outcomes', 'quota_flow_eval', 'quota_flow_eval_bound', 'quota_refuses', 'quota_flow_let',
            'quota_flow_ucall', 'quota_flow_receiver', 'limit_flow_iter', 'limit_sized_refuses', 'limitLazy_run',
            'limit_flow_result')] + srcobl.theorems('C08')
TRUSTED = ['harness/gens/limitfacts.py: classification of parameter types (live `check` with a generator object) and '
           'of syntactic uses (AST walk, helper calls followed two levels); cross-checked by the dynamic sweep',
           'harness/gens/sizes.py: sys.getsizeof constants of the running CPython, linear shape verified on samples',
           'sys.getsizeof as the measure of "size" (as the library itself uses it)',
           'Yaql/Model/EvalLimits.lean (hand-written: Eval + the two mechanisms) and harness/gens/evalsizes.py (None / bool / '
           'int / dict-table / list(<generator>) sizes, the largest non-data object the engine measures), tied to the code '
           'by part V; harness/evalgen.py + props/c04.py (program generator, renderer, parse-back check)']
ASSUMPTIONS = ['a lazy sequence is an iterator given by item index -> item (finite or endless); pulling has no effect but '
               'producing the next item',
               'lists produced by `left * k` are allocated exactly; other lists may be over-allocated (their real size is '
               '>= the modelled one, which only makes the estimate larger)',
               'C08.quota_flow is about first-order call trees with abstract payloads; the C08Eval theorems are about the '
               'instrumented C04 interpreter (fragment and out-of-domain cases of C04; sizes: shallow sys.getsizeof, '
               'non-data objects between objMin and objMax, dicts whose keys are partly strings and floats / sets are "no '
               'prediction" under a quota); part V exercises quotas >= objMax only',
               'the per-step checks inside distinct / groupBy / toDict / generate / memorize bound internal state that is '
               'never handed on; they are modelled (memorize_bounded) but not observable from outside']

NS = [0, 1, 2, 5, 50]
WATCHDOG = 5.0
AS_LIMIT = 3 << 30
KNOWN_KEY = 'nested-iterators-unlimited'
KNOWN_FD = 'frozendict-unmeasured'


def generate():
    info = dict(pyfacts.run(['Sizes', 'LimitFacts', 'EvalSizes']))
    info.update(srcobl.generate('C08'))       # re-translate utils.limit_* and the repetition operators
    return info


# =============================================================================== worker side

class Src:
    """endless instrumented source"""
    def __init__(self, elem, log):
        self.pulls = 0
        self.elem = elem
        self.log = log
        log.append(self)

    def __iter__(self):
        return self

    def __next__(self):
        self.pulls += 1
        if self.elem == 'int':
            return self.pulls
        if self.elem == 'etuple':
            return ()
        if self.elem == 'esrc':
            return Src('int', self.log)       # an endless sequence of endless sequences
        return iter(())


class Unsynth(Exception):
    pass


def deep_max_len(v, cap, depth=0):
    """the largest number of elements of a collection at any depth of a value handed to the host.  A result may hold
    lazy iterators (it should not: the finaliser turns them into lists): they are pulled for at most `cap` items, which
    is enough to see that they exceed a limit below `cap`, and keeps the walk finite over endless ones"""
    import collections.abc as abc
    import itertools
    if v is None or isinstance(v, (str, bytes, bool, int, float)) or depth > 40:
        return 0
    if isinstance(v, abc.Mapping):
        return max([len(v)] + [max(deep_max_len(k, cap, depth + 1), deep_max_len(x, cap, depth + 1)) for k, x in v.items()])
    if isinstance(v, (list, tuple, set, frozenset, abc.KeysView, abc.ItemsView, abc.ValuesView)):
        return max([len(v)] + [deep_max_len(x, cap, depth + 1) for x in v])
    if isinstance(v, abc.Iterable):
        items = list(itertools.islice(iter(v), cap))
        return max([len(items)] + [deep_max_len(x, cap, depth + 1) for x in items])
    return 0


class WorkerState:
    def __init__(self):
        import datetime
        import re
        import yaql
        from dateutil import tz
        from gens import limitfacts
        from yaql.language import exceptions, expressions, specs, utils, yaqltypes
        from yaql.standard_library import queries
        self.specs = specs
        self.yaql, self.exc, self.expressions, self.utils, self.yaqltypes = yaql, exceptions, expressions, utils, yaqltypes
        reg, self.root = limitfacts.registry()
        self.reg = dict(reg)
        self.factory = yaql.YaqlFactory()
        self.engines = {}
        self.candidates = [1, True, 'a', 1.5, (1, 2, 3), utils.FrozenDict({'a': 1}), frozenset([1]),
                           datetime.datetime(2020, 1, 1, tzinfo=tz.tzutc()), re.compile('a'),
                           queries.OrderingIterable([2, 1], None, None), None]
        try:
            from yaql.standard_library import date_time
            self.candidates.insert(8, date_time.TIMESPAN_TYPE(1))
        except Exception:
            pass

    def engine(self, **opts):
        key = tuple(sorted(opts.items()))
        if key not in self.engines:
            o = {}
            if opts.get('N') is not None:
                o['yaql.limitIterators'] = opts['N']
            if opts.get('Q') is not None:
                o['yaql.memoryQuota'] = opts['Q']
            o['yaql.convertInputData'] = opts.get('conv_in', False)
            if opts.get('raw'):
                o['yaql.convertOutputData'] = False
            self.engines[key] = self.factory.create(options=o)
        return self.engines[key]

    # ---- argument synthesis
    def synth(self, vt, lam, log, engine, pname=None):
        yt = self.yaqltypes
        if isinstance(vt, yt.Lambda):
            if lam.startswith('src:'):           # exactly one lambda returns an endless sequence, the others are identity
                lam = 'src' if lam[4:] == pname else 'ident'
            if lam == 'true':
                return lambda *a, **k: True
            if lam == 'false':
                return lambda *a, **k: False
            if lam == 'src':
                return lambda *a, **k: Src('int', log)
            return lambda *a, **k: a[0] if a else None
        if isinstance(vt, yt.Iterator):
            return iter([1, 2, 3])
        if isinstance(vt, yt.Keyword):
            return self.expressions.KeywordConstant('a')
        if isinstance(vt, yt.Constant):
            for c in ('a', 1, True):
                k = self.expressions.Constant(c)
                if vt.check(k, self.root, engine):
                    return k
            raise Unsynth()
        if isinstance(vt, (yt.YaqlExpression, yt.MappingRule)):
            raise Unsynth()
        for c in self.candidates:
            try:
                if vt.check(c, self.root, engine):
                    return c
            except Exception:
                pass
        raise Unsynth()

    def visible(self, fd):
        yt = self.yaqltypes
        ps = [(p.position, n, p) for n, p in fd.parameters.items()
              if n not in ('*', '**') and p.position is not None and not isinstance(p.value_type, yt.HiddenParameterType)]
        ps.sort(key=lambda t: t[0])
        kw = [(n, p) for n, p in fd.parameters.items()
              if n not in ('*', '**') and p.position is None and not isinstance(p.value_type, yt.HiddenParameterType)]
        return [(n, p) for _, n, p in ps], kw

    def build_args(self, fd, target, val, lam, log, engine, flags=()):
        from yaql.language import specs
        pos, kw = self.visible(fd)
        args, kwargs = [], {}
        names = [n for n, _ in pos]
        # required parameters, the target, and every lambda (optional predicates / selectors are the interesting ones)
        last_needed = max([i for i, (n, p) in enumerate(pos) if p.default is specs.NO_DEFAULT or n == target
                           or isinstance(p.value_type, self.yaqltypes.Lambda)] + [-1])
        for i, (n, p) in enumerate(pos):
            if i > last_needed:
                break
            args.append(val if n == target else self.synth(p.value_type, lam, log, engine, n))
        if target == '*':
            for i in range(len(args), len(pos)):
                args.append(self.synth(pos[i][1].value_type, lam, log, engine, pos[i][0]))
            args.append(val)
            try:
                args.append(self.synth(fd.parameters['*'].value_type, lam, log, engine))
            except Unsynth:
                pass
        for n, p in kw:
            if n == target:
                kwargs[p.alias or n] = val
            elif p.default is specs.NO_DEFAULT:
                kwargs[p.alias or n] = self.synth(p.value_type, lam, log, engine, n)
        if target == '**':
            kwargs['default'] = val
        supplied = set(names[:len(args)])
        for n, p in pos + kw:
            if n in flags and n not in supplied and n != target:
                kwargs[p.alias or n] = True          # an optional switch (default False) turned on
        assert target is None or target in names + ['*', '**'] + [n for n, _ in kw], target
        return args, kwargs

    def classify(self, e):
        if isinstance(e, self.exc.CollectionTooLargeException):
            return 'TooLarge'
        if isinstance(e, self.exc.MemoryQuotaExceededException):
            return 'Quota'
        if isinstance(e, MemoryError):
            return 'MemoryError'
        return 'exc:' + type(e).__name__

    def finish(self, fn, log, N=None):
        out = dict(maxlen=None)
        try:
            r = fn()
            out['outcome'] = 'returned'
            out['pulls'] = max([s.pulls for s in log] + [0])        # before the walk below (which pulls what is still lazy)
            out['maxlen'] = deep_max_len(r, 1000 if N is None else N + 2)
        except RecursionError:
            out['outcome'] = 'exc:RecursionError'
        except Exception as e:      # noqa
            out['outcome'] = self.classify(e)
        out.setdefault('pulls', max([s.pulls for s in log] + [0]))
        out['sources'] = len(log)
        return out

    def sweep(self, c):
        fd = self.reg[c['fn']]
        engine = self.engine(N=c['N'])
        log = []
        try:
            if c['target'] is None:
                val = None
            else:
                src = Src(c['elem'], log)
                val = src if c['wrap'] == 'direct' else (src,)
            args, kwargs = self.build_args(fd, c['target'], val, c['lam'], log, engine, c.get('flags') or ())
        except Unsynth:
            return dict(outcome='unsynthesizable', pulls=0, maxlen=None, sources=0)
        ctx = self.root.create_child_context()
        entry = c.get('entry', 'delegate')
        as_function = fd.is_function or not args

        def through(yi):
            # the attribute-call API of YaqlInterface: yi.<name>(*args) / yi.on(receiver).<name>(*args)
            if as_function:
                return getattr(yi, fd.name)(*args, **kwargs)
            return getattr(yi.on(args[0]), fd.name)(*args[1:], **kwargs)

        def go():
            if entry == 'stub':
                from yaql import yaql_interface
                return through(yaql_interface.YaqlInterface(ctx, engine))
            if entry == 'host':
                # the same from inside a host function that asked for the hidden `yaql_interface` parameter; what the
                # stub hands to the host function is the result that counts (the statement's own finaliser sees None)
                got = []

                def via_iface(yaql_interface):
                    got.append(through(yaql_interface))
                f = self.specs.inject('yaql_interface', self.yaqltypes.YaqlInterface())(via_iface)
                ctx.register_function(f, name='viaIface')
                engine('viaIface()').evaluate(context=ctx)
                return got[0]
            if as_function:
                r = fd(engine, ctx)(*args, **kwargs)
            else:
                r = fd(engine, ctx, args[0])(*args[1:], **kwargs)
            return ctx('#finalize', engine)(r)
        return self.finish(go, log, c['N'])

    def expr(self, c):
        import sys as _sys
        from props import c10
        via = c.get('via', 'create')
        per_call = None
        if via == 'create':
            engine = self.engine(N=c.get('N'), Q=c.get('Q'), conv_in=c.get('conv_in', True), raw=c.get('raw', False))
        else:
            # the limits arrive through engine.copy(options) / engine(text, options=...) of an engine WITHOUT limits that
            # has parsed the same text before (hosts keep one base engine and tighten it per tenant / per request)
            base = self.engine(N=None, Q=None, conv_in=c.get('conv_in', True), raw=c.get('raw', False))
            try:
                base(c['expr'])
            except Exception:      # noqa
                pass
            o = {}
            if c.get('N') is not None:
                o['yaql.limitIterators'] = c['N']
            if c.get('Q') is not None:
                o['yaql.memoryQuota'] = c['Q']
            if via == 'copy':
                engine = base.copy(o)
            else:
                engine, per_call = base, o
        ctx = self.root.create_child_context()
        log, probes, inner = [], [], []
        elem = c.get('elem', 'int')
        FD = self.utils.FrozenDict

        def hidden(x):
            # the table a FrozenDict owns is invisible to sys.getsizeof (no __sizeof__): measured separately
            return _sys.getsizeof(x._d, 0) if isinstance(x, FD) else 0

        def src():
            return Src(elem, log)

        def probe(x):
            probes.append(_sys.getsizeof(x, 0))
            inner.append(hidden(x))
            return x
        ctx.register_function(src, name='src')
        ctx.register_function(probe, name='probe')
        data = c10.build(c['data']) if c.get('data') is not None else self.utils.NO_VALUE
        if c.get('bigbits'):
            data = 1 << c['bigbits']
        out = dict(maxlen=None, size=None)
        try:
            if c.get('entry') == 'iface':
                # the expression form of YaqlInterface: yaql_interface(expr, data) with the data as `$1`
                from yaql import yaql_interface
                yi = yaql_interface.YaqlInterface(ctx, engine)
                r = yi(c['expr']) if data is self.utils.NO_VALUE else yi(c['expr'].replace('$', '$1'), data)
            else:
                st = engine(c['expr'], options=per_call) if per_call else engine(c['expr'])
                r = st.evaluate(data=data, context=ctx)
            out['outcome'] = 'returned'
            out['size'] = _sys.getsizeof(r, 0)
            inner.append(hidden(r))
            out['maxlen'] = deep_max_len(r, 1000 if c.get('N') is None else c['N'] + 2) if not c.get('raw') else None
            if c.get('want'):
                try:
                    out['value'] = c10.penc(r)
                except Exception as e:      # noqa
                    out['value'] = {'unknown': repr(e)}
        except RecursionError:
            out['outcome'] = 'exc:RecursionError'
        except Exception as e:      # noqa
            out['outcome'] = self.classify(e)
        out['pulls'] = max([s.pulls for s in log] + [0])
        out['sources'] = len(log)
        out['probe_max'] = max(probes + [0])
        out['hidden_max'] = max(inner + [0])
        if data is not self.utils.NO_VALUE:
            out['data_size'] = _sys.getsizeof(data, 0)
        return out

    def handle(self, c):
        t0 = time.time()
        try:
            out = self.sweep(c) if c['op'] == 'sweep' else self.expr(c)
        except MemoryError:
            out = dict(outcome='MemoryError', pulls=0, maxlen=None)
        out['t'] = round(time.time() - t0, 3)
        return out


def worker_main():
    import resource
    import warnings
    warnings.filterwarnings('ignore')
    resource.setrlimit(resource.RLIMIT_AS, (AS_LIMIT, AS_LIMIT))
    sys.setrecursionlimit(3000)
    w = WorkerState()
    print(json.dumps(dict(ready=True)), flush=True)
    for line in sys.stdin:
        c = json.loads(line)
        try:
            out = w.handle(c)
        except MemoryError:
            out = dict(outcome='MemoryError', pulls=0, maxlen=None)
        except BaseException as e:       # noqa
            out = dict(outcome='worker-error', msg=repr(e), pulls=0, maxlen=None)
        print(json.dumps(out, default=repr), flush=True)


# =============================================================================== parent side

class Worker:
    def __init__(self):
        self.p = None
        self.start()

    def start(self):
        self.p = subprocess.Popen([sys.executable, '-W', 'ignore', os.path.abspath(__file__), '--worker'],
                                  stdin=subprocess.PIPE, stdout=subprocess.PIPE, stderr=subprocess.DEVNULL,
                                  text=True, bufsize=1, cwd=common.ROOT)
        if self.read(60) is None:
            raise RuntimeError('C08 worker did not start')

    def read(self, timeout):
        r, _, _ = select.select([self.p.stdout], [], [], timeout)
        if not r:
            return None
        line = self.p.stdout.readline()
        if not line:
            return {}
        return json.loads(line)

    def ask(self, case, timeout=WATCHDOG):
        try:
            self.p.stdin.write(json.dumps(case) + '\n')
            self.p.stdin.flush()
            out = self.read(timeout)
        except (BrokenPipeError, OSError):
            out = {}
        if out is None or out == {}:
            dead = out == {}
            self.kill()
            self.start()
            return dict(outcome='worker-died' if dead else 'timeout', pulls=None, maxlen=None)
        return out

    def kill(self):
        try:
            self.p.kill()
            self.p.wait(timeout=5)
        except Exception:
            pass


def run_pool(cases, nworkers=16, give_up_after=40):
    """runs the cases on a pool of watchdogged worker processes; returns results in order.  After `give_up_after`
    unexpected timeouts the remaining cases are skipped (a thoroughly broken tree must not cost hours)."""
    results = [None] * len(cases)
    nxt = [0]
    bad = [0]
    lock = threading.Lock()
    nworkers = max(1, min(nworkers, len(cases)))

    def loop():
        w = Worker()
        try:
            while True:
                with lock:
                    i = nxt[0]
                    nxt[0] += 1
                    skip = bad[0] >= give_up_after
                if i >= len(cases):
                    return
                if skip:
                    results[i] = dict(outcome='skipped', pulls=None, maxlen=None)
                    continue
                results[i] = w.ask(cases[i])
                if results[i]['outcome'] in ('timeout', 'worker-died', 'MemoryError') and not (
                        cases[i].get('part') in ('S', 'E') and known_nested(cases[i])):
                    with lock:
                        bad[0] += 1
        finally:
            w.kill()
    ts = [threading.Thread(target=loop) for _ in range(nworkers)]
    for t in ts:
        t.start()
    for t in ts:
        t.join()
    return results


def sweep_targets():
    """[(fn key, payload name, target param or None, admits a 1-list holding the source, has lambdas)]"""
    import yaql
    from gens import limitfacts
    from yaql.language import yaqltypes
    reg, ctx = limitfacts.registry()
    engine = yaql.YaqlFactory().create()
    out = []
    for key, fd in reg:
        lambdas = any(isinstance(p.value_type, yaqltypes.Lambda) for p in fd.parameters.values())
        pay = '%s.%s' % (fd.payload.__module__.replace('yaql.standard_library.', ''), fd.payload.__qualname__)
        any_target = False
        switches = [n for n, p in fd.parameters.items() if p.default is False
                    and not isinstance(p.value_type, yaqltypes.HiddenParameterType)]
        for n, p in fd.parameters.items():
            vt = p.value_type
            if isinstance(vt, (yaqltypes.HiddenParameterType, yaqltypes.LazyParameterType)):
                continue

            def admits(v):
                try:
                    return bool(vt.check(v, ctx, engine))
                except Exception:
                    return False
            a_iter = admits(iter(()))
            a_tup = admits((iter(()),))
            if a_iter or a_tup:
                out.append(dict(fn=key, payload=pay, target=n, direct=a_iter, wrapped=a_tup, lambdas=lambdas, switches=switches))
                any_target = True
        if lambdas:
            out.append(dict(fn=key, payload=pay, target=None, direct=False, wrapped=False, lambdas=True, switches=switches,
                            lambda_names=[n for n, p in fd.parameters.items() if isinstance(p.value_type, yaqltypes.Lambda)]))
    return out, len(reg)


def known_nested(c):
    """the failure signature of finding `nested-iterators-unlimited` (and nothing else)"""
    if c.get('op') == 'expr':
        return c.get('known') == KNOWN_KEY
    pay = c['payload']
    if pay in ('collections.list_', 'collections.set_'):
        return c['target'] == '*' and c['wrap'] == 'direct' and c['elem'] == 'eiter'
    if pay == 'collections.flatten':
        return c['target'] == 'collection' and c['wrap'] == 'in_list' and c['elem'] in ('etuple', 'eiter')
    return False


def judge_bound(res, c, out, hist, what):
    """the oracle shared by the sweep and the expression cases"""
    N = c['N']
    oc = out['outcome']
    hist[oc] = hist.get(oc, 0) + 1
    if oc == 'skipped':
        return
    name = c.get('fn') or c.get('expr')
    if oc in ('timeout', 'worker-died'):
        if known_nested(c):
            hist['known:' + KNOWN_KEY] = hist.get('known:' + KNOWN_KEY, 0) + 1
            if hist['known:' + KNOWN_KEY] <= 3:
                res.fail('oracle', KNOWN_KEY, '%s does not return within %.0f s under yaql.limitIterators=%d' % (what, WATCHDOG, N), c)
        else:
            res.fail('oracle', 'unbounded:' + name, '%s does not return within %.0f s under yaql.limitIterators=%d (%s)' % (
                what, WATCHDOG, N, oc), c)
        return
    if oc == 'MemoryError':
        res.fail('oracle', 'memory-error:' + name, '%s ran into MemoryError under yaql.limitIterators=%d' % (what, N), c)
        return
    if oc == 'worker-error':
        res.fail('mismatch', 'worker-error', '%s: %s' % (what, out.get('msg')), c)
        return
    if out['pulls'] is not None and out['pulls'] > N + 1:
        res.fail('oracle', 'pulls:' + name, '%s pulled %d items from an endless source under yaql.limitIterators=%d (outcome %s)' % (
            what, out['pulls'], N, oc), c)
        return
    if oc == 'returned' and out.get('maxlen') is not None and out['maxlen'] > N:
        res.fail('oracle', 'oversized-result:' + name, '%s returned a collection of %d elements under yaql.limitIterators=%d' % (
            what, out['maxlen'], N), c)


def describe_sweep(c):
    v = {'int': 'endless ints', 'etuple': 'endless empty lists', 'eiter': 'endless empty iterators',
         'esrc': 'endless endless sequences'}.get(c.get('elem'), '')
    fl = (', %s => true' % ', '.join(c['flags'])) if c.get('flags') else ''
    fl += ENTRY_TEXT.get(c.get('entry'), '')
    if c['target'] is None:
        return '%s with %s returning endless sequences%s' % (
            c['fn'], 'every lambda' if c['lam'] == 'src' else 'lambda `%s`' % c['lam'][4:], fl)
    return '%s with %s%s as parameter `%s` (lambdas: %s%s)' % (
        c['fn'], v, ' inside a one-element list' if c['wrap'] == 'in_list' else '', c['target'], c['lam'], fl)


ENTRY_TEXT = {'stub': ' [called through the attribute-call API of YaqlInterface: YaqlInterface(context, engine).<name>(..) / '
                      '.on(receiver).<name>(..); the result is what the stub returns]',
              'host': ' [called through the `yaql_interface` parameter of a host function: yaql_interface.<name>(..) / '
                      '.on(receiver).<name>(..); the result is what the stub hands to the host function]',
              'iface': ' [evaluated with YaqlInterface(context, engine)(expression)]'}


VIA_TEXT = {'copy': ' [limits set with engine.copy(options) of a base engine that parsed the text before]',
            'call': ' [limits set with engine(text, options=...) of a base engine that parsed the text before]'}

EXPRS = [
    # (expression, element kind of src(), known-finding key or None)
    ('src().len()', 'int', None), ('len(src())', 'int', None), ('src().count()', 'int', None),
    ('generateMany(0, src())', 'int', None), ('generateMany(0, src(), decycle => true)', 'int', None),
    ('src().where(false)', 'int', None), ('src().where(false).first(0)', 'int', None), ('src().select($).where(false).any()', 'int', None),
    ('src().toList()', 'int', None), ('list(src())', 'int', None), ('set(src())', 'int', None), ('src().toSet()', 'int', None),
    ('src().orderBy($)', 'int', None), ('src().distinct()', 'int', None), ('src().groupBy($)', 'int', None),
    ('src().last()', 'int', None), ('src().sum()', 'int', None), ('src().max()', 'int', None), ('src().reverse()', 'int', None),
    ('[1, 2].join(src(), true, $1)', 'int', None), ('src().join([1], false, $1)', 'int', None),
    ('src().cycle()', 'int', None), ('[1, 2].cycle()', 'int', None), ('src().skip(1000).first()', 'int', None),
    ('src().indexOf(-1)', 'int', None), ('-1 in src()', 'int', None), ('src().contains(-1)', 'int', None),
    ('src().toDict($, $)', 'int', None), ('dict(src().select([$, $]))', 'int', None), ('src().zip(src())', 'int', None),
    ('src().memorize().len()', 'int', None), ('src().splitAt(3)', 'int', None), ('src().slice(2)', 'int', None),
    ('src().aggregate($1 + $2)', 'int', None), ('src().accumulate($1 + $2)', 'int', None), ('src().all()', 'int', None),
    ("src().select(str($)).join(',')", 'int', None), ('src().defaultIfEmpty([1])', 'int', None),
    ('src().takeWhile(true)', 'int', None), ('src().skipWhile(true)', 'int', None), ('src().flatten()', 'int', None),
    ('[src()].flatten()', 'int', None), ('[1].selectMany(src())', 'int', None), ('src().selectMany([])', 'int', None),
    ('src().selectMany([]).len()', 'etuple', None), ('[src()].sum().len()', 'int', None), ('list([src()])', 'eiter', None),
    ('sequence().len()', 'int', None), ('1.repeat().len()', 'int', None), ('[[].cycle()].selectMany($)', 'int', None),
    ('src().flatten()', 'etuple', None), ('src().flatten()', 'eiter', None),
    ('[src(), 1]', 'int', None), ('{a => src()}', 'int', None), ('[[src()]]', 'eiter', None), ('src()', 'etuple', None),
    # the known finding, in pure yaql and over src()
    ('list(range(0).repeat())', 'int', KNOWN_KEY), ('set(range(0).repeat())', 'int', KNOWN_KEY),
    ('[[].repeat()].flatten()', 'int', KNOWN_KEY), ('[range(0).repeat()].flatten()', 'int', KNOWN_KEY),
    ('list(src())', 'eiter', KNOWN_KEY), ('set(src())', 'eiter', KNOWN_KEY), ('[src()].flatten()', 'etuple', KNOWN_KEY),
]


# ------------------------------------------------------------------ R: result shapes around the limit

def shape_cases(rng, tier):
    """typed-JSON values (see props/c10.py) holding a collection of length L in {N-1, N, N+1} at some depth"""
    from props import c10
    out = []
    for N in NS:
        for L in sorted({max(N - 1, 0), N, N + 1}):
            for kind in ('list', 'tuple', 'set', 'iter', 'dict', 'fset', 'kview', 'iview', 'vview', 'ordering'):
                if kind == 'dict':
                    inner = {'m': 'dict', 'l': [[c10.enc_scalar('k%d' % i), c10.enc_scalar(i)] for i in range(L)]}
                elif kind == 'iview':       # items(): finalised into a list of L pairs, the view is checked by len
                    inner = {'q': kind, 'l': [{'q': 'tuple', 'l': [c10.enc_scalar('k%d' % i), c10.enc_scalar(i)]} for i in range(L)]}
                else:
                    inner = {'q': kind, 'l': [c10.enc_scalar(i) for i in range(L)]}
                hashable_inner = kind in ('tuple', 'fset', 'iter', 'vview', 'ordering')
                wraps = [lambda x: x,
                         lambda x: {'q': 'list', 'l': [x]},
                         lambda x: {'m': 'dict', 'l': [[c10.enc_scalar('a'), x]]},
                         lambda x: {'q': 'iter', 'l': [x]},
                         lambda x: {'q': 'list', 'l': [{'q': 'iter', 'l': [{'m': 'dict', 'l': [[c10.enc_scalar('a'), x]]}]}]}]
                if hashable_inner:
                    wraps.append(lambda x: {'q': 'set', 'l': [x]})
                    wraps.append(lambda x: {'m': 'dict', 'l': [[x, c10.enc_scalar(1)]]})
                for wi, w in enumerate(wraps):
                    v = w(inner)
                    if N == 0 and wi > 0:
                        continue          # with N = 0 any non-empty wrapper is refused first; covered by wi = 0 and below
                    out.append(dict(N=N, L=L, kind=kind, wrap=wi, v=v))
    # random nested values with random limits
    n_rand = 150 if tier == 'quick' else 12000
    for _ in range(n_rand):
        out.append(dict(N=rng.choice(NS[:4] + [3]), L=None, kind='random', wrap=None, v=c10.gen_value(rng, 3, False, 0.3, 0.8)))
    return out


def run_shapes(env, res, rng, hist):
    from props import c10
    drv = env['driver']
    real = c10.Real()
    cases = shape_cases(rng, env['tier'])
    for sc in cases:
        for conv_in in (False, True):
            N = sc['N']
            c10.SRC.clear()
            try:
                obj = c10.build(sc['v'])
            except TypeError:
                continue
            src_j = c10.penc(obj)
            raw_j = c10.py_in(src_j) if conv_in else src_j
            for (t2l, s2l) in ((True, False), (False, True)):
                c10.SRC.clear()
                obj = c10.build(sc['v'])
                src_j = c10.penc(obj)       # the very object that is evaluated (set iteration order is per object)
                raw_j = c10.py_in(src_j) if conv_in else src_j
                out = c10.run_real(real, '$', obj, t2l, s2l, N, conv_in)
                case = dict(part='R', v=sc['v'], N=N, conv_in=conv_in, opts=[t2l, s2l])
                res.case('R' + common.digest([sc['v'], N, conv_in, t2l, s2l]), sc['L'] is None or sc['L'] >= 1,
                         sample=dict(case, v=c10.show(sc['v'])) if res.evaluations % 400 == 0 else None)
                bounded = c10.py_bounded(raw_j, N)
                clean = c10.py_clean(raw_j, t2l, s2l)
                tag = '`$` over %s with yaql.limitIterators=%d (convertInputData=%s, options %s)' % (
                    c10.show(src_j), N, conv_in, (t2l, s2l))
                if out[0] == 'ok':
                    hist['R:returned'] = hist.get('R:returned', 0) + 1
                    m = c10.max_len(out[1])
                    if m > N:
                        res.fail('oracle', 'oversized-result:$', '%s returned a collection of %d elements' % (tag, m), case)
                        continue
                    if not bounded:
                        res.fail('oracle', 'oversized-result:$', '%s returned although a collection exceeds the limit' % tag, case)
                        continue
                else:
                    hist['R:' + out[1]] = hist.get('R:' + out[1], 0) + 1
                    if out[1] == 'tooLarge' and bounded:
                        res.fail('oracle', 'refused-within-limit', '%s raised CollectionTooLargeException although no collection '
                                 'has more than %d elements' % (tag, N), case)
                        continue
                    if out[1] == 'other':
                        res.fail('oracle', 'finalize-failed', '%s failed: %s' % (tag, out[2]), case)
                        continue
                if drv:
                    m = drv.ask({'p': 'C10', 'cases': [{'op': 'rt' if conv_in else 'out', 't2l': t2l, 's2l': s2l, 'lim': N,
                                                        'v': src_j}]})['res'][0]
                    real_cls = 'ok' if out[0] == 'ok' else {'tooLarge': 'tooLarge', 'unhashable-finalize': 'unhashable'}.get(out[1], out[1])
                    model_cls = 'ok' if 'ok' in m else m.get('err')
                    res.traces += 1
                    if not bounded and not clean and real_cls in ('tooLarge', 'unhashable') and model_cls in ('tooLarge', 'unhashable'):
                        continue        # two faults: which one is hit first depends on the iteration order of a set
                    if real_cls != model_cls:
                        res.fail('mismatch', 'model-finalize', '%s: real %s, model %s' % (tag, real_cls, model_cls), case)


# ------------------------------------------------------------------ R2: the same shapes through the other entry points

R_ENTRIES = ('iface', 'stub', 'stubOn', 'stub-select', 'host-select')
R_ENTRY_TEXT = {
    'iface': 'YaqlInterface(context, engine)("$1", v)',
    'stub': 'YaqlInterface(context, engine).ident(v) (ident: a host function that returns its argument)',
    'stubOn': 'YaqlInterface(context, engine).on(v).same() (same: a host method that returns its receiver)',
    'stub-select': 'YaqlInterface(context, engine).on([0]).select(<host lambda returning v>)',
    'host-select': 'yaql_interface.on([0]).select(<host lambda returning v>) inside a host function with the hidden '
                   '`yaql_interface` parameter (the result is what the stub hands to the host function)'}


def run_shape_entries(env, res, rng, hist):
    """`no collection with more than N elements at any depth of a result`, for results handed over by YaqlInterface:
    the expression form, the attribute-call stubs with and without on(receiver), stand-alone and from inside a host
    function; the value travels as an argument (converted on the way in), as the receiver (as it is) or is made by a
    host lambda below the top level of the iterator a library function returns"""
    from props import c10
    from yaql import yaql_interface
    from yaql.language import specs, yaqltypes
    drv = env['driver']
    real = c10.Real()
    ctx = real.root.create_child_context()
    ctx.register_function(lambda x: x, name='ident')
    ctx.register_function(specs.method(lambda receiver: receiver), name='same')
    got = []

    def via_iface(yaql_interface, fn):
        got.append(fn(yaql_interface))
    ctx.register_function(specs.inject('yaql_interface', yaqltypes.YaqlInterface())(via_iface), name='viaIface')
    cases = shape_cases(rng, env['tier'])
    todo = []
    for sc in cases:
        N = sc['N']
        optss = [(True, False)] if sc['L'] is not None and rng.random() < 0.7 else [(True, False), (False, True)]
        for entry in R_ENTRIES:
            if entry in ('iface', 'host-select') and env['tier'] == 'quick' and rng.random() < 0.6:
                continue
            for (t2l, s2l) in optss:
                c10.SRC.clear()
                try:
                    obj = c10.build(sc['v'])
                except TypeError:
                    continue
                src_j = c10.penc(obj)
                eng, _ = real.engine(t2l, s2l, N, True)
                yi = yaql_interface.YaqlInterface(ctx, eng)
                if entry in ('iface', 'stub'):
                    raw_j, mq = c10.py_in(src_j), dict(entry=entry, wrap='id', v=src_j)
                elif entry == 'stubOn':
                    raw_j, mq = src_j, dict(entry=entry, wrap='recv', v=src_j)
                else:
                    raw_j, mq = {'q': 'iter', 'l': [src_j]}, dict(entry='stubOn', wrap='iter', v=src_j)
                try:
                    if entry == 'iface':
                        r = yi('$1', obj)
                    elif entry == 'stub':
                        r = yi.ident(obj)
                    elif entry == 'stubOn':
                        r = yi.on(obj).same()
                    elif entry == 'stub-select':
                        r = yi.on((0,)).select(lambda _: obj)
                    else:
                        del got[:]
                        c2 = ctx.create_child_context()
                        c2['$1'] = lambda y: y.on((0,)).select(lambda _: obj)
                        eng('viaIface($1)').evaluate(context=c2)
                        r = got[0]
                    out = ('ok', r)
                except Exception as e:      # noqa
                    out = ('exc',) + c10.classify_exc(e, sys.exc_info()[2])
                case = dict(part='R', entry=entry, v=sc['v'], N=N, opts=[t2l, s2l])
                res.case('R2' + common.digest([entry, sc['v'], N, t2l, s2l]), sc['L'] is None or sc['L'] >= 1,
                         sample=dict(case, v=c10.show(sc['v'])) if res.evaluations % 900 == 0 else None)
                bounded = c10.py_bounded(raw_j, N)
                clean = c10.py_clean(raw_j, t2l, s2l)
                tag = '%s with v = %s, yaql.limitIterators=%d (options %s)' % (R_ENTRY_TEXT[entry], c10.show(src_j), N, (t2l, s2l))
                hk = 'R2:%s:' % entry
                if out[0] == 'ok':
                    hist[hk + 'returned'] = hist.get(hk + 'returned', 0) + 1
                    m = deep_max_len(out[1], N + 2)
                    if m > N:
                        res.fail('oracle', 'oversized-result:' + entry, '%s handed the host a collection of %s%d elements' % (
                            tag, 'at least ' if m == N + 2 else '', m), case)
                        continue
                    if not bounded:
                        res.fail('oracle', 'oversized-result:' + entry, '%s returned although a collection exceeds the limit' % tag, case)
                        continue
                else:
                    hist[hk + out[1]] = hist.get(hk + out[1], 0) + 1
                    if out[1] == 'tooLarge' and bounded:
                        res.fail('oracle', 'refused-within-limit', '%s raised CollectionTooLargeException although no collection '
                                 'has more than %d elements' % (tag, N), case)
                        continue
                    if out[1] == 'other':
                        res.fail('mismatch', 'entry-failed', '%s failed: %s' % (tag, out[2]), case)
                        continue
                real_cls = 'ok' if out[0] == 'ok' else {'tooLarge': 'tooLarge', 'unhashable-finalize': 'unhashable'}.get(out[1], out[1])
                todo.append((dict(mq, op='entry', t2l=t2l, s2l=s2l, N=N), real_cls, bounded, clean, tag, case))
    if drv:
        for i in range(0, len(todo), 400):
            part = todo[i:i + 400]
            ms = drv.ask({'p': 'C08', 'cases': [t[0] for t in part]})['res']
            for (q, real_cls, bounded, clean, tag, case), m in zip(part, ms):
                model_cls = 'ok' if 'ok' in m else m.get('err')
                res.traces += 1
                if not bounded and not clean and real_cls in ('tooLarge', 'unhashable') and model_cls in ('tooLarge', 'unhashable'):
                    continue        # two faults: which one is hit first depends on the iteration order of a set
                if real_cls != model_cls:
                    res.fail('mismatch', 'model-entry', '%s: real %s, model (Entry.deliver) %s' % (tag, real_cls, model_cls), case)


# ------------------------------------------------------------------ L: limit_iterable itself

def run_limit_direct(env, res, rng, hist):
    from yaql.language import exceptions as yexc
    from yaql.language import utils as yutils
    drv = env['driver']

    class It:
        def __init__(self, L):
            self.L, self.i = L, 0

        def __iter__(self):
            return self

        def __next__(self):
            if self.L is not None and self.i >= self.L:
                raise StopIteration
            self.i += 1
            return self.i - 1

    reqs, reals, metas = [], [], []
    Ls = [None, 0, 1, 2, 3, 5, 6, 7, 49, 50, 51, 52]
    for N in [None] + NS + [3, 6]:
        for L in Ls:
            for calls in (0, 1, 2, 3, 6, 7, 8, 51, 52, 60):
                if N is None and L is None and calls > 8:
                    continue
                src = It(L)
                it = yutils.limit_iterable(src, -1 if N is None else N)
                items, raised = [], False
                for _ in range(calls):
                    try:
                        items.append(next(it))
                    except StopIteration:
                        pass
                    except yexc.CollectionTooLargeException:
                        raised = True
                case = dict(part='L', N=N, L=L, calls=calls)
                res.case('L' + common.digest(case), True)
                hist['L:raised' if raised else 'L:quiet'] = hist.get('L:raised' if raised else 'L:quiet', 0) + 1
                if N is not None and (len(items) > N or src.i > N + 1):
                    res.fail('oracle', 'pulls:limit_iterable', 'limit_iterable(source of %s items, %d) consumed %d times: %d items '
                             'obtained, %d pulled' % (L, N, calls, len(items), src.i), case)
                    continue
                if N is not None and L is None and calls > N and not raised:
                    res.fail('oracle', 'unbounded:limit_iterable', 'limit_iterable(endless, %d) did not raise within %d pulls' % (N, calls), case)
                    continue
                reqs.append({'op': 'limit', 'N': N, 'len': L, 'calls': calls})
                reals.append(dict(items=items, pulls=src.i, raised=raised))
                metas.append(case)
    if drv:
        for r, m, case in zip(reals, drv.ask({'p': 'C08', 'cases': reqs})['res'], metas):
            res.traces += 1
            if r != m:
                res.fail('mismatch', 'model-limit', 'limit_iterable %s: real %s, model %s' % (case, r, m), case)

    # sized collections: checked by len(), never iterated, handed on unchanged
    class CountingList(list):
        iters = 0

        def __iter__(self):
            CountingList.iters += 1
            return list.__iter__(self)

    for N in NS:
        for L in sorted({max(N - 1, 0), N, N + 1}):
            for mk in (lambda n: CountingList(range(n)), lambda n: tuple(range(n)), lambda n: frozenset(range(n)),
                       lambda n: set(range(n)), lambda n: dict.fromkeys(range(n)), lambda n: yutils.FrozenDict.fromkeys(range(n)) if hasattr(yutils.FrozenDict, 'fromkeys') else yutils.FrozenDict((i, i) for i in range(n)),
                       lambda n: dict.fromkeys(range(n)).keys(), lambda n: dict.fromkeys(range(n)).items()):
                col = mk(L)
                CountingList.iters = 0
                case = dict(part='L', N=N, L=L, kind=type(col).__name__)
                res.case('Ls' + common.digest(case), True)
                try:
                    r = yutils.limit_iterable(col, N)
                    ok = r is col
                    raised = False
                except yexc.CollectionTooLargeException:
                    ok, raised = True, True
                if raised != (L > N) or not ok or CountingList.iters:
                    res.fail('oracle', 'sized:limit_iterable', 'limit_iterable(%s of %d, %d): raised=%s, same object=%s, iterated %d times' % (
                        type(col).__name__, L, N, raised, ok, CountingList.iters), case)
                if drv:
                    m = drv.ask({'p': 'C08', 'cases': [{'op': 'sized', 'N': N, 'len': L}]})['res'][0]
                    res.traces += 1
                    if m['ok'] == raised:
                        res.fail('mismatch', 'model-sized', 'limit_iterable sized %s: real raised=%s, model %s' % (case, raised, m), case)


# ------------------------------------------------------------------ Q: memory quota

def fd_chain_sizes(k, overhead):
    """sys.getsizeof of the frozen dicts `range(k).aggregate($1.set($2, $2), {})` goes through (transcription of
    dict_set: FrozenDict(chain(d.items(), ((key, value),))))"""
    import itertools
    d = {}
    out = [overhead + sys.getsizeof(d)]
    for i in range(k):
        d = dict(itertools.chain(d.items(), ((i, i),)))
        out.append(overhead + sys.getsizeof(d))
    return out


def fd_predict(k, Q, overhead):
    """(refused?, final size): every dict is an argument of set() together with key and value, and a call result"""
    S = fd_chain_sizes(k, overhead)
    if S[0] > Q:
        return True, S[0]
    for i in range(k):
        if S[i] + 2 * sys.getsizeof(i) > Q or S[i + 1] > Q:
            return True, S[i + 1]
    return False, S[k]


def quota_cases(rng, tier, sizes):
    """repetition cases with quotas at the boundary of the modelled sizes, and growth chains"""
    from props import c10
    out = []
    chars = [('a', 97), ('\xe9', 233), ('ሴ', 0x1234), ('\U0001d11e', 0x1d11e)]
    ks = [-5, 0, 1, 2, 3, 10, 1000, 10 ** 10]

    def model_sizes(kind, n, maxcp, k):
        if kind == 'str':
            hdr, w = [(sizes['strAscii'], 1), (sizes['strLatin1'], 1), (sizes['strUcs2'], 2), (sizes['strUcs4'], 4)][
                0 if maxcp < 128 else 1 if maxcp < 256 else 2 if maxcp < 65536 else 3]
            f = lambda m: sizes['strAscii'] if m == 0 else hdr + w * m      # noqa
        else:
            hdr = sizes['tupleHdr'] if kind == 'tuple' else sizes['listHdr']
            f = lambda m: hdr + sizes['ptr'] * m                            # noqa
        rep = 0 if k <= 0 else n * k
        return f(n), f(rep)

    for kind in ('str', 'tuple', 'list'):
        for n in (0, 1, 2, 5, 40, 100):
            variants = chars if kind == 'str' else [(None, 0)]
            for ch, cp in variants:
                if kind == 'str' and n == 0 and cp != 97:
                    continue
                for k in ks:
                    left, result = model_sizes(kind, n, cp, k)
                    est = (1 - k) * (sizes['strAscii'] if kind == 'str' else sizes['tupleHdr']) + k * left
                    qs = {100000, 100, max(1, result - 1), result, result + 1, max(1, est - 1), max(1, est), est + 1 if est > 0 else 7,
                          max(1, left - 1), left, left + 1}
                    # (below ~50 bytes every evaluation is refused: the 48-byte Constant node of `$` is itself an argument)
                    qs = sorted(q for q in qs if 64 <= q < 10 ** 9)
                    if tier == 'quick':
                        qs = rng.sample(qs, min(len(qs), 4))
                    for q in qs:
                        for swap in ((False, True) if k in (3, 10 ** 10) else (False,)):
                            data = c10.enc_scalar(ch * n) if kind == 'str' else {'q': kind, 'l': [c10.enc_scalar(1)] * n}
                            expr = ('%d * $' if swap else '$ * %d') % k if k >= 0 else ('(%d) * $' if swap else '$ * (%d)') % k
                            out.append(dict(op='expr', part='Q', sub='rep', expr=expr, data=data, Q=q, raw=True, conv_in=False,
                                            kind=kind, n=n, maxcp=cp, k=k))
    # growing frozen dicts: dict.set chains with quotas at the boundaries of the sizes the dict goes through
    for k in (1, 5, 6, 11, 22, 50, 200):
        sizes_k = fd_chain_sizes(k, sizes.get('fdictOverhead', 0))
        qs = set()
        for S in {sizes_k[0], sizes_k[len(sizes_k) // 2], sizes_k[-1]}:
            qs |= {S - 1, S, S + 55, S + 56, S + 57}
        qs |= {150, 400, 1300, 100000}
        qs = sorted(q for q in qs if q >= 64)
        if tier == 'quick':
            qs = rng.sample(qs, min(len(qs), 8))
        for q in qs:
            out.append(dict(op='expr', part='Q', sub='fd', expr='range(%d).aggregate($1.set($2, $2), {})' % k, data=None, Q=q,
                            raw=True, conv_in=True, k=k))
    chains = [
        ("range({k}).aggregate($1 + 'xxxxxxxxxx', '')", None), ("range({k}).aggregate($1 + [$2], [])", None),
        ("range({k}).aggregate($1 + {{$2 => 1}}, {{}})", None), ("range({k}).aggregate($1.set($2, $2), {{}})", None),
        ("range({k}).select(str($)).join(',')", None), ("'ab' * {k}", None), ("[1, 2] * {k}", None), ("{k} * 'ab'", None),
        ("probe('ab' * {k}).len()", None), ("probe([1, 2] * {k}).len()", None), ("probe(range({k}).toList()).len()", None),
        ("probe(range({k}).toDict($, $)).len()", None), ("probe(range({k}).toSet()).len()", None),
        ("probe(range({k}).select(str($)).join('')).len()", None), ("probe('{lit}').len()", None),
        ("('a' * {k}).replace('a', 'bbbbbbbbbb')", None), ("probe(('a' * {k}).replace({{a => 'bbbbbbbbbb'}})).len()", None),
        ("range({k}).accumulate($1 + 'xxxxxxxxxx', '').last()", None), ("probe(range({k}).distinct().toList()).len()", None),
        ("probe(range({k}).groupBy($ mod 3).toList()).len()", None), ("range({k}).memorize().len()", None),
        ("probe(list(range({k})) + list(range({k}))).len()", None), ("probe('x' * {k} + 'y' * {k}).len()", None),
        ("probe(range({k}).toDict($, $) + range({k}).toDict($ + 1000000, $)).len()", None),
        ("probe(range({k}).toSet().union(range({k}).select($ + 1000000).toSet())).len()", None),
        ("probe(' ' * {k} + 'a').trimLeft()", None),
        ("probe(shiftBitsLeft(1, {k} * 8)) > 0", None), ("pow(7, {k}) > 0", None), ("probe(pow(7, {k})) > 0", None),
        ("range(1, {k}).aggregate($1 * $2, 1) > 0", None), ("range({k}).aggregate($1 * 1000000007, 1) > 0", None),
        ("[pow(2, {k} * 8)].len()", None), ("probe($) > 0", 'bigint'), ("($ + 1) > 0", 'bigint'), ("$", 'bigint'),
        ("probe($ * {k}).len()", 'str'), ("probe($ + $ + $ + $).len()", 'big'), ("probe($).len()", 'big'),
    ]
    for tmpl, data in chains:
        for k in (1, 10, 100, 1500, 10 ** 10 if (('* {k}' in tmpl or '{k} *' in tmpl) and 'shift' not in tmpl and 'pow' not in tmpl) else (4000 if 'aggregate' not in tmpl else 2000)):
            for q in (200, 1000, 10000, 150000):
                if tier == 'quick' and rng.random() < 0.4:
                    continue
                if k == 10 ** 10 and 'range({k})' in tmpl:
                    continue
                expr = tmpl.format(k=k, lit='z' * min(k, 5000))
                d = None
                if data == 'str':
                    d = c10.enc_scalar('hello')
                elif data == 'big':
                    d = c10.enc_scalar('w' * min(k, 20000))
                case = dict(op='expr', part='Q', sub='chain', expr=expr, data=d, Q=q, raw=True, conv_in=True, k=k)
                if data == 'bigint':
                    case['bigbits'] = 8 * min(k, 20000)       # $ = 1 << bigbits (too long for a decimal literal)
                out.append(case)
    return out


def judge_quota(env, res, c, out, hist):
    oc = out['outcome']
    hist['Q:' + oc] = hist.get('Q:' + oc, 0) + 1
    if oc == 'skipped':
        return
    Q = c['Q']
    what = '%s%s under yaql.memoryQuota=%d%s' % (c['expr'][:120], ' ($ = %s of %d)' % (c.get('kind'), c.get('n')) if c['sub'] == 'rep' else '', Q,
                                                   VIA_TEXT.get(c.get('via'), ''))
    if oc in ('timeout', 'worker-died', 'MemoryError'):
        res.fail('oracle', 'quota-not-refused:' + ('repeat' if '*' in c['expr'] else c['expr'][:30]),
                 '%s ended in %s instead of MemoryQuotaExceededException' % (what, oc), c)
        return
    if oc == 'worker-error':
        res.fail('mismatch', 'worker-error', '%s: %s' % (what, out.get('msg')), c)
        return
    if out.get('probe_max', 0) > Q:
        res.fail('oracle', 'oversized-value-passed', '%s: a value of %d bytes was passed on to a function' % (what, out['probe_max']), c)
        return
    if oc == 'returned' and out.get('size') is not None and out['size'] > Q:
        res.fail('oracle', 'oversized-value-returned', '%s returned a value of %d bytes' % (what, out['size']), c)
        return
    if out.get('hidden_max', 0) > Q:
        hist['known:' + KNOWN_FD] = hist.get('known:' + KNOWN_FD, 0) + 1
        if hist['known:' + KNOWN_FD] <= 3:
            res.fail('oracle', KNOWN_FD, '%s: a dict whose table has %d bytes was passed on / returned (sys.getsizeof of the '
                     'FrozenDict wrapper is all the quota sees)' % (what, out['hidden_max']), c)
        return
    if c['sub'] == 'fd':
        over = env['sizes'].get('fdictOverhead', 0)
        refused, final = fd_predict(c['k'], Q, over)
        if env['driver'] is not None:
            res.traces += 1
            m = env['driver'].ask({'p': 'C08', 'cases': [{'op': 'fdict', 'ds': final - over, 'ks': 28, 'vs': 28, 'Q': str(Q)}]})['res'][0]
            if m['size'] != final or m['pass'] != (final <= Q):
                res.fail('mismatch', 'model-fdict', '%s: model %s, transcription size %d' % (what, m, final), c)
                return
        if oc == 'returned' and (refused or out['size'] != final):
            res.fail('oracle' if out['size'] > Q else 'mismatch', 'oversized-value-returned' if out['size'] > Q else 'model-fdict',
                     '%s returned a dict of %d bytes; expected %s' % (what, out['size'], 'a refusal' if refused else '%d bytes' % final), c)
        elif oc == 'Quota' and not refused:
            res.fail('mismatch', 'model-fdict', '%s was refused; the dict never exceeds %d bytes' % (what, final), c)
        elif oc not in ('returned', 'Quota'):
            res.fail('oracle', 'quota-other-error', '%s ended in %s' % (what, oc), c)
        return
    if c['sub'] == 'rep' and env['driver'] is not None:
        m = env['driver'].ask({'p': 'C08', 'cases': [{'op': 'repeat', 'kind': c['kind'], 'n': c['n'], 'maxcp': c['maxcp'],
                                                      'k': str(c['k']), 'Q': str(Q)}]})['res'][0]
        res.traces += 1
        # arguments and the result are checked too (SmartType.convert / runner.call)
        left_real = out.get('data_size')
        expect_ok = m['passes'] and m['size'] <= Q and (left_real is None or left_real <= Q)
        if c['kind'] != 'list' and left_real is not None and left_real != m['left'] and not (c['kind'] == 'str' and c['n'] == 1):
            res.fail('mismatch', 'model-size', '%s: sys.getsizeof($) = %d, model %d' % (what, left_real, m['left']), c)
            return
        if oc == 'returned':
            # one-character latin-1 strings are cached singletons that may carry a utf-8 copy (a few bytes more)
            single = c['kind'] == 'str' and c['n'] * max(c['k'], 0) == 1 and out['size'] >= m['size']
            if out['size'] != m['size'] and not single:
                res.fail('mismatch', 'model-size', '%s: result has %d bytes, model %d' % (what, out['size'], m['size']), c)
            elif not expect_ok and (left_real is None or left_real == m['left'] or c['kind'] == 'list'):
                if c['kind'] == 'list' and left_real is not None and left_real != m['left']:
                    return
                res.fail('mismatch', 'model-quota', '%s returned; the model refuses (%s)' % (what, m), c)
        elif oc == 'Quota':
            if expect_ok and (left_real is None or left_real == m['left']):
                res.fail('mismatch', 'model-quota', '%s was refused; the model lets it through (%s)' % (what, m), c)
        else:
            res.fail('oracle', 'quota-other-error', '%s ended in %s' % (what, oc), c)


# ------------------------------------------------------------------ entry point

def run(env, res):
    tier = env['tier']
    rng = common.make_rng(env['seed'], 'C08')
    hist, qhist, rhist, lhist = {}, {}, {}, {}
    sizes = (env.get('gen') or {}).get('Sizes') or {}
    if not sizes:
        from gens import sizes as gsizes
        sizes = gsizes.measure(strict=False)       # the translator refused the tree: still look for a failing input
    env['sizes'] = sizes
    res.rule = ('S: every registered function x every parameter position that admits a lazy sequence (or a list holding one) x '
                'N in {0,1,2,5,50} x element kind {ints, empty lists, empty iterators} x lambda profile; non-trivial = the source was '
                'pulled at least once. E: expressions over src(). R: result shapes with a collection of N-1/N/N+1 elements at depth '
                '0..3 + random nested values. L: limit_iterable against the model. Q: repetition with quotas at the modelled '
                'boundaries and growth chains. distinct = distinct case descriptions. ENTRY POINTS: the sweep cases also '
                'through the attribute-call stubs of YaqlInterface (stand-alone and from inside a host function with the hidden '
                'yaql_interface parameter), the expressions also through YaqlInterface(ctx, engine)(expr), the shapes (R2) '
                'through yi("$1", v), yi.ident(v), yi.on(v).same(), yi.on([0]).select(<lambda returning v>) stand-alone and '
                'inside a host function')
    if env['replay']:
        rp = json.load(open(env['replay']))
        c = rp['case']
        if 'src_target' in (c or {}):
            srcobl.differential(env, res, 'C08')
            return res
        if c.get('part') == 'V':
            from props import c08eval
            c08eval.replay(env, res, c)
            res.extra['histogram'] = hist
            return res
        if c.get('op') in ('sweep', 'expr'):
            out = run_pool([c], 1)[0]
            res.case(common.digest(c), True, sample=c)
            if c.get('part') == 'Q':
                judge_quota(env, res, c, out, qhist)
            else:
                judge_bound(res, c, out, hist, describe_sweep(c) if c['op'] == 'sweep' else c['expr'])
        else:
            res.case(common.digest(c), True, sample=c)
            # R / L cases are cheap: rerun the whole part
            if c.get('part') == 'R' and c.get('entry'):
                run_shape_entries(env, res, common.make_rng(env['seed'], 'C08-entries'), hist)
            else:
                (run_shapes if c.get('part') == 'R' else run_limit_direct)(env, res, rng, hist)
        res.extra['histogram'] = hist
        return res

    # ---- source-level differential: utils.limit_iterable / limit_memory_usage / list_by_int vs translation vs model
    srcobl.differential(env, res, 'C08')
    # ---- V: whole programs under both limits against the instrumented evaluator model (own pool, runs meanwhile)
    from props import c08eval
    vhandle = c08eval.start(env)
    vhist = {}
    if os.environ.get('C08_PARTS') == 'V':          # development: the evaluator part alone
        c08eval.finish(vhandle, env, res, vhist)
        res.extra['histogram'] = dict(evaluator=vhist)
        return res

    # ---- S + E + Q in the worker pool
    targets, nfuncs = sweep_targets()
    cases = []
    NS_ = NS if tier == 'quick' else NS + [3, 4, 10, 20]
    elems = ('int', 'etuple', 'eiter') if tier == 'quick' else ('int', 'etuple', 'eiter', 'esrc')
    for t in targets:
        lams = ['true', 'false', 'ident'] if t['lambdas'] else ['none']
        # optional switches (parameters defaulting to False: decycle, depthFirst...): off, each one on, all on
        sw = [s_ for s_ in t['switches'] if s_ != t['target']]
        flagsets = [[]] + [[x] for x in sw] + ([sw] if len(sw) > 1 else [])
        if t['target'] is None:
            for N in NS_:
                for fl in flagsets:
                    for lam in ['src'] + ['src:' + x for x in t['lambda_names']]:
                        cases.append(dict(op='sweep', part='S', fn=t['fn'], payload=t['payload'], target=None, N=N, elem='int',
                                          wrap='direct', lam=lam, flags=fl))
            continue
        for N in NS_:
            for elem in elems:
                for wrap in (['direct'] if t['direct'] else []) + (['in_list'] if t['wrapped'] else []):
                    for lam in lams:
                        for fl in flagsets:
                            cases.append(dict(op='sweep', part='S', fn=t['fn'], payload=t['payload'], target=t['target'], N=N,
                                              elem=elem, wrap=wrap, lam=lam, flags=fl))
    if tier == 'quick':
        # all function x position x N x element kind x wrap combinations stay; lambda profiles are sampled (one of three
        # per combination, the other two with probability 1/3)
        keep = []
        seen = {}
        for c in cases:
            k = (c['fn'], c['target'], c['N'], c['elem'], c['wrap'], tuple(c.get('flags') or ()))
            if c['lam'] == 'none' or c['lam'].startswith('src'):
                keep.append(c)
                continue
            first = seen.setdefault(k, rng.choice(['true', 'false', 'ident']))
            if c['lam'] == first or rng.random() < 0.33:
                keep.append(c)
        cases = keep
    # the result clause holds for every public entry point that hands a result to the host: the same calls through the
    # attribute-call stubs of YaqlInterface, stand-alone and from inside a host function with the hidden `yaql_interface`
    # parameter (all cases in which a lambda returns an endless sequence - a collection BELOW the top level of the
    # result -, a sample of the others)
    extra = []
    for c in cases:
        deep = c['target'] is None or c['elem'] == 'esrc'
        nested = c['wrap'] == 'in_list'
        for entry, pr in (('stub', 0.06), ('host', 0.03)):
            if rng.random() < ((1.0 if entry == 'stub' else 0.3) if deep else 2 * pr if nested else pr) * (1 if tier == 'quick' else 3):
                extra.append(dict(c, entry=entry))
    cases += extra
    for e, elem, known in EXPRS:
        for N in NS:
            cases.append(dict(op='expr', part='E', expr=e, elem=elem, N=N, known=known, conv_in=True))
            if tier != 'quick' or rng.random() < 0.5:
                cases.append(dict(op='expr', part='E', expr=e, elem=elem, N=N, known=known, conv_in=True, entry='iface'))
            # the same bound must hold when the limit comes from engine.copy(options) / engine(text, options=...)
            via = rng.choice(['copy', 'call'])
            if tier != 'quick' or rng.random() < 0.5:
                cases.append(dict(op='expr', part='E', expr=e, elem=elem, N=N, known=known, conv_in=True, via=via))
    qcases = quota_cases(rng, tier, sizes)
    qvia = []
    for qc in qcases:
        if qc.get('op') == 'expr' and rng.random() < (0.15 if tier == 'quick' else 0.5):
            qvia.append(dict(qc, via=rng.choice(['copy', 'call'])))
    qcases += qvia
    allc = cases + qcases
    # the cases known to hang first, so that their watchdog time overlaps with the rest
    order = sorted(range(len(allc)), key=lambda i: (not (allc[i].get('part') in ('S', 'E') and known_nested(allc[i])),
                                                    not (allc[i].get('k') == 10 ** 10)))
    t0 = time.time()
    results = run_pool([allc[i] for i in order], 16)
    outs = [None] * len(allc)
    for i, r in zip(order, results):
        outs[i] = r
    # A watchdog timeout in the pool may be nothing but a loaded machine (16 workers run side by side, and other checks
    # may run next to this one).  Every unexpected timeout is therefore re-tried ALONE, one case at a time, with twelve
    # times the allowance; only a case that still does not return counts as "does not return".  At most RETRY_MAX cases
    # are re-tried: if every one of them returns when run alone, the remaining timeouts are put down to load and skipped
    # (counted in the histogram); if one still hangs, the others keep their timeout verdict.
    RETRY_MAX = 8
    timed_out = [i for i, r in enumerate(outs) if r and r['outcome'] in ('timeout', 'worker-died')
                 and not (allc[i].get('part') in ('S', 'E') and known_nested(allc[i]))]
    retried = still = 0
    if timed_out:
        w = Worker()
        try:
            for i in timed_out[:RETRY_MAX]:
                r2 = w.ask(allc[i], timeout=12 * WATCHDOG)
                retried += 1
                if r2['outcome'] in ('timeout', 'worker-died'):
                    still += 1
                else:
                    outs[i] = r2
        finally:
            w.kill()
        if still == 0:
            for i in timed_out[RETRY_MAX:]:
                outs[i] = dict(outcome='skipped', pulls=None, maxlen=None)
    # The cases with the signature of the (repaired) finding `nested-iterators-unlimited` run first, while 16 + 4 worker
    # processes are starting: on a loaded machine one of them may miss the watchdog although it returns at once.  They
    # are re-tried alone as well (three times the allowance; a tree that has the defect hangs in the first re-try, after
    # which the others keep their verdict).
    nested_to = [i for i, r in enumerate(outs) if r and r['outcome'] in ('timeout', 'worker-died')
                 and allc[i].get('part') in ('S', 'E') and known_nested(allc[i])]
    if nested_to:
        w = Worker()
        try:
            for i in nested_to[:RETRY_MAX]:
                r2 = w.ask(allc[i], timeout=3 * WATCHDOG)
                if r2['outcome'] in ('timeout', 'worker-died'):
                    break
                outs[i] = r2
        finally:
            w.kill()
    hist['nested_timeouts'] = len(nested_to)
    hist['pool_timeouts'] = len(timed_out)
    hist['pool_timeouts_retried_alone'] = retried
    hist['pool_timeouts_confirmed'] = still
    pool_s = time.time() - t0
    positions = set()
    pulled = 0
    for c, out in zip(allc, outs):
        if c.get('part') == 'Q':
            if out['outcome'] == 'skipped':
                qhist['Q:skipped'] = qhist.get('Q:skipped', 0) + 1
                continue
            res.case('Q' + common.digest([c['expr'], c['data'], c['Q'], c.get('bigbits'), c.get('via')]), out['outcome'] in ('returned', 'Quota'),
                     sample=dict(expr=c['expr'], Q=c['Q'], outcome=out['outcome']) if res.evaluations % 700 == 0 else None)
            judge_quota(env, res, c, out, qhist)
            continue
        if out['outcome'] == 'skipped':
            hist['skipped'] = hist.get('skipped', 0) + 1
            continue
        nontrivial = bool(out.get('pulls')) or out['outcome'] in ('timeout',)
        pulled += nontrivial
        if c.get('entry'):
            hist['entry:' + c['entry']] = hist.get('entry:' + c['entry'], 0) + 1
        if c['op'] == 'sweep':
            positions.add((c['fn'], c['target']))
            what = describe_sweep(c)
        else:
            what = '`%s` (src(): %s)%s%s' % (c['expr'], c['elem'], VIA_TEXT.get(c.get('via'), ''), ENTRY_TEXT.get(c.get('entry'), ''))
        res.case(c['op'] + common.digest(c), nontrivial,
                 sample=dict(what=what, N=c['N'], outcome=out['outcome'], pulls=out.get('pulls')) if res.evaluations % 1500 == 0 else None)
        judge_bound(res, c, out, hist, what)
    # ---- L + R in process (finite data)
    run_limit_direct(env, res, rng, lhist)
    run_shapes(env, res, rng, rhist)
    run_shape_entries(env, res, common.make_rng(env['seed'], 'C08-entries'), rhist)
    c08eval.finish(vhandle, env, res, vhist)

    known = {k['key'] for k in common.known_findings() if k['property'] == ID and k.get('status') == 'known'}
    res.failures.sort(key=lambda f: f.key in known)
    res.extra['histogram'] = dict(sweep_and_expressions=hist, quota=qhist, shapes=rhist, limit_iterable=lhist,
                                  evaluator=vhist)
    res.extra['registered_functions'] = nfuncs
    res.extra['sweep_positions'] = len(positions)
    res.extra['sweep_cases'] = len(cases)
    res.extra['quota_cases'] = len(qcases)
    res.extra['cases_where_a_source_was_pulled'] = pulled
    res.extra['pool_seconds'] = round(pool_s, 1)
    res.extra['sizes'] = sizes
    return res


LEVEL_TEXT = ('Lean 4 theorems over a model of utils.limit_iterable (counting generator over an arbitrary finite or endless '
              'source: limit_pulls - at most N items obtained, at most N+1 pulled, for every source, N and consumer; '
              'limit_endless_raises; limit_prefix; limit_sized), of convert_output_data with the #iter limiter '
              '(finalize_bounded / finalize_refuses, via C10.convOut_spec; C08Entry over Model/Entry.lean: every public '
              'entry point - evaluate, YaqlInterface.__call__, the attribute-call stubs with and without on(receiver) - hands '
              'over what the whole finaliser let through: entry_bounded, entry_refuses, entry_call_bounded, entries_agree; '
              'limiting the top level only is not enough: top_level_limit_not_enough), of limit_memory_usage and the pre-allocation '
              'estimates of list_by_int / string_by_int over a size model whose constants are regenerated from the running '
              'CPython (repeat_estimate_safe, repeat_estimate_safe_str; the pre-fix estimate shown unsafe by a witness), '
              'memorize_bounded, and quota_flow for first-order call trees. Generated-table theorems re-proved on every run '
              '(C08Gen): every registered parameter that admits a lazy sequence and is iterated is of a limiting type and no '
              'payload iterates the elements of a parameter unlimited (consumers_limited, full - every row of the live '
              'registry), and no payload iterates the result of a lambda it calls except through limit_iterable '
              '(producers_limited). Tie and oracle: endless instrumented sources into every registered '
              'function and position in watchdogged, address-space-limited worker processes; result shapes around the limit; '
              'quota boundaries and 10**10 repetitions against the model. '
              'OVER THE EVALUATOR (C08Eval, C08EvalMono, C08EvalOff): evalL = the C04 reference interpreter Eval.eval with '
              'limit_memory_usage at every parameter binding and every call result and limit_iterable at every Iterable() '
              'parameter, in list() and in the finaliser, placed where runner.call / SmartType.convert / the payloads apply them. '
              'Proved for ALL expressions, contexts, documents, fuel, N, Q and size constants: without limits evalL IS Eval.eval '
              '(evalL_off, runL_off); a result under any limits is the reference result (evalL_refines, runL_refines); raising N or '
              'Q never turns a value into a failure and never changes it (limits_monotone, via the simulation runL_rel: a lazy '
              'sequence under smaller limits is a prefix that ends in a limit exception); Quota / TooLarge are the only new outcomes '
              '(new_outcomes); the result of every call node and every value bound by let / a def-ined function / #operator_. / an '
              'Iterable() parameter has passed the quota check (quota_flow_*); what gets through an Iterable() parameter shows at '
              'most N elements (limit_flow_iter; limitLazy = Limits.run: limitLazy_run) and a returned value holds no collection '
              'longer than N at any depth (limit_flow_result). Tie: generated C04 programs over inflated documents run on the real '
              'engine with limitIterators = N and memoryQuota = Q drawn around the lengths / sizes each program really produces, '
              'outcome class and value compared with the compiled evalL; oracle on the real run alone (payloads wrapped at '
              'registration time): an over-long collection in the result, or a data value larger than Q passed to / returned by a '
              'library function in a successful run.')
LEVEL_NOTE = ('trusted: Lean kernel; hand-written models Yaql/Model/Limits.lean, Convert.lean, Eval.lean (C04) and EvalLimits.lean; '
              'the translator (harness/gens/limitfacts.py, sizes.py, evalsizes.py); sys.getsizeof. C08.quota_flow is about an '
              'abstract first-order evaluator; the C08Eval theorems are about the instrumented C04 interpreter: its fragment and '
              'out-of-domain cases, shallow sizes, non-data objects only bounded (objMin..objMax: quotas below objMax are not '
              'exercised), mixed-key dicts / floats / sets "no prediction" under a quota, a 48-byte slack for the plain dict '
              'toDict returns; where Eval orders two ordinary exceptions differently from the code (dict(items), the finaliser) '
              'evalL keeps Eval\'s order. The two defects this check found (nested-iterators-unlimited, frozendict-unmeasured) are '
              'repaired in /repo (fb14b78, ccc0ee2); reverting either gives a VIOLATION with a concrete failing input.')
TECHNIQUE = ('Lean 4 proof (invariant of the counting generator, structural induction over values, integer arithmetic) + '
             'generated registry/use-fact table proved by decide +kernel + dynamic sweep of the whole registry')
DESIGN_REF = 'DESIGN.md section 5, C08'


if __name__ == '__main__':
    if '--worker' in sys.argv:
        worker_main()
