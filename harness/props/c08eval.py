"""C08, evaluator part: the iterator limit and the memory quota on whole programs.

Programs of the C04 generator (harness/evalgen.py) over inflated documents are evaluated
  real    engine.copy({limitIterators: N, memoryQuota: Q})(text).evaluate(data=doc) of the yaql under test,
  model   the compiled Lean interpreter Yaql.EvalLimits.runL (= the C04 reference interpreter + the two
          mechanisms; the theorems of Props/C08Eval.lean are about it),
first without limits (a profiling run that records what the engine measures and which collections it
handles), then under limits drawn AROUND the sizes / lengths the program really produces, so that value,
CollectionTooLargeException and MemoryQuotaExceededException all occur.

Oracle (real code alone, observation = payloads wrapped at registration time + the returned value):
  * a returned value containing a collection longer than N at any depth,
  * a successful evaluation under Q > 0 during which a data value larger than Q was passed to, or returned by,
    a library function (a FrozenDict counts the table it owns), or whose returned value is larger than Q.
Mismatch: outcome class or value differs from the model's although the oracle is silent.

Called from props/c08.py (`start` before the other parts, `finish` after them)."""
import json
import multiprocessing
import signal
import sys
import time

import common
import evalgen
from props import c04

PART = 'V'
FUEL = 400
TIMEOUT = 5
EXC = {'CollectionTooLargeException': 'TooLarge', 'MemoryQuotaExceededException': 'Quota'}
DATA = (type(None), bool, int, str, tuple, list, dict, frozenset, float)
BASE_OPTIONS = {'yaql.convertSetsToLists': True}


# ------------------------------------------------------------------ documents with sizes worth limiting

def inflate(rng, doc):
    """strings k times longer, lists r times longer (same factors everywhere in one document)"""
    k = rng.choice((1, 1, 40, 90, 230, 600))
    r = rng.choice((1, 1, 1, 6, 12, 40))

    def go(v):
        if isinstance(v, str):
            return v * k
        if isinstance(v, tuple):
            return tuple(go(x) for x in v) * r
        if isinstance(v, dict):
            return {a: go(b) for a, b in v.items()}
        return v
    return go(doc), (k, r)


# ------------------------------------------------------------------ the engine under observation

class Real:
    def __init__(self):
        import yaql
        from yaql.language import contexts, utils
        self.yaql, self.utils, self.contexts = yaql, utils, contexts
        self.base = yaql.YaqlFactory().create(options=BASE_OPTIONS)
        self.engines = {}
        self.root = yaql.create_context()
        self.seen = None            # sizes of data values at payload boundaries
        self.lens = None
        self.totals = None          # running totals `limit_memory_usage` compared (profiling run only)
        self.objects = None
        self.wrap_payloads()
        self.orig_lmu = utils.limit_memory_usage

    def dsize(self, x):
        if isinstance(x, self.utils.FrozenDict):
            # the table is owned by the FrozenDict: whatever __sizeof__ says, the mapping is at least that large
            return max(sys.getsizeof(x, 0), sys.getsizeof(x._d, 0))
        if isinstance(x, DATA):
            return sys.getsizeof(x, 0)
        return None

    def note(self, x):
        n = self.dsize(x)
        if n is not None and self.seen is not None:
            self.seen.append(n)
            if isinstance(x, (tuple, list, frozenset, self.utils.FrozenDict, dict)):
                self.lens.append(len(x))

    def wrap_payloads(self):
        real = self
        done = set()
        ctx = self.root
        while ctx is not None:
            for fds in getattr(ctx, '_functions', {}).values():
                for fd in fds:
                    if id(fd) in done or getattr(fd.payload, '_c08_observed', False):
                        continue
                    done.add(id(fd))

                    def make(payload):
                        def observed(*a, **k):
                            for x in a:
                                real.note(x)
                            for x in k.values():
                                real.note(x)
                            r = payload(*a, **k)
                            real.note(r)
                            return r
                        observed._c08_observed = True
                        return observed
                    fd.payload = make(fd.payload)
            ctx = ctx.parent

    def engine(self, N, Q):
        key = (N, Q)
        if key not in self.engines:
            if len(self.engines) > 4000:
                self.engines.clear()
            self.engines[key] = self.base.copy({'yaql.limitIterators': -1 if N is None else N, 'yaql.memoryQuota': Q})
        return self.engines[key]

    def hook(self, on):
        utils = self.utils
        if not on:
            utils.limit_memory_usage = self.orig_lmu
            return
        real, orig = self, self.orig_lmu

        def lmu(quota_or_engine, *args):
            total = 0
            for t in args:
                n = sys.getsizeof(t[1], 0)
                total += t[0] * n
                real.totals.append(total)
                if real.dsize(t[1]) is None:
                    k = type(t[1]).__name__
                    real.objects[k] = max(real.objects.get(k, 0), n)
            return orig(quota_or_engine, *args)
        utils.limit_memory_usage = lmu

    def run(self, text, doc, N, Q, profile=False, timeout=TIMEOUT):
        """-> (outcome, observed) with outcome ('ok', v) | ('ctx',) | ('err', class)"""
        self.seen, self.lens, self.totals, self.objects = [], [], [], {}
        out = None
        try:
            st = self.engine(N, Q)(text)
            signal.signal(signal.SIGALRM, c04._alarm)
            signal.setitimer(signal.ITIMER_REAL, timeout)
            if profile:
                self.hook(True)
            try:
                r = st.evaluate(data=evalgen.to_host(doc), context=self.root.create_child_context())
                if isinstance(r, self.contexts.ContextBase):
                    out = ('ctx',)
                else:
                    out = ('ok', r)
                    self.note(r)
            finally:
                signal.setitimer(signal.ITIMER_REAL, 0)
                if profile:
                    self.hook(False)
        except c04.Timeout:
            out = ('err', 'Timeout')
        except RecursionError:
            out = ('err', 'RecursionError')
        except MemoryError:
            out = ('err', 'MemoryError')
        except Exception as e:      # noqa
            out = ('err', EXC.get(type(e).__name__, type(e).__name__))
        obs = dict(sizes=self.seen, lens=self.lens, totals=self.totals, objects=self.objects)
        self.seen = self.lens = self.totals = self.objects = None
        return out, obs


_REAL = None


def real():
    global _REAL
    if _REAL is None:
        _REAL = Real()
    return _REAL


# ------------------------------------------------------------------ model

def ask_model(drv, cases):
    """cases: [(ast, doc, [(N, Q)..])] -> [[outcome..]..]; outcome as c04.dec_model, limits as ('err','TooLarge'|'Quota')"""
    if drv is None:
        return [[None] * len(l) for _, _, l in cases]
    out = []
    for i in range(0, len(cases), 120):
        rs = drv.ask({'p': 'C08Eval', 'fuel': FUEL,
                      'cases': [{'doc': c04.enc_doc(doc), 'e': c04.wire(ast), 'lims': [[n, q] for n, q in lims]}
                                for ast, doc, lims in cases[i:i + 120]]})['res']
        out += [[c04.dec_model(m) for m in row] for row in rs]
    return out


# ------------------------------------------------------------------ limits around what the program produces

def draw_limits(rng, obs, out, obj_max, count):
    """[(N, Q)]: N around the lengths seen, Q at the boundaries of the totals the engine compared"""
    from props import c10
    lens = set(obs['lens'])
    if out[0] == 'ok':
        lens.add(c10.max_len(out[1]))
    ncand = sorted({n for L in lens for n in (L - 1, L, L + 1) if n >= 0} | {0, 1, 2, 3})
    tot = sorted({t for t in obs['totals'] if t > obj_max + 1})
    qcand = sorted({q for t in tot for q in (t - 1, t)} | {obj_max})
    top = [q for t in tot[-2:] for q in (t - 1, t)]
    lims = []
    kinds = ['N', 'Q', 'Qtop', 'NQ', 'Q', 'N'][:count]
    for kind in kinds:
        if kind == 'N':
            lims.append((rng.choice(ncand), -1))
        elif kind == 'Q':
            lims.append((None, rng.choice(qcand)))
        elif kind == 'Qtop':
            lims.append((None, rng.choice(top) if top else rng.choice(qcand)))
        else:
            lims.append((rng.choice(ncand + [max(ncand) + 5]), rng.choice(qcand + [max(qcand) + 50])))
    return lims


# ------------------------------------------------------------------ judging one (program, document, limits)

def outcome_class(o):
    if o is None or o[0] == 'ood':
        return 'no-prediction'
    if o[0] == 'err':
        return o[1] if o[1] in ('TooLarge', 'Quota') else 'exception'
    return 'value'


def where(text, doc, N, Q):
    d = json.dumps(evalgen.to_host(doc), sort_keys=True)
    if len(d) > 300:
        d = d[:300] + '... (%d chars)' % len(d)
    return '`%s` on %s with limitIterators=%s memoryQuota=%s' % (text, d, -1 if N is None else N, Q)


def oracle(out, obs, N, Q):
    """the property on the real run alone -> text or None"""
    from props import c10
    if out[0] != 'ok' and out[0] != 'ctx':
        return None
    if N is not None and out[0] == 'ok':
        m = c10.max_len(out[1])
        if m > N:
            return 'returned a value holding a collection of %d elements' % m
    if Q > 0:
        big = max(obs['sizes'] + [0])
        if big > Q:
            return ('succeeded although a value of %d bytes (sys.getsizeof) was passed to / returned by a library function '
                    'or returned to the host' % big)
    return None


def judge(text, ast, doc, N, Q, out, obs, models, has_todict):
    """-> (kind, what) or None; models = the model outcomes that are acceptable for this run"""
    o = oracle(out, obs, N, Q)
    if o:
        return ('oracle', '%s: %s (model: %s)' % (where(text, doc, N, Q), o, c04.show(models[0])))
    if out[0] == 'err' and out[1] in ('RecursionError', 'MemoryError', 'Timeout'):
        return None
    verdicts = [c04.agree(out, m) for m in models]
    if any(v is None for v in verdicts) or any(v for v in verdicts):
        return None
    return ('mismatch', '%s: real %s, model %s%s' % (where(text, doc, N, Q), c04.show(out), c04.show(models[0]),
                                                     ' / %s with the plain-dict slack' % c04.show(models[1]) if has_todict else ''))


def has_fn(ast, name):
    if isinstance(ast, list):
        if len(ast) >= 3 and ast[0] == 'method' and ast[2] == name:
            return True
        if len(ast) >= 2 and ast[0] == 'call' and ast[1] == name:
            return True
        return any(has_fn(x, name) for x in ast)
    return False


FAILS_ANYWAY = [0]
SLACK = 48      # FrozenDict wrapper: toDict hands out a plain dict, which the model measures as a FrozenDict
# Several plain dicts can be SUMMED by one check (`[a.toDict(..), b.toDict(..)]`: #list adds up its arguments), each up to
# 48 + 40 bytes below the model's figure (wrapper + CPython's smaller table for all-string keys), any number of times when
# the dict sits in a variable that is listed repeatedly.  The model is therefore also asked with a wide band on top of the
# quota: a real run that passes is accepted when the model passes somewhere in the band (the oracle on the sizes observed
# in the real run is not affected by this).
BAND = 88 * 12


def model_lims(lims, todict):
    """the limits the model is asked for (a second quota with the slack for programs that use toDict)"""
    out = []
    for n, q in lims:
        out.append((n, q))
        if todict:
            out.append((n, q + SLACK if q > 0 else q))
            out.append((n, q + BAND if q > 0 else q))
    return out


def evaluate_program(rl, drv, ast, doc, lims, obj_max):
    """all runs of one program -> [(N, Q, out, obs, models)], first entry = the profiling run without limits"""
    text = evalgen.render(ast)
    todict = has_fn(ast, 'toDict')
    ml = model_lims(lims, todict)
    mres = ask_model(drv, [(ast, doc, ml)])[0]
    step = 3 if todict else 1
    rows = []
    for i, (n, q) in enumerate(lims):
        out, obs = rl.run(text, doc, n, q)
        if out == ('err', 'Timeout'):
            out, obs = rl.run(text, doc, n, q, timeout=8 * TIMEOUT)
        mods = mres[i * step:(i + 1) * step]
        if (i > 0 or (n, q) != (None, -1)) and out[0] == 'err' and out[1] in ('TooLarge', 'Quota') and mods and \
                all(m is not None and m[0] == 'err' and m[1] not in ('TooLarge', 'Quota') for m in mods):
            # Both sides end in an exception, the real run in a limit error and the model in another one.  When the program
            # fails in that other way WITHOUT limits too, the only difference is which of two errors of a lazily evaluated
            # result comes first (the real finaliser converts - and limits - each element as it is produced, before the next
            # one is computed; the model drains the sequence first).  C08 is met either way: the evaluation is bounded
            # and raises.  The row counts as agreeing; `FAILS_ANYWAY` says how often.
            out0, _ = rl.run(text, doc, None, -1)
            if out0[0] == 'err' and c04.agree(out0, mods[0]):
                FAILS_ANYWAY[0] += 1
                mods = [out] * len(mods)
        rows.append((n, q, out, obs, mods))
    return text, todict, rows


def fails(rl, drv, ast, doc, N, Q, kind, obj_max):
    try:
        text, todict, rows = evaluate_program(rl, drv, ast, doc, [(N, Q)], obj_max)
    except Exception:      # noqa
        return None
    n, q, out, obs, models = rows[0]
    f = judge(text, ast, doc, n, q, out, obs, models, todict)
    return f if f and f[0] == kind else None


def shrink(rl, drv, ast, doc, N, Q, kind, obj_max, budget=250):
    changed = True
    while changed and budget > 0:
        changed = False
        for cand in evalgen.shrink_candidates(ast):
            if evalgen.size(cand) >= evalgen.size(ast):
                continue
            budget -= 1
            if budget <= 0:
                break
            if fails(rl, drv, cand, doc, N, Q, kind, obj_max):
                ast, changed = cand, True
                break
        if changed:
            continue
        for cand in c04.shrink_doc_candidates(doc):
            budget -= 1
            if budget <= 0:
                break
            if fails(rl, drv, ast, cand, N, Q, kind, obj_max):
                doc, changed = cand, True
                break
    return ast, doc


def replay_of(ast, doc, N, Q):
    return {'part': PART, 'ast': c04.wire(ast), 'doc': c04.enc_doc(doc), 'N': N, 'Q': Q, 'text': evalgen.render(ast)}


def report(rl, drv, ast, doc, N, Q, f, obj_max):
    sast, sdoc = shrink(rl, drv, ast, doc, N, Q, f[0], obj_max)
    g = fails(rl, drv, sast, sdoc, N, Q, f[0], obj_max) or f
    return (g[0], 'eval:' + c04.failure_key(sast), g[1], replay_of(sast, sdoc, N, Q))


# ------------------------------------------------------------------ worker

def bump(d, k, n=1):
    d[k] = d.get(k, 0) + n


def work(args):
    idx, n_cases, seed, max_depth, use_model, obj_max, per = args
    rng = common.make_rng(seed, 'C08/eval/%d' % idx)
    drv = common.Driver() if use_model else None
    rl = real()
    out = dict(cases=[], failures=[], programs=0, runs=0, traces=0, real={}, model={}, pairs={}, lim_kind={}, inflate={},
               skipped={}, objects={}, sample=None, harness=None, maxsize={}, todict=0)
    try:
        for _ in range(n_cases):
            ast, doc, _t = evalgen.program(rng, max_depth)
            doc, fac = inflate(rng, doc)
            text = evalgen.render(ast)
            prof, pobs = rl.run(text, doc, None, -1, profile=True)
            if prof[0] == 'err' and prof[1] in ('Timeout', 'RecursionError', 'MemoryError'):
                bump(out['skipped'], prof[1])
                continue
            for k, v in pobs['objects'].items():
                out['objects'][k] = max(out['objects'].get(k, 0), v)
            lims = [(None, -1)] + draw_limits(rng, pobs, prof, obj_max, per)
            text, todict, rows = evaluate_program(rl, drv, ast, doc, lims, obj_max)
            out['programs'] += 1
            out['todict'] += todict
            bump(out['inflate'], 'strings x%d, lists x%d' % fac)
            bump(out['maxsize'], min(max(pobs['sizes'] + [0]) // 250 * 250, 5000))
            for n, q, ro, obs, models in rows:
                out['runs'] += 1
                kind = ('off' if n is None and q <= 0 else 'N' if q <= 0 else 'Q' if n is None else 'N+Q')
                rc, mc = outcome_class(ro), outcome_class(models[0])
                bump(out['lim_kind'], kind)
                bump(out['real'], kind + ':' + rc)
                bump(out['model'], mc)
                bump(out['pairs'], 'real %s / model %s' % (rc, mc))
                if models[0] is not None:
                    out['traces'] += 1
                nontrivial = kind != 'off' and rc in ('value', 'TooLarge', 'Quota') and mc != 'no-prediction'
                out['cases'].append((common.digest([text, repr(doc), n, q]), nontrivial))
                if out['sample'] is None and rc in ('TooLarge', 'Quota') and evalgen.size(ast) > 6:
                    out['sample'] = dict(text=text, N=n, Q=q, real=c04.show(ro)[:120], model=c04.show(models[0])[:120])
                f = judge(text, ast, doc, n, q, ro, obs, models, todict)
                if f and len(out['failures']) < 2:
                    out['failures'].append(report(rl, drv, ast, doc, n, q, f, obj_max))
    finally:
        if drv:
            drv.close()
    return out


# ------------------------------------------------------------------ fixed programs (every run)

FIXED = [
    # (text, doc, N, Q, expected class)
    ('[1, 2, 3].select($ * 2)', {}, 2, -1, 'TooLarge'),
    ('[1, 2, 3].select($ * 2)', {}, 3, -1, 'value'),
    ('[1, 2, 3].select($ * 2).select($ + 1).where($ > 2).take(2)', {}, 3, -1, 'value'),
    ('$.xs.selectMany([$, $]).take(3)', {'xs': (1, 2, 3)}, 3, -1, 'value'),
    ('$.xs.selectMany([$, $]).take(4)', {'xs': (1, 2, 3)}, 3, -1, 'TooLarge'),
    ('$.xs.selectMany([$, $]).first()', {'xs': (1, 2, 3)}, 3, -1, 'value'),
    ('$.xs.len()', {'xs': (1, 2, 3, 4, 5)}, 3, -1, 'value'),
    ('$.xs.select($).len()', {'xs': (1, 2, 3, 4, 5)}, 3, -1, 'TooLarge'),
    ('[$.xs]', {'xs': (1, 2, 3, 4, 5)}, 3, -1, 'TooLarge'),
    ('$.s + $.s + $.s + $.s', {'s': 'a' * 100}, None, 441, 'value'),
    ('$.s + $.s + $.s + $.s', {'s': 'a' * 100}, None, 440, 'Quota'),
    ('$.xs.aggregate($1 + $2, $.s)', {'xs': ('b' * 50,) * 4, 's': 'a' * 100}, None, 300, 'Quota'),
    ('$.xs.aggregate($1 + $2, $.s)', {'xs': ('b' * 50,) * 4, 's': 'a' * 100}, None, 341, 'value'),
    ('$.xs.select($ + $).first()', {'xs': ('a' * 150, 'b' * 400)}, None, 400, 'value'),
    ('$.xs.select($ + $)', {'xs': ('a' * 150, 'b' * 400)}, None, 400, 'Quota'),
    ('[$.s, $.s, $.s]', {'s': 'a' * 100}, None, 422, 'Quota'),
    ('[$.s, $.s, $.s]', {'s': 'a' * 100}, None, 423, 'value'),
    ('{a => 1, b => 2, c => 3, d => 4, e => 5, f => 6}', {}, None, 287, 'Quota'),
    ('{a => 1, b => 2, c => 3, d => 4, e => 5, f => 6}', {}, None, 320, 'value'),
    ('let(x => $.s + $.s) -> $x.len()', {'s': 'a' * 200}, None, 440, 'Quota'),
    ('def(f, $1 + $1) -> f($.s).len()', {'s': 'a' * 200}, None, 441, 'value'),
    ('$.xs.orderBy($).take(1)', {'xs': ('b' * 300, 'a' * 300)}, None, 340, 'Quota'),
    ('$.xs.toDict($, $ + $)', {'xs': ('k' * 300, 'l' * 10)}, None, 641, 'value'),
    ('$.xs.toDict($, $ + $)', {'xs': ('k' * 300, 'l' * 10)}, None, 600, 'Quota'),
    ('list($.xs.select($), $.xs.select($))', {'xs': (1, 2)}, 3, -1, 'TooLarge'),
    ('list($.xs.select($), $.xs.select($))', {'xs': (1, 2)}, 4, -1, 'value'),
    ('$.d', {'d': {'a': 1, 'b': 2, 'c': 3}}, 2, -1, 'TooLarge'),
    ('dict($.xs.select([$, $]))', {'xs': tuple(range(6))}, None, 400, 'value'),
    ('dict($.xs.select([$, $]))', {'xs': tuple(range(6))}, None, 399, 'Quota'),
]


def fixed_battery(env, res, hist, obj_max):
    rl = real()
    drv = env['driver']
    n = 0
    for text, doc, N, Q, expected in FIXED:
        ast = c04.parse_ast(text)
        if ast is None:
            raise RuntimeError('fixed program outside the fragment: ' + text)
        todict = has_fn(ast, 'toDict')
        out, obs = rl.run(text, doc, N, Q)
        models = ask_model(drv, [(ast, doc, model_lims([(N, Q)], todict))])[0]
        n += 1
        res.case('V' + common.digest([text, repr(doc), N, Q, 'fixed']), True)
        if drv is not None:
            res.traces += 1
        f = judge(text, ast, doc, N, Q, out, obs, models, todict)
        if f:
            res.fail(f[0], 'eval:fixed', f[1], replay_of(ast, doc, N, Q))
        elif drv is not None and outcome_class(models[0]) != expected:
            res.fail('mismatch', 'eval:fixed', '%s: real and model give %s, the table of fixed programs expects %s' % (
                where(text, doc, N, Q), c04.show(out), expected), replay_of(ast, doc, N, Q))
        bump(hist, 'fixed:' + outcome_class(out))
    return n


# ------------------------------------------------------------------ memorize (utils.memorize is outside the fragment)

def appended_list_size(k):
    """sys.getsizeof of a list after k appends (what `yielded` of a RememberingIterator is after k pulls)"""
    lst = []
    out = []
    for i in range(k):
        lst.append(i)
        out.append(sys.getsizeof(lst, 0))
    return out


def memorize_battery(env, res, hist, obj_max):
    """`range(k).memorize().len()`: the list of remembered items is measured after every pull (Limits.memorizeStep,
    C08.memorize_bounded): MemoryQuotaExceededException exactly when that list outgrows the quota.  The list is state of
    an iterator the library hands out, never a value passed on: a disagreement is a mismatch, not a failing input."""
    rl = real()
    drv = env['driver']
    n = 0
    for k in (30, 100, 400):
        sizes = appended_list_size(k)
        top = max(sizes)
        for Q in sorted({top - 1, top, top + 64, max(obj_max, sizes[k // 2])}):
            if Q < obj_max:
                continue
            text = 'range(%d).memorize().len()' % k
            out, _obs = rl.run(text, {}, None, Q)
            refused = any(sz > Q for sz in sizes)
            if drv is not None:
                m = drv.ask({'p': 'C08', 'cases': [{'op': 'mem', 'Q': str(Q), 'args': [['1', sz]]} for sz in sizes]})['res']
                model_refused = not all(x['passes'] for x in m)
                res.traces += 1
                if model_refused != refused:
                    res.fail('mismatch', 'eval:memorize', 'memorize of %d items under quota %d: Limits.limitMemory says %s, the '
                             'transcription %s' % (k, Q, model_refused, refused), {'part': PART, 'memorize': k, 'Q': Q})
            expect = ('err', 'Quota') if refused else ('ok', k)
            n += 1
            res.case('V' + common.digest([text, Q, 'memorize']), True)
            bump(hist, 'memorize:' + outcome_class(out))
            if not c04.same(out, expect):
                res.fail('mismatch', 'eval:memorize', '`%s` with memoryQuota=%d (the remembered list grows to %d bytes): real %s, '
                         'expected %s' % (text, Q, top, c04.show(out), c04.show(expect)), {'part': PART, 'memorize': k, 'Q': Q})
    return n


# ------------------------------------------------------------------ entry points

def obj_max_of(env):
    g = (env.get('gen') or {}).get('EvalSizes') or {}
    if 'objMax' in g:
        return g['objMax']
    from gens import evalsizes
    return evalsizes.measure(strict=False)['objMax']


def start(env):
    """launch the worker pool (it runs while the other parts of C08 run)"""
    tier = env['tier']
    if tier == 'quick':
        nproc, per, depth, lims = 4, 800, 4, 4
    else:
        nproc, per, depth, lims = 6, 3000, 5, 6
    obj_max = obj_max_of(env)
    jobs = [(i, per, env['seed'], depth, env['driver'] is not None, obj_max, lims) for i in range(nproc)]
    pool = multiprocessing.Pool(nproc)
    return dict(pool=pool, async_result=pool.map_async(work, jobs, chunksize=1), t0=time.time(), obj_max=obj_max)


def finish(handle, env, res, hist):
    pool = handle['pool']
    try:
        results = handle['async_result'].get(timeout=1500)
    finally:
        pool.terminate()
    obj_max = handle['obj_max']
    agg = dict(real={}, model={}, pairs={}, lim_kind={}, inflate={}, skipped={}, maxsize={})
    objects, programs, runs, todict = {}, 0, 0, 0
    for out in results:
        for sig, nt in out['cases']:
            res.case('V' + sig, nt)
        res.traces += out['traces']
        programs += out['programs']
        runs += out['runs']
        todict += out['todict']
        if out['sample'] and len(res.samples) < 8:
            res.samples.append(out['sample'])
        for kind, key, what, replay in out['failures']:
            res.fail(kind, key, what, replay)
        for k in agg:
            for a, b in out[k].items():
                agg[k][str(a)] = agg[k].get(str(a), 0) + b
        for k, v in out['objects'].items():
            objects[k] = max(objects.get(k, 0), v)
    too_big = {k: v for k, v in objects.items() if v > obj_max}
    if too_big:
        raise RuntimeError('non-data objects larger than objMax=%d reach limit_memory_usage: %r (harness/gens/evalsizes.py '
                           'BATTERY does not cover them)' % (obj_max, too_big))
    n_fixed = fixed_battery(env, res, agg['real'], obj_max)
    n_fixed += memorize_battery(env, res, agg['real'], obj_max)
    hist.update(dict(programs=programs, runs=runs, fixed_programs=n_fixed, programs_with_toDict=todict,
                     limit_error_first_of_two_errors=FAILS_ANYWAY[0],
                     limits_drawn=agg['lim_kind'], real_outcome_by_limit_kind=agg['real'], model_outcome=agg['model'],
                     real_vs_model=agg['pairs'], document_inflation=agg['inflate'],
                     largest_value_seen_bytes=agg['maxsize'], skipped=agg['skipped'], obj_max=obj_max,
                     non_data_objects_measured=objects, wall_s=round(time.time() - handle['t0'], 1)))


def replay(env, res, case):
    if 'memorize' in case:
        memorize_battery(env, res, {}, obj_max_of(env))
        return
    rl = real()
    ast, doc = c04.unwire(case['ast']), c04.dec_doc(case['doc'])
    N, Q = case['N'], case['Q']
    obj_max = obj_max_of(env)
    text, todict, rows = evaluate_program(rl, env['driver'], ast, doc, [(N, Q)], obj_max)
    n, q, out, obs, models = rows[0]
    res.case('V' + common.digest([text, repr(doc), N, Q]), True, sample=text)
    if env['driver'] is not None:
        res.traces += 1
    f = judge(text, ast, doc, n, q, out, obs, models, todict)
    if f:
        res.fail(f[0], 'eval:' + c04.failure_key(ast), f[1], replay_of(ast, doc, N, Q))
