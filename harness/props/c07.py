"""C07 - expressions cannot reach host objects except through granted members.

Part A (canary sweep, oracle on the real code alone): a canary host object that logs every
`__getattribute__` (except the interpreter's `__class__` probe and yaql's `__yaqlization__`
settings probe), `__getitem__`, `__call__`, `__setattr__` and holds a SECRET in attributes and
method results is passed to EVERY FunctionDefinition registered in yaql.create_context() in
EVERY parameter position (positionally and by keyword; as itself, inside a list and inside a
dict), directly (the AST the parser would build) and through call(name, args, kwargs[, receiver]),
with attack strings / a yaqlized object / a second canary as the other arguments; plus text
expressions for the member-access, index and operator forms.  Oracle: empty access log, the
secret never in a result or exception text.  (Model side: `access k none n = notYaqlized`,
`C07.gate`, `C07Gen.host_touch_only_yaqlized`: the model's allowed set for a non-yaqlized object is
empty.)

Part B (yaqlization settings, correspondence with Yaql.Model.Yaqlized + oracle): the three
switches x auto-yaqlize x whitelist / blacklist entries given as string / compiled regex /
predicate x remappings (string, tuple, 1-tuple, underscore target), crossed with every member name
of a probe class and three access forms.  Relation: the probe's access log and the exception
class equal what the Lean model computes.  Oracle (plain-Python transcription of the statement,
`ref_*`): nothing is reached unless the switch is on and the name is allowed; an underscore name is
never the REQUESTED name of a reached member; what is reached is exactly the remapped member
(attribute/method) or the key (index); the allow/deny decision is the same on the three paths; no
value of another member appears in the result or exception text."""
import itertools
import json
import re
import signal

import common
import pyfacts
import srcobl
from yaql.language import exceptions as yexc
from yaql.language import expressions as ex
from yaql.language import utils as yutils
from yaql.language import yaqltypes
from yaql import yaqlization
import yaql

ID = 'C07'
LEAN_MODULES = ['Yaql.Props.C07', 'Yaql.Props.C07Gen'] + srcobl.modules('C07')   # Props/SrcYaqlized
REQUIRED_THEOREMS = [
    'Yaql.Props.C07.underscore_denied', 'Yaql.Props.C07.underscore_denied_access',
    'Yaql.Props.C07.whitelist_exact', 'Yaql.Props.C07.blacklist_exact',
    'Yaql.Props.C07.whitelist_plain_names_exact', 'Yaql.Props.C07.blacklist_plain_names_exact',
    'Yaql.Props.C07.near_miss_refused', 'Yaql.Props.C07.near_miss_not_blocked',
    'Yaql.Props.C07.remap_targets_blacklisted', 'Yaql.Props.C07.remap_target_denied',
    'Yaql.Props.C07.same_decision', 'Yaql.Props.C07.reached_member',
    'Yaql.Props.C07.not_yaqlized_no_access', 'Yaql.Props.C07.switch_off_no_access',
    'Yaql.Props.C07.access_ok_checked', 'Yaql.Props.C07.auto_off_keeps', 'Yaql.Props.C07.auto_on_grants',
    'Yaql.Props.C07.gate', 'Yaql.Props.C07.gate_candidates',
    'Yaql.Props.C07Gen.host_touch_only_yaqlized', 'Yaql.Props.C07Gen.keyword_guard',
    'Yaql.Props.C07Gen.no_format_templates', 'Yaql.Props.C07Gen.yaqlized_rows',
    'Yaql.Props.C07Gen.yaqlized_flags_match', 'Yaql.Props.C07Gen.yaqlized_checker_probes_only',
    'Yaql.Props.C07Gen.scan_sees_uses', 'Yaql.Props.C07Gen.gate_generated',
] + srcobl.theorems('C07')
TRUSTED = [
    'AST scan harness/gens/hostfacts.py (classification of parameter types by running their check on opaque '
    'probes; syntactic use facts with alias / guard / callee following; list of callees that do no named member '
    'access) - its soundness is trusted, it is cross-checked by the canary sweep of the same registry',
    'CPython re for regex entries outside the modelled family (sent to the model as match tables)',
]
ASSUMPTIONS = [
    'a host object is an instance of an arbitrary class that implements no str/number/container/datetime '
    'protocol; Python\'s implicit special-method calls on it (__eq__/__hash__/__str__/__repr__/__bool__/'
    '__iter__/__sizeof__) are outside the statement as the canary observes it',
    'default context yaql.create_context() and default engine: delegate mode (create_context(delegates=True), '
    '$x(...) syntax), in which calling host callables is the documented purpose, is not swept',
    'an attribute_remapping whose target starts with an underscore is a grant made by the host: the '
    'underscore rule concerns the name the expression writes',
    'names contain no newline (regex $ / . are modelled as end-of-text / any character)',
]

SECRET = 'S3CR3T-MARK'
LOG = []


class Timeout(BaseException):
    pass


def _alarm(signum, frame):
    raise Timeout()


class Canary(object):
    """a host object that was NOT yaqlized"""
    secret = SECRET + '-attr'
    _private = SECRET + '-private'
    # not iterable: without this, iter(obj) falls back to the legacy sequence protocol and drives
    # __getitem__(0), (1), ..; that is an implicit special-method use like __iter__ (outside the statement).
    # With it every logged __getitem__ is an explicit subscript.
    __iter__ = None

    def __init__(self, tag='c'):
        object.__setattr__(self, 'tag', tag)
        object.__setattr__(self, 'inst_secret', SECRET + '-inst')

    def __getattribute__(self, name):
        if name not in ('__class__', '__yaqlization__'):
            LOG.append(('getattr', name))
        return object.__getattribute__(self, name)

    def __setattr__(self, name, value):
        LOG.append(('setattr', name))
        object.__setattr__(self, name, value)

    def __getitem__(self, key):
        LOG.append(('getitem', repr(key)[:40]))
        return SECRET + '-item'

    def __call__(self, *args, **kwargs):
        LOG.append(('call', len(args), sorted(kwargs)))
        return SECRET + '-call'

    def method(self):
        return SECRET + '-method'

    def __repr__(self):
        return '<canary>'


# ------------------------------------------------------------------ part A: the sweep

ATTACK_STRINGS = ['{0.secret}', '%(x)s', '__class__', '{zz.secret}{0.__class__}', '_private', 'secret', '__dict__']


def make_yaqlized():
    @yaqlization.yaqlize
    class Y(object):
        a = 1

        def m(self, *args, **kwargs):
            return 'm-result'

        def __getitem__(self, k):
            return 'item'
    return Y()


def _NoFinalize(ctx):
    """a child context whose #finalize keeps the raw result object"""
    c = ctx.create_child_context()
    c.register_function(lambda x: x, name='#finalize', exclusive=True)
    return c


class Sweep:
    def __init__(self):
        from gens import hostfacts
        self.hostfacts = hostfacts
        self.ctx, self.fds = hostfacts.registry()
        self.engine = yaql.YaqlFactory().create(options={
            'yaql.limitIterators': 200, 'yaql.memoryQuota': 4000000})
        self.text_engine = self.engine
        self.canary = Canary()
        self.hist = {}

    def pool(self):
        import datetime
        c2 = Canary('c2')
        y = make_yaqlized()
        vals = list(ATTACK_STRINGS) + [1, 0, (1, 2), tuple(ATTACK_STRINGS[:3]), yutils.FrozenDict({'__class__': 1, 'a': 2}),
                                       True, None, y, c2, datetime.datetime(2020, 1, 2, tzinfo=datetime.timezone.utc),
                                       datetime.timedelta(hours=1), 1.5, (), self.ctx.create_child_context(),
                                       frozenset([1, 'secret']), re.compile('(?P<secret>s)|x'), self.ordered()]
        return vals

    def ordered(self):
        """an OrderingIterable (receiver type of thenBy / thenByDescending)"""
        ctx = self.ctx.create_child_context()
        e = ex.BinaryOperator('.', ex.ListExpression(ex.Constant(2), ex.Constant(1)),
                              ex.Function('orderBy', ex.GetContextValue(ex.Constant('$'))), None)
        return ex.Statement(e, self.engine)(yutils.NO_VALUE, _NoFinalize(ctx), self.engine)

    def explicit(self, fd):
        """explicit (non-hidden) parameters: positional in order, the *args one, keyword-only, the **kwargs one"""
        star, dstar = fd.parameters.get('*'), fd.parameters.get('**')
        ps = [p for p in fd.parameters.values() if not isinstance(p.value_type, yaqltypes.HiddenParameterType)
              and p is not star and p is not dstar]
        pos = sorted([p for p in ps if isinstance(p.position, int)], key=lambda p: p.position)
        kwo = [p for p in ps if p.position is None]
        hidden = yaqltypes.HiddenParameterType
        var = [star] if star is not None and not isinstance(star.value_type, hidden) else []
        kws = [dstar] if dstar is not None and not isinstance(dstar.value_type, hidden) else []
        return pos, var, kwo, kws

    def fits(self, p, v, ctx):
        try:
            return bool(p.value_type.check(v, ctx, self.engine))
        except Exception:
            return False

    def pick(self, p, variant, ctx, pool, prefer_canary=False):
        cands = [v for v in pool if self.fits(p, v, ctx)]
        if prefer_canary:
            cs = [v for v in cands if isinstance(v, Canary)]
            if cs:
                return cs[0]
        if not cands:
            return pool[variant % len(ATTACK_STRINGS)]
        return cands[variant % len(cands)]

    # one evaluation ------------------------------------------------------
    def evaluate(self, build):
        """build(ctx) -> Statement.  returns (log, outcome text, exception class or None)"""
        del LOG[:]
        ctx = self.ctx.create_child_context()
        signal.signal(signal.SIGALRM, _alarm)
        signal.setitimer(signal.ITIMER_REAL, 3.0)
        try:
            try:
                stmt = build(ctx)
                r = stmt.evaluate(context=ctx)
                if yutils.is_iterator(r):
                    r = list(itertools.islice(r, 50))
                out, exc = repr(r), None
            except Timeout:
                out, exc = '', 'Timeout'
            except RecursionError:
                out, exc = '', 'RecursionError'
            except Exception as e:           # noqa
                out, exc = '%s: %s' % (type(e).__name__, e), type(e).__name__
        finally:
            signal.setitimer(signal.ITIMER_REAL, 0)
        return list(LOG), out, exc

    def var(self, ctx, name, value):
        ctx[name] = value
        return ex.GetContextValue(ex.Constant('$' + name))

    def wrap(self, shape):
        c = self.canary
        if shape == 'self':
            return c
        if shape == 'list':
            return (c,)
        return yutils.FrozenDict({'k': c})

    def arg_expr(self, ctx, p, value, idx, is_canary):
        """the expression the parser would have produced for this argument"""
        vt = p.value_type
        if not is_canary:
            if isinstance(vt, yaqltypes.Keyword):
                return ex.KeywordConstant(value if isinstance(value, str) else 'foo')
            if isinstance(vt, yaqltypes.StringConstant):
                return ex.Constant(value if isinstance(value, str) else 'foo')
            if isinstance(vt, yaqltypes.YaqlExpression):
                return ex.Function(value if isinstance(value, str) else 'foo')
            if isinstance(vt, yaqltypes.MappingRule):
                return ex.MappingRuleExpression(ex.Constant('k'), self.var(ctx, 'v%d' % idx, value))
        return self.var(ctx, 'v%d' % idx, value)

    def cases_for(self, fdi, tier):
        """yield replayable case descriptions for one FunctionDefinition"""
        depth, name, fd = self.fds[fdi]
        pos, var, kwo, kws = self.explicit(fd)
        slots = [('pos', p) for p in pos] + [('var', p) for p in var for _ in range(2)]
        named = [('kw', p) for p in kwo] + [('kws', p) for p in kws]
        nvar = 2 if tier == 'quick' else 6
        if any(self.fits(p, 'x', self.ctx) and not self.fits(p, 1, self.ctx) for _, p in slots + named):
            nvar = len(ATTACK_STRINGS)      # a string parameter: every attack string gets its turn
        shapes = ['self', 'list', 'dict']
        for i in range(len(slots) + len(named)):
            for variant in range(nvar):
                for shape in shapes:
                    if shape != 'self' and variant > (0 if tier == 'quick' else 2):
                        continue
                    for form in ('direct', 'call'):
                        yield dict(part='A', fd=fdi, fn=name, payload=self.payload(fd), slot=i, variant=variant,
                                   shape=shape, form=form, bykw=False)
        if not fd.no_kwargs:
            for i, (kind, p) in enumerate(slots):
                if kind == 'pos' and isinstance(p.name, str):
                    for form in ('direct', 'call'):
                        yield dict(part='A', fd=fdi, fn=name, payload=self.payload(fd), slot=i, variant=0,
                                   shape='self', form=form, bykw=True)

    @staticmethod
    def payload(fd):
        return '%s.%s' % (getattr(fd.payload, '__module__', '?'), getattr(fd.payload, '__qualname__', '?'))

    def run_case(self, case):
        depth, name, fd = self.fds[case['fd']]
        pos, var, kwo, kws = self.explicit(fd)
        slots = [('pos', p) for p in pos] + [('var', p) for p in var for _ in range(2)]
        named = [('kw', p) for p in kwo] + [('kws', p) for p in kws]
        allslots = slots + named
        target = case['slot']
        pool = self.pool()
        info = {}
        # a function with a string parameter may use it as a template over its other arguments: make
        # those host objects too, so that a template field hits one whatever its index
        has_str = any(self.fits(p, 'x', self.ctx) and not self.fits(p, 1, self.ctx) for _, p in allslots)

        def build(ctx):
            values, exprs, kwexprs, kwvalues = [], [], [], {}
            for i, (kind, p) in enumerate(allslots):
                is_c = (i == target)
                v = self.wrap(case['shape']) if is_c else self.pick(p, case['variant'] + i, ctx, pool, has_str)
                if is_c:
                    info['param'] = str(p.name)
                    info['ptype'] = type(p.value_type).__name__
                    info['pcls'] = self.hostfacts.type_class(p.value_type, self.ctx, self.engine)[1]
                bykw = kind in ('kw', 'kws') or (case['bykw'] and is_c)
                if bykw and i < target and not (kind in ('kw', 'kws')):
                    bykw = False
                kwname = (p.alias or p.name) if kind != 'kws' else 'zz'
                if case['bykw'] and not is_c and kind == 'pos' and i > target:
                    bykw = True         # positional arguments cannot follow a keyword one
                if bykw:
                    kwvalues[str(kwname)] = v
                    kwexprs.append(ex.MappingRuleExpression(
                        ex.KeywordConstant(str(kwname)), self.arg_expr(ctx, p, v, i, is_c)))
                else:
                    values.append(v)
                    exprs.append(self.arg_expr(ctx, p, v, i, is_c))
            as_method = fd.is_method and not fd.is_function
            if fd.is_method and fd.is_function:
                as_method = (case['variant'] % 2 == 0)
            if as_method and not values:
                as_method = False
            if case['form'] == 'direct':
                if as_method:
                    e = ex.BinaryOperator('.', exprs[0], ex.Function(name, *(exprs[1:] + kwexprs)), None)
                else:
                    e = ex.Function(name, *(exprs + kwexprs))
                info['expr'] = str(e)
            else:
                fnv = self.var(ctx, 'fn', name)
                if as_method:
                    args = self.var(ctx, 'args', tuple(values[1:]))
                    rcv = [self.var(ctx, 'rcv', values[0])]
                else:
                    args = self.var(ctx, 'args', tuple(values))
                    rcv = []
                kw = self.var(ctx, 'kw', yutils.FrozenDict(kwvalues))
                e = ex.Function('call', fnv, args, kw, *rcv)
                info['expr'] = 'call(%r, %d args, kwargs %s%s)' % (
                    name, len(values) - (1 if as_method else 0), sorted(kwvalues), ', receiver' if as_method else '')
            return ex.Statement(e, self.engine)

        log, out, exc = self.evaluate(build)
        return log, out, exc, info

    def run_text(self, text):
        def build(ctx):
            ctx['c'] = self.canary
            ctx['y'] = make_yaqlized()
            ctx['l'] = (self.canary,)
            ctx['d'] = yutils.FrozenDict({'a': self.canary})
            ctx['t'] = '{0.secret} %(x)s'
            return self.engine(text)
        return self.evaluate(build)


TEXT_FORMS = [
    '$c.foo', '$c.secret', '$c.inst_secret', '$c._private', '$c.method', '$c.__class__', '$c.__dict__',
    '$c.secret()', '$c.method()', '$c._private()', '$c.__class__()', '$c.__dict__()', '$c.__getattribute__(secret)',
    '$c.__init__()', '$c.__reduce__()', "$c['secret']", '$c[secret]', '$c[0]', "$c['__class__']", '$c[$c]',
    '$c?.secret', '$c?.method()', '$c?.__class__()', '$c.secret.x', '($c).secret', '$c.call(secret, [], {})',
    "call(secret, [], {}, $c)", "call('#operator_.', [$c, secret], {})", "call('#indexer', [$c, secret], {})",
    "call('#property#secret', [$c], {})", 'call(method, [], {}, $c)', 'call(__class__, [], {}, $c)',
    '$l.select($.secret)', '$l.select($.method())', '$l.select($[0])', '$l.where($.secret)', '$l[0].secret',
    '$l.first().secret', '$d.a.secret', "$d.get(a).secret", '$d.values().select($.secret)', "$d['a'].method()",
    '$l.orderBy($.secret)', '$l.groupBy($.secret)', '$l.toDict($.secret)', '$l.select($.__class__())',
    'str($c)', 'str($l)', 'toString($c)'.replace('toString', 'str'), "$t.replace('x', $c)", "$t.join([$c])",
    '$t + str($c)', "'{0}'.replace('{0}', str($c))", 'len($c)', 'list($c)', 'dict($c)', 'dict($c => 1)', 'set($c)',
    '$c = $c', '$c != 1', '$c in $l', '$l.contains($c)', '$l.indexOf($c)', '$c > 1', '$c + 1', '$c * 2', '-$c', 'not $c',
    '$c and $c.secret', '$c or 1', 'bool($c)', 'isString($c)', 'isDict($c)', 'isList($c)', 'coalesce($c, 1)',
    'let(x => $c) -> $x.secret', 'let($c) -> $1.method()', '[$c].len()', '[$c, $c].distinct()', '{a => $c}.a.secret',
    '$c -> $.secret', 'switch($c => 1)', 'selectCase($c)', '$c.switchCase(1)', 'examine($c, $c.secret)',
    'def(f, $c) -> f(7)', 'def(f, $.secret) -> f($c)', 'lambda($c)', '$c(1)', '$c.secret(1)',
    '$y[$c]', '$y.m($c)', '$y.m(k => $c)', '$y.get($c)', "$y[$c.secret]", '$y.a.$c', '$y.$c',
    'assert($c, $c)', '$c.assert($.secret)', 'max($c, 1)', 'min(1, $c)', 'random($c, 1)', 'range($c)',
    'format($t, $c)', '$t.format($c)', "'{0.secret}'.format($c)", "'%s' % $c", '$t % $c',
    'now($c)', 'datetime($c)', 'timespan(days => $c)', 'regex($c)', "regex('x').matches($c)", '$c =~ x', "'x' =~ $c",
    'yaql($c)', 'eval($c)', 'getattr($c, secret)', 'hasattr($c, secret)', 'attr($c, secret)', 'type($c)',
]


def k3_signature(log, case, info):
    """the known finding K3: a callable host object that reached a Lambda-typed parameter through
    call(name, args, kwargs) is probed for `__unwrapped__` and then called"""
    # (which overload of the name binds is yaql's choice, so the signature is the access pattern that only
    # Lambda.convert + Lambda._call produce: one `__unwrapped__` probe, then nothing but calls)
    # (the second canary that fills the other slots can be the one in the Lambda slot)
    if case.get('form') != 'call':
        return None
    if not log or log[0] != ('getattr', '__unwrapped__'):
        return None
    if any(e != ('getattr', '__unwrapped__') and e[0] != 'call' for e in log):
        return None
    return ['unwrapped-probe'] + (['callable-host-invoked-via-lambda-param'] if any(e[0] == 'call' for e in log) else [])


def indexer_key_signature(log, case, info):
    if case.get('payload') == 'yaql.standard_library.yaqlized.indexation' and info.get('param') == 'key' \
            and log == [('getattr', 'startswith')] and case.get('shape') == 'self':
        return ['indexer-key-startswith-probe']
    return None


def run_sweep(env, res, only=None):
    sw = Sweep()
    tier = env['tier']
    hist = dict(evaluations=0, bound=0, exceptions={}, timeouts=0, by_form={}, by_shape={}, by_ptype={},
                functions=len(sw.fds), k3_hits=0, indexer_key_hits=0, text_forms=0)
    if only:
        # the registry index may have shifted: find the FunctionDefinition by name and payload
        same = [i for i, (_, n, fd) in enumerate(sw.fds) if n == only['fn'] and sw.payload(fd) == only['payload']]
        if same and only['fd'] not in same:
            only = dict(only, fd=same[0])
    cases = [only] if only else itertools.chain.from_iterable(sw.cases_for(i, tier) for i in range(len(sw.fds)))
    seen_fn = set()
    slots = {}
    reported = set()
    for case in cases:
        log, out, exc, info = sw.run_case(case)
        if case['shape'] == 'self':
            k = (case['fd'], case['slot'], info.get('pcls', '?'))
            slots[k] = slots.get(k, False) or exc not in NOT_YAQLIZED_EXC
        hist['evaluations'] += 1
        hist['by_form'][case['form']] = hist['by_form'].get(case['form'], 0) + 1
        hist['by_shape'][case['shape']] = hist['by_shape'].get(case['shape'], 0) + 1
        pt = info.get('ptype', '?')
        hist['by_ptype'][pt] = hist['by_ptype'].get(pt, 0) + 1
        if exc is None:
            hist['bound'] += 1
        else:
            hist['exceptions'][exc] = hist['exceptions'].get(exc, 0) + 1
            if exc == 'Timeout':
                hist['timeouts'] += 1
        sig = (case['fd'], case['slot'], case['variant'], case['shape'], case['form'], case['bykw'])
        res.case(common.digest(sig), nontrivial=True,
                 sample=dict(case, expr=info.get('expr'), outcome=out[:80]) if case['fn'] not in seen_fn and len(seen_fn) < 3 else None)
        seen_fn.add(case['fn'])
        res.traces += 1
        if log:
            keys = k3_signature(log, case, info) or indexer_key_signature(log, case, info)
            if keys and 'unwrapped-probe' in keys:
                hist['k3_hits'] += 1
            if keys and 'indexer-key-startswith-probe' in keys:
                hist['indexer_key_hits'] += 1
            what = 'non-yaqlized host object reached: %s  [%s, canary as %s in parameter %r (%s) of %s]  access log %r' % (
                info.get('expr'), case['form'], case['shape'], info.get('param'), pt, case['payload'], log[:6])
            for key in (keys or ['host-access:%s' % case['fn']]):
                # one report per signature: the known findings recur in every Lambda slot and must not
                # use up the failure list
                if key not in reported:
                    reported.add(key)
                    res.fail('oracle', key, what, dict(case, log=[list(e) for e in log[:6]]))
        k3_call = bool(log) and (k3_signature(log, case, info) or [''])[-1] == 'callable-host-invoked-via-lambda-param'
        if (SECRET in out.replace(SECRET + '-call', '') or (SECRET in out and not k3_call)) \
                and 'secret-leak:%s' % case['fn'] not in reported:
            reported.add('secret-leak:%s' % case['fn'])
            res.fail('oracle', 'secret-leak:%s' % case['fn'],
                     'secret of a non-yaqlized host object in the outcome of %s: %s' % (info.get('expr'), out[:200]),
                     dict(case, outcome=out[:200]))
    for cls in ('open', 'converted', 'closed', 'yaqlized'):
        ks = [k for k in slots if k[2] == cls]
        hist['slots_%s' % cls] = len(ks)
        hist['slots_%s_got_past_overload_resolution' % cls] = len([k for k in ks if slots[k]])
    if not only:
        for text in TEXT_FORMS:
            log, out, exc = sw.run_text(text)
            hist['text_forms'] += 1
            hist['evaluations'] += 1
            if exc is not None:
                hist['exceptions'][exc] = hist['exceptions'].get(exc, 0) + 1
            res.case('text:' + text, nontrivial=True, sample=dict(text=text, outcome=out[:80]) if hist['text_forms'] <= 2 else None)
            res.traces += 1
            case = dict(part='A-text', text=text)
            if log:
                key = 'host-access-text'
                if text == '$y[$c]' and log == [('getattr', 'startswith')]:
                    key = 'indexer-key-startswith-probe'
                res.fail('oracle', key, 'non-yaqlized host object reached by %s: access log %r' % (text, log[:6]),
                         dict(case, log=[list(e) for e in log[:6]]))
            if SECRET in out:
                res.fail('oracle', 'secret-leak-text', 'secret in the outcome of %s: %s' % (text, out[:200]), case)
    return hist


# ------------------------------------------------------------------ part B: yaqlization settings

PLOG = []
CLOG = []


def val(name):
    return 'VAL<%s>' % name


class Child(object):
    def __getattribute__(self, name):
        if name not in ('__class__', '__yaqlization__'):
            CLOG.append(('getattr', name))
        return object.__getattribute__(self, name)


Child.secret = val('child.secret')
Child._hidden = val('child._hidden')


def make_probe_class():
    class Probe(object):
        def __init__(self):
            object.__setattr__(self, 'child', Child())

        def __getattribute__(self, name):
            if name not in ('__class__', '__yaqlization__'):
                PLOG.append(('getattr', name))
            return object.__getattribute__(self, name)

        def __getitem__(self, key):
            # a mapping-like host object: only some keys exist (an indexer that fell back to attributes
            # for the missing ones would show up in the log)
            PLOG.append(('getitem', key))
            if key not in ITEM_KEYS:
                raise KeyError(key)
            return val('item:%s' % (key,))

        def meth(self, *args, **kwargs):
            PLOG.append(('call', 'meth', sorted(kwargs)))
            return val('meth')

        def m_bar(self, *args, **kwargs):
            PLOG.append(('call', 'm_bar', sorted(kwargs)))
            return val('m_bar')

        def _m(self, *args, **kwargs):
            PLOG.append(('call', '_m', sorted(kwargs)))
            return val('_m')

        def __dm__(self, *args, **kwargs):
            PLOG.append(('call', '__dm__', sorted(kwargs)))
            return val('__dm__')

        def getChild(self, *args, **kwargs):
            PLOG.append(('call', 'getChild', sorted(kwargs)))
            return object.__getattribute__(self, 'child')
    for n in ('pub', 'other', 'hidden', 'm_foo', '_x', '__dx__'):
        setattr(Probe, n, val(n))
    return Probe


ITEM_KEYS = {'pub', 'alias', 'hidden', 'child', '_x', 'nope', 'am', 'm_foo', '__dx__'}
METHODS = {'meth', 'm_bar', '_m', '__dm__', 'getChild'}
MEMBERS = {'pub', 'other', 'hidden', 'm_foo', '_x', '__dx__', 'child'} | METHODS
NAMES = ['pub', 'other', 'hidden', 'alias', 'am', 'a1', 'meth', 'm_foo', 'm_bar', '_x', '_m', '__dx__', '__dm__',
         '__class__', '__dict__', '__init__', '__getattribute__', '_', 'child', 'getChild', 'nope', 'startswith', 'm_']

PREDS = [
    ('startswith m_', lambda t: t.startswith('m_')),
    ('len > 4', lambda t: len(t) > 4),
    ('contains e', lambda t: 'e' in t),
    ('startswith _ (truthy int)', lambda t: 1 if t.startswith('_') else 0),
    ('always', lambda t: True),
    ('never', lambda t: False),
]
RX_FAMILY = [
    dict(k='rx', start=True, end=False, atoms=['m', '_']),
    dict(k='rx', start=False, end=True, atoms=['o', 't', 'h', 'e', 'r']),
    dict(k='rx', start=False, end=False, atoms=['e', None, 'h']),
    dict(k='rx', start=True, end=True, atoms=['p', 'u', 'b']),
    dict(k='rx', start=False, end=False, atoms=['i']),
    dict(k='rx', start=False, end=False, atoms=[]),
    dict(k='rx', start=True, end=True, atoms=[None, None, None, None]),
]
RX_RAW = ['^m_*', '[a-h]+$', '^(pub|meth)$', '(?i)HIDDEN', '^[^_]*$', 'a|e']
STR_ENTRIES = ['pub', 'hidden', 'meth', 'm_foo', '_x', 'alias', 'getChild', 'child', 'nope', '__dx__', 'am', 'other',
               'm_', 'a1', 'm_bar', 'hid', 'the', 'pubs', 'a']
# several plain names in one list: unrelated ones, and names that are substrings / prefixes / suffixes of each other
MULTI_NAMES = [['pub', 'hidden'], ['pub', 'pubs'], ['m_', 'm_foo'], ['child', 'getChild'], ['meth', 'other', 'pub'],
               ['hidden', 'hid', 'den'], ['alias', 'am', 'a1'], ['other', 'the', 'her'], ['m_foo', 'm_bar', 'm_', 'meth'],
               ['a', 'am', 'alias', 'a1'], ['getChild', 'child', 'hidden', 'pub', 'meth']]
REMAPS = [
    [],
    [['alias', dict(n='hidden', tuple=False)]],
    [['alias', dict(n='hidden', tuple=False)], ['am', dict(n='meth', tuple=True, argmap=[['a', 'b']])]],
    [['alias', dict(n='_x', tuple=False)], ['a1', dict(n='m_bar', tuple=True, argmap=None)]],
    [['pub', dict(n='other', tuple=False)], ['meth', dict(n='m_bar', tuple=False)]],
    [['alias', dict(n='getChild', tuple=True, argmap=[])], ['nope', dict(n='child', tuple=False)]],
]


def rx_source(e):
    return ('^' if e['start'] else '') + ''.join('.' if a is None else re.escape(a) for a in e['atoms']) + \
        ('$' if e['end'] else '')


def py_entry(e):
    if e['k'] == 'str':
        return e['s']
    if e['k'] == 'rx':
        return re.compile(rx_source(e))
    if e['k'] == 'rxraw':
        return re.compile(e['src'])
    return PREDS[e['i']][1]


def model_entry(e, names=None):
    """regexes of the modelled family are sent as they are; predicates and other regexes as the
    table of probe names they accept"""
    names = NAMES if names is None else names
    if e['k'] in ('str', 'rx'):
        return e
    pe = py_entry(e)
    if e['k'] == 'rxraw':
        return dict(k='table', acc=[n for n in names if pe.search(n) is not None])
    return dict(k='table', acc=[n for n in names if pe(n)])


# ---- near-miss member names -------------------------------------------------------------------------------------------
# A plain-string entry grants / denies EXACTLY that name.  Any way of storing or looking up the listed names other than
# string equality (one alternation regex, prefix tries, substring tests, case folding, sorted search ..) goes wrong on
# names that are not listed but share text with a listed one.  So every settings object is also crossed with probe names
# derived from ITS OWN plain-string entries (whitelist, blacklist, remapping targets - those are blacklisted as strings):

NEAR_CLASSES = ('extends-end', 'extends-start', 'contains', 'proper-prefix', 'proper-suffix', 'joined', 'case')
_IDENT = re.compile(r'^[^\W\d]\w*$')
NEAR_CAP = 16


def listed_names(s):
    out = []
    for e in s['whitelist'] + s['blacklist']:
        if e['k'] == 'str' and e['s'] not in out:
            out.append(e['s'])
    for _, t in s['remap']:
        if t['n'] not in out:
            out.append(t['n'])
    return out


def near_misses(listed, taken=()):
    """-> [(probe name, class)]: names that are not listed (and not in `taken`) but extend a listed name at the end / at
    the start, contain it, are a proper prefix / suffix of it, join two listed names, or differ from it by case only;
    round-robin over the listed names so that a cap keeps every listed name and every class represented"""
    per = []
    for i, L in enumerate(listed):
        c = [(L + 'x', 'extends-end'), ('x' + L, 'extends-start'), ('re' + L + '_t', 'contains'),
             (L[:-1], 'proper-prefix'), (L[1:], 'proper-suffix'), (L + '_secret', 'extends-end'),
             ('for' + L, 'extends-start'), (L.swapcase(), 'case')]
        k = (3 * i) % len(c)            # another class first for each listed name: a cap keeps every class represented
        per.append(c[k:] + c[:k])
    pairs = [(a, b) for i, a in enumerate(listed) for b in listed[i + 1:]]
    for j, (a, b) in enumerate(pairs[:3]):
        per.append([(a + b, 'joined'), (b + a, 'joined')][::1 if j % 2 == 0 else -1])
    out, seen = [], set(listed) | set(taken)
    for k in range(max([len(c) for c in per] + [0])):
        for c in per:
            if k < len(c):
                n, cls = c[k]
                if n not in seen and _IDENT.match(n) and not n.startswith('_'):
                    seen.add(n)
                    out.append((n, cls))
    return out[:NEAR_CAP]


def probe_names(s):
    """-> (names, {name: near-miss class}) the settings are crossed with"""
    near = near_misses(listed_names(s), NAMES)
    return NAMES + [n for n, _ in near], dict(near)


def py_remap(remap):
    out = {}
    for k, t in remap:
        if not t['tuple']:
            out[k] = t['n']
        elif t.get('argmap') is None:
            out[k] = (t['n'],)
        else:
            out[k] = (t['n'], dict(t['argmap']))
    return out


def gen_entry(rng):
    r = rng.random()
    if r < 0.4:
        return dict(k='str', s=rng.choice(STR_ENTRIES))
    if r < 0.65:
        return dict(rng.choice(RX_FAMILY))
    if r < 0.8:
        return dict(k='rxraw', src=rng.choice(RX_RAW))
    return dict(k='pred', i=rng.randrange(len(PREDS)))


def gen_settings(rng, idx):
    sw = idx % 8
    s = dict(attrs=bool(sw & 1), methods=bool(sw & 2), indexer=bool(sw & 4), auto=(idx // 8) % 2 == 1,
             whitelist=[], blacklist=[], remap=REMAPS[(idx // 16) % len(REMAPS)], byclass=(idx // 3) % 2 == 1)
    if idx >= 16 and rng.random() < 0.8:
        s['attrs'], s['methods'], s['indexer'] = (rng.random() < 0.85 for _ in range(3))
    mode = (idx // 2) % 5

    def entries():
        if rng.random() < 0.4:          # plain names only, at least two
            if rng.random() < 0.5:
                names = rng.choice(MULTI_NAMES)
            else:
                names = rng.sample(STR_ENTRIES, rng.choice([2, 2, 3, 4]))
            names = list(names)
            rng.shuffle(names)
            return [dict(k='str', s=x) for x in names]
        return [gen_entry(rng) for _ in range(rng.choice([1, 1, 2, 3]))]
    if mode in (1, 3):
        s['whitelist'] = entries()
    if mode in (2, 3, 4):
        s['blacklist'] = entries()
    return s


def systematic_settings():
    """every entry kind alone as whitelist and as blacklist, every remapping, every switch combination"""
    out = []
    for sw in range(8):
        out.append(dict(attrs=bool(sw & 1), methods=bool(sw & 2), indexer=bool(sw & 4), auto=False,
                        whitelist=[], blacklist=[], remap=[], byclass=False))
    entries = [dict(k='str', s=s) for s in STR_ENTRIES[:6]] + RX_FAMILY + \
        [dict(k='rxraw', src=s) for s in RX_RAW] + [dict(k='pred', i=i) for i in range(len(PREDS))]
    for i, e in enumerate(entries):
        for side in ('whitelist', 'blacklist'):
            s = dict(attrs=True, methods=True, indexer=True, auto=False, whitelist=[], blacklist=[],
                     remap=REMAPS[i % len(REMAPS)], byclass=(i % 2 == 1))
            s[side] = [e]
            out.append(s)
    for i, names in enumerate(MULTI_NAMES):
        for side in ('whitelist', 'blacklist'):
            for order in (names, sorted(names), sorted(names, reverse=True)):
                s = dict(attrs=True, methods=True, indexer=True, auto=False, whitelist=[], blacklist=[],
                         remap=REMAPS[i % 3] if order is names else [], byclass=(i % 2 == 1))
                s[side] = [dict(k='str', s=x) for x in order]
                if s not in out:
                    out.append(s)
    for r in REMAPS:
        for auto in (False, True):
            out.append(dict(attrs=True, methods=True, indexer=True, auto=auto, whitelist=[], blacklist=[],
                            remap=r, byclass=False))
            out.append(dict(attrs=True, methods=True, indexer=True, auto=auto,
                            whitelist=[dict(k='str', s='hidden'), dict(k='str', s='alias'), dict(k='str', s='child'),
                                       dict(k='str', s='getChild')],
                            blacklist=[dict(k='str', s='alias')], remap=r, byclass=True))
    return out


# Objects yaqlized one by one (settings on the INSTANCE) are all instances of one shared probe class, as in a
# host that yaqlizes the objects of its own classes with per-object settings: the decision for one object must
# not depend on what was granted to another object of the same class before.  Class-level settings get a fresh
# class each (the class is the settings holder).
SHARED = dict(cls=None, seen=[])


def shared_class(fresh=False):
    if fresh or SHARED['cls'] is None:
        SHARED['cls'] = make_probe_class()
    return SHARED['cls']


def install(s):
    """a fresh probe object yaqlized with the settings (on the instance or on its class)"""
    per_instance = s.get('yaqlized', True) is not False and not s['byclass']
    cls = shared_class() if per_instance else make_probe_class()
    kw = dict(yaqlize_attributes=s['attrs'], yaqlize_methods=s['methods'], yaqlize_indexer=s['indexer'],
              auto_yaqlize_result=s['auto'],
              whitelist=[py_entry(e) for e in s['whitelist']] or None,
              blacklist=[py_entry(e) for e in s['blacklist']] or None,
              attribute_remapping=py_remap(s['remap']) or None)
    if s.get('yaqlized', True) is False:
        return cls()
    if s['byclass']:
        yaqlization.yaqlize(cls, **kw)
        return cls()
    obj = cls()
    yaqlization.yaqlize(obj, **kw)
    return obj


# the statement, transcribed -------------------------------------------------

def ref_matches(name, entry):
    if isinstance(entry, str):
        return name == entry
    if hasattr(entry, 'search'):
        return entry.search(name) is not None
    return bool(entry(name))


def ref_allowed(s, name):
    if name.startswith('_'):
        return False
    wl = [py_entry(e) for e in s['whitelist']]
    bl = [py_entry(e) for e in s['blacklist']] + [t['n'] for _, t in s['remap']]
    if wl:
        return any(ref_matches(name, e) for e in wl)
    return not any(ref_matches(name, e) for e in bl)


def ref_target(s, form, name):
    if form == 'index':
        return name
    for k, t in s['remap']:
        if k == name:
            return t['n']
    return name


SWITCH = dict(attr='attrs', method='methods', index='indexer')
ENGINE = None
CTX = None


def build_expr(form, name, with_child=False):
    """the AST the parser builds for $o.name / $o.name(a => 1) / $o['name'] (built directly so that
    names starting with `__` are crossed as well; the lexer guard is checked separately)"""
    o = ex.GetContextValue(ex.Constant('$o'))
    if form == 'attr':
        e = ex.BinaryOperator('.', o, ex.KeywordConstant(name), None)
        text = '$o.%s' % name
    elif form == 'method':
        e = ex.BinaryOperator('.', o, ex.Function(name, ex.MappingRuleExpression(
            ex.KeywordConstant('a'), ex.Constant(1))), None)
        text = '$o.%s(a => 1)' % name
    else:
        e = ex.IndexExpression(o, ex.Constant(name))
        text = "$o['%s']" % name
    if with_child:
        e = ex.BinaryOperator('.', e, ex.KeywordConstant('secret'), None)
        text += '.secret'
    return e, text


def observe(s, form, name, with_child=False, text_only=False):
    """`text_only`: the expression is parsed from its text only (names that can be written; used for the derived
    near-miss names - the AST-vs-text comparison is made on the fixed names)"""
    global ENGINE, CTX
    if ENGINE is None:
        ENGINE = yaql.YaqlFactory().create()
        CTX = yaql.create_context()
    obj = install(s)
    ctx = CTX.create_child_context()
    ctx['o'] = obj
    e, text = build_expr(form, name, with_child)
    del PLOG[:]
    del CLOG[:]
    try:
        r = (ENGINE(text) if text_only else ex.Statement(e, ENGINE)).evaluate(context=ctx)
        out, exc = repr(r), None
    except Exception as x:      # noqa
        out, exc = '%s: %s' % (type(x).__name__, x), type(x).__name__
    if text_only:
        return dict(log=list(PLOG), clog=list(CLOG), out=out, exc=exc, text=text)
    # the textual form must behave identically whenever it can be written
    if not name.startswith('__') or form != 'attr':
        obj2 = install(s)
        ctx2 = CTX.create_child_context()
        ctx2['o'] = obj2
        plog, clog = list(PLOG), list(CLOG)
        del PLOG[:]
        del CLOG[:]
        try:
            r2 = ENGINE(text).evaluate(context=ctx2)
            out2, exc2 = repr(r2), None
        except Exception as x:      # noqa
            out2, exc2 = '%s: %s' % (type(x).__name__, x), type(x).__name__
        same = (plog == list(PLOG) and clog == list(CLOG) and exc == exc2)
        del PLOG[:]
        PLOG.extend(plog)
        del CLOG[:]
        CLOG.extend(clog)
        if not same:
            return dict(log=plog, clog=clog, out=out, exc=exc, text=text, text_differs=(exc2, out2[:80]))
    return dict(log=list(PLOG), clog=list(CLOG), out=out, exc=exc, text=text)


DENY_EXC = dict(attr='AttributeError', method='AttributeError', index='KeyError')
NOT_YAQLIZED_EXC = {'NoFunctionRegisteredException', 'NoMethodRegisteredException', 'NoMatchingFunctionException',
                    'NoMatchingMethodException'}


def expected_from_model(m, form, with_child, child_model):
    """(log, clog, exception class set or None=any outcome of the host member itself)"""
    if 'err' in m:
        err = m['err']
        excs = NOT_YAQLIZED_EXC if err == 'NotYaqlized' else {err}
        return [], [], excs
    member = m['m']
    if m['ok'] == 'getitem':
        log, result_is_child = [('getitem', member)], False
    elif m['ok'] == 'getattr':
        log, result_is_child = [('getattr', member)], member == 'child'
    elif m['ok'] == 'attrThenRaise':
        # op_dot inserts the renamed keyword into the dict it iterates: RuntimeError before the call
        return [('getattr', member)], [], ({'RuntimeError'} if member in MEMBERS else {'AttributeError'})
    else:
        log = [('getattr', member)]
        if member in METHODS:
            kws = sorted(dict(m.get('am') or []).get(k, k) for k in ['a'])
            log.append(('call', member, kws))
        result_is_child = member == 'getChild'
    if not with_child:
        return log, [], None
    if m['ok'] == 'call' and member not in METHODS or m['ok'] != 'getitem' and member not in MEMBERS:
        return log, [], None        # the host raised before a result existed
    if result_is_child and child_model is not None and 'ok' in child_model:
        return log, [('getattr', child_model['m'])], None
    return log, [], None


def history_for(s, form, name, with_child, fkey):
    """None when the failure shows on a fresh class too; else earlier settings s0 such that asking an object with s0
    and then one with s (both of one fresh class) reproduces it ({} when no such pair is found)"""
    keep = SHARED['cls']
    try:
        def fails_after(prior):
            shared_class(fresh=True)
            for p0 in prior:
                observe(p0, form, name, with_child)
            r2 = common.Result()
            check_settings(s, None, r2, dict(forms={}, outcomes={}, samples=9), (name, form, with_child))
            return any(g.key == fkey for g in r2.failures)
        if fails_after([]):
            return None
        for s0 in reversed(SHARED['seen'][-400:]):
            if s0 is not s and fails_after([s0]):
                return s0
        return {}
    finally:
        SHARED['cls'] = keep


def check_settings(s, drv, res, hist, replay_filter=None):
    """cross one settings object with every name x form; returns number of evaluations"""
    n = 0
    model = None
    names, near = probe_names(s)
    if drv is not None:
        req = dict(yaqlized=s.get('yaqlized', True), attrs=s['attrs'], methods=s['methods'], indexer=s['indexer'],
                   auto=s['auto'], whitelist=[model_entry(e, names) for e in s['whitelist']],
                   blacklist=[model_entry(e, names) for e in s['blacklist']], remap=s['remap'], names=names,
                   kws=['a'])
        rep = drv.ask(dict(p='C07', cases=[req]))
        model = rep['cases'][0]['rows']
        child_model = rep['cases'][0]['child']
    else:
        child_model = None
    decisions = {}
    for ni, name in enumerate(names):
        for form in ('attr', 'method', 'index'):
            for with_child in ((False, True) if name in ('child', 'getChild', 'alias', 'nope', 'pub') else (False,)):
                if replay_filter and (name, form, with_child) != replay_filter:
                    continue
                o = observe(s, form, name, with_child, text_only=name in near)
                n += 1
                if name in near and 'near_miss' in hist:
                    nk = '%s (%s)' % (near[name], 'whitelist' if s['whitelist'] else 'blacklist')
                    hist['near_miss'][nk] = hist['near_miss'].get(nk, 0) + 1
                key = '%s/%s%s' % (form, 'child/' if with_child else '', 'on' if s[SWITCH[form]] else 'off')
                hist['forms'][key] = hist['forms'].get(key, 0) + 1
                hist['outcomes'][o['exc'] or 'value'] = hist['outcomes'].get(o['exc'] or 'value', 0) + 1
                case = dict(part='B', settings=s, name=name, form=form, with_child=with_child)
                reached = [e for e in o['log'] if e[0] in ('getattr', 'getitem')]
                yz = s.get('yaqlized', True)
                on = yz and s[SWITCH[form]]
                allowed = on and ref_allowed(s, name)
                sig = 'B:%s' % common.digest([s, name, form, with_child])
                res.case(sig, nontrivial=bool(s['whitelist'] or s['blacklist'] or s['remap']),
                         sample=dict(text=o['text'], log=o['log'], exc=o['exc']) if hist['samples'] < 3 else None)
                hist['samples'] += 1
                res.traces += 1
                # ---- oracle (real code alone)
                what = None
                if 'text_differs' in o:
                    what, fkey = ('parsed text %s behaves differently from its AST: %r vs %r' % (
                        o['text'], (o['exc'], o['log']), o['text_differs'])), 'text-vs-ast'
                elif name.startswith('_') and (o['log'] or o['clog']):
                    what, fkey = 'underscore name %r reached the object via %s: log %r' % (name, o['text'], o['log']), \
                        'underscore-reached'
                elif o['clog'] and not s['auto']:
                    what, fkey = ('%s: the object returned by the member was not yaqlized (auto_yaqlize_result is off) '
                                  'and was reached: %r' % (o['text'], o['clog'])), 'result-reached'
                    case['after_auto'] = True     # may depend on earlier evaluations with auto_yaqlize_result=True
                elif not allowed and (o['log'] or o['clog']):
                    what, fkey = ('%s reached the object although %s: log %r' % (
                        o['text'], 'the object is not yaqlized' if not yz else
                        'the %s switch is off' % SWITCH[form] if not on else 'the settings deny the name', o['log'])), \
                        'denied-reached'
                elif allowed and not with_child:
                    tgt = ref_target(s, form, name)
                    want = ('getitem', tgt) if form == 'index' else ('getattr', tgt)
                    tup = [t for k, t in s['remap'] if k == name and t['tuple']]
                    raises_first = bool(tup) and form != 'index' and (form == 'attr' or tup[0].get('argmap') is None)
                    if raises_first:
                        if o['log']:
                            what, fkey = '%s: malformed remapping must fail before the object is touched, log %r' % (
                                o['text'], o['log']), 'remap-tuple'
                    elif reached != [want]:
                        what, fkey = '%s is allowed by the settings and must reach exactly %r, reached %r' % (
                            o['text'], want, reached), 'allowed-not-reached'
                if what is None:
                    leaked = [m for m in re.findall(r'VAL<([^>]*)>', o['out'])]
                    tgt = ref_target(s, form, name)
                    okvals = {tgt, 'item:%s' % name, 'child.secret'} if allowed else set()
                    bad = [m for m in leaked if m not in okvals]
                    if bad:
                        what, fkey = '%s: value of member(s) %r in the outcome %r' % (o['text'], bad, o['out'][:120]), 'value-leak'
                if what is None and not with_child:
                    denied = o['exc'] == DENY_EXC[form] and ('Cannot access ' + name) in o['out']
                    decisions.setdefault(name, {})[form] = (denied, on)
                    if on and denied == ref_allowed(s, name):
                        what = '%s: the settings %s the name but the outcome is %s' % (
                            o['text'], 'deny' if denied is False else 'allow', o['out'][:80])
                        fkey = 'decision'
                if what is not None:
                    if s.get('yaqlized', True) is not False and not s['byclass'] and not replay_filter:
                        # does the failure need the earlier objects of the shared class?  find a two-step history
                        before = history_for(s, form, name, with_child, fkey)
                        if before is not None:
                            case['before'] = before
                            what += '   [only after another object of the same class, yaqlized with %s, was asked for the ' \
                                    'same name]' % json.dumps(before, sort_keys=True)
                    res.fail('oracle', fkey, what + '   settings %s' % json.dumps(s, sort_keys=True), case)
                    continue
                # ---- correspondence with the Lean model
                if model is not None:
                    m = model[ni][form]
                    elog, eclog, eexc = expected_from_model(m, form, with_child, child_model)
                    got = [tuple(e) for e in o['log']]
                    if got != [tuple(e) for e in elog] or [tuple(e) for e in o['clog']] != eclog or \
                            (eexc is not None and o['exc'] not in eexc):
                        res.fail('mismatch', 'model',
                                 '%s: real log %r child log %r exc %s; model %s expects log %r child log %r exc %s  settings %s' % (
                                     o['text'], o['log'], o['clog'], o['exc'], json.dumps(m), elog, eclog,
                                     sorted(eexc) if eexc else 'any', json.dumps(s, sort_keys=True)), case)
                    if model[ni]['allowed'] != ref_allowed(s, name) and yz:
                        res.fail('mismatch', 'model-allowed', 'allowed(%r): model %s, transcription %s  settings %s' % (
                            name, model[ni]['allowed'], ref_allowed(s, name), json.dumps(s, sort_keys=True)), case)
    # identical decision on the three paths (for the paths whose switch is on)
    for name, d in decisions.items():
        vals = {f: r for f, (r, on) in d.items() if on}
        if len(set(vals.values())) > 1:
            res.fail('oracle', 'paths-disagree',
                     'name %r: "Cannot access" raised per path %r with settings %s' % (
                         name, vals, json.dumps(s, sort_keys=True)),
                     dict(part='B', settings=s, name=name, form=None, with_child=False))
    return n


def shrink_settings(s, fails):
    """drop entries / remappings / switch bits while `fails(settings)` still holds"""
    s = json.loads(json.dumps(s))
    changed = True
    while changed:
        changed = False
        for side in ('whitelist', 'blacklist', 'remap'):
            for i in range(len(s[side])):
                t = json.loads(json.dumps(s))
                del t[side][i]
                if fails(t):
                    s, changed = t, True
                    break
        for flag, v in (('auto', False), ('byclass', False), ('attrs', True), ('methods', True), ('indexer', True)):
            if s[flag] != v:
                t = dict(s)
                t[flag] = v
                if fails(t):
                    s, changed = t, True
    return s


def run_settings(env, res, only=None):
    rng = common.make_rng(env['seed'], 'C07')
    drv = env['driver']
    hist = dict(settings=0, forms={}, outcomes={}, samples=0, entry_kinds={}, remaps={}, evaluations=0, near_miss={},
                plain_names_per_list={})
    if only:
        todo = [only['settings']]
    else:
        nrand = 110 if env['tier'] == 'quick' else 6000
        todo = systematic_settings() + [gen_settings(rng, i) for i in range(nrand)]
        todo.append(dict(attrs=True, methods=True, indexer=True, auto=False, whitelist=[], blacklist=[], remap=[],
                         byclass=False, yaqlized=False))
    for s in todo:
        before = len(res.failures)
        flt = (only['name'], only['form'], only.get('with_child', False)) if only and only.get('form') else None
        if only and only.get('before'):
            shared_class(fresh=True)
            observe(only['before'], only['form'], only['name'], only.get('with_child', False))
        if s.get('yaqlized', True) is not False and not s['byclass']:
            SHARED['seen'].append(s)
        hist['evaluations'] += check_settings(s, drv, res, hist, flt)
        hist['settings'] += 1
        for e in s['whitelist'] + s['blacklist']:
            hist['entry_kinds'][e['k']] = hist['entry_kinds'].get(e['k'], 0) + 1
        hist['remaps'][str(len(s['remap']))] = hist['remaps'].get(str(len(s['remap'])), 0) + 1
        for side in ('whitelist', 'blacklist'):
            k = len([e for e in s[side] if e['k'] == 'str'])
            if s[side]:
                hk = '%s: %s plain name(s)%s' % (side, k if k < 4 else '4+', '' if k == len(s[side]) else ' + other entries')
                hist['plain_names_per_list'][hk] = hist['plain_names_per_list'].get(hk, 0) + 1
        if len(res.failures) > before and not only:
            f = res.failures[before]
            if f.replay.get('form'):
                target = (f.replay['name'], f.replay['form'], f.replay.get('with_child', False))

                def fails(t, f=f, target=target):
                    r2 = common.Result()
                    h2 = dict(forms={}, outcomes={}, samples=9)
                    check_settings(t, drv, r2, h2, target)
                    return any(g.kind == f.kind and g.key == f.key for g in r2.failures)
                small = shrink_settings(s, fails)
                r2 = common.Result()
                check_settings(small, drv, r2, dict(forms={}, outcomes={}, samples=9), target)
                g = next((g for g in r2.failures if g.kind == f.kind and g.key == f.key), None)
                if g is not None:               # else: the shrunk settings do not reproduce it alone - keep the original
                    res.failures[before] = g
                del res.failures[before + 1:]
            if len(res.failures) >= 12:
                break
    return hist


def bystander(res, hist):
    """after all the auto-yaqlize settings above: an instance of the result class that never went
    through a yaqlized object is still an ordinary, unreachable host object (auto-yaqlization marks
    the returned object, not its class)"""
    eng = yaql.YaqlFactory().create()
    ctx = yaql.create_context()
    for text in ('$k.secret', '$k.secret()', "$k['secret']", '[$k].select($.secret)'):
        k = Child()
        ctx2 = ctx.create_child_context()
        ctx2['k'] = k
        del CLOG[:]
        try:
            out = repr(eng(text).evaluate(context=ctx2))
        except Exception as x:      # noqa
            out = '%s: %s' % (type(x).__name__, x)
        hist['evaluations'] += 1
        res.case('bystander:' + text)
        res.traces += 1
        if CLOG or 'VAL<' in out:
            res.fail('oracle', 'bystander-reached',
                     '%s on an instance of the result class that was never returned by a yaqlized object: log %r '
                     'outcome %s (earlier evaluations went through objects with auto_yaqlize_result=True)' % (
                         text, list(CLOG), out[:100]), dict(part='bystander', text=text))


def entry_paths(res, hist):
    """a non-yaqlized host object inside the DATA a host hands over - as the document, nested in it, as a context
    variable, as a YaqlInterface argument, with input conversion on and off - is never touched by the evaluation
    machinery itself (conversion, `$` binding, finalisation) and never leaks a member"""
    from yaql import yaql_interface
    placements = [('itself', lambda c: c, '$'), ('in a list', lambda c: [1, c], '$[1]'), ('in a dict', lambda c: {'k': c}, '$.k'),
                  ('in a tuple', lambda c: (c, 2), '$[0]'), ('nested', lambda c: {'k': [{'j': c}]}, '$.k[0].j'),
                  ('dict value next to data', lambda c: {'a': [1, 2], 'c': c}, '$.c')]
    exprs = ['{P}', '[{P}]', '{{r => {P}}}', '{P} = 1', 'list({P}, 1)', '[{P}].select($)', '[{P}].len()', 'isString({P})',
             '$.len()', '$', 'dict(a => {P}).a', '{P} in [1]', 'bool({P})', 'coalesce(null, {P})', 'let(x => {P}) -> $x',
             # member access / method call / indexing ON the host object, every spelling
             '{P}.secret', '{P}.secret()', "{P}['secret']", '{P}?.secret', '[{P}].select($.secret)', '[{P}].secret',
             '{P}.child.secret', '{P}.name', '{P}.len()']
    # which library constructor made the context (and the engine that goes with it): the containment does not depend on it.
    # Delegate mode is left out (calling host callables is its documented purpose, see ASSUMPTIONS).
    from yaql import legacy as yaql_legacy
    from yaql.language import conventions
    flavours = [
        ('default', yaql.create_context, yaql.YaqlFactory, None),
        ('python-convention', lambda **kw: yaql.create_context(convention=conventions.PythonConvention(), **kw),
         yaql.YaqlFactory, ('evaluate(data)', 'context variable', 'create_context(data)')),
        ('legacy', yaql_legacy.create_context, yaql_legacy.YaqlFactory, ('evaluate(data)', 'context variable',
                                                                          'create_context(data)')),
        ('default after legacy', yaql.create_context, yaql.YaqlFactory, ('evaluate(data)',)),
    ]
    n = 0
    for flavour, make_context, make_factory, only in flavours:
      for conv_in in (True, False):
        eng = make_factory().create(options={'yaql.convertInputData': conv_in})
        yaql_create_context, hist_tag = make_context, 'entry-context:' + flavour
        for pname, place, path in placements:
            for tmpl in exprs:
                expr = tmpl.replace('{P}', path)
                for entry in ('evaluate(data)', 'create_context(data)', 'context variable', 'YaqlInterface positional',
                              'YaqlInterface keyword'):
                    if only is not None and entry not in only:
                        continue
                    hist[hist_tag] = hist.get(hist_tag, 0) + 1
                    c = Canary('entry')
                    data = place(c)
                    del LOG[:]
                    try:
                        if entry == 'evaluate(data)':
                            out = eng(expr).evaluate(data=data, context=yaql_create_context())
                        elif entry == 'create_context(data)':
                            out = eng(expr).evaluate(context=yaql_create_context(data=data))
                        elif entry == 'context variable':
                            ctx = yaql_create_context()
                            ctx['$v'] = data
                            out = eng(expr.replace('$', '$v')).evaluate(context=ctx)
                        elif entry == 'YaqlInterface positional':
                            yi = yaql_interface.YaqlInterface(yaql_create_context(), eng)
                            out = yi(expr.replace('$', '$1'), data)
                        else:
                            yi = yaql_interface.YaqlInterface(yaql_create_context(), eng)
                            out = yi(expr.replace('$', '$v'), v=data)
                        out = repr(out)
                    except Exception as x:      # noqa
                        out = '%s: %s' % (type(x).__name__, x)
                    n += 1
                    hist['entry:' + entry] = hist.get('entry:' + entry, 0) + 1
                    res.case('entry:%s:%s:%s:%s:%s' % (flavour, entry, pname, conv_in, expr))
                    log = list(LOG)
                    if log or SECRET in out:
                        res.fail('oracle', 'entry-reached',
                                 'a non-yaqlized host object handed over %s through %s (yaql.convertInputData=%s) was '
                                 'reached while evaluating %s in a %s context: access log %r, outcome %s' % (
                                     pname, entry, conv_in, expr, flavour, log[:6], out[:120]),
                                 dict(part='entry', entry=entry, placement=pname, conv_in=conv_in, expr=expr, flavour=flavour))
                        if sum(1 for f in res.failures if f.key == 'entry-reached') >= 3:
                            return n
    return n


def churn(res, hist):
    """objects come and go: what was granted to an object that no longer exists must not pass to an unrelated object
    that happens to live where it lived (objects without a __dict__ - __slots__ classes - included, explicitly yaqlized
    or handed out by an auto-yaqlizing parent)"""
    import gc
    from yaql import yaqlization

    class Slotted(object):
        __slots__ = ('token', 'n')

        def __init__(self, n):
            self.token = SECRET + '-slot%d' % n
            self.n = n

        def get(self):
            return self.token

    class Plain(object):
        def __init__(self, n):
            self.token = SECRET + '-plain%d' % n

    class Parent(object):
        def __init__(self, cls):
            self.cls = cls

        def make(self, n):
            return self.cls(n)
    eng = yaql.YaqlFactory().create()
    n = 0
    for cls in (Slotted, Plain):
        parent = Parent(cls)
        yaqlization.yaqlize(parent, auto_yaqlize_result=True)
        for rnd in range(6):
            # a generation of objects that ARE granted (or for which granting fails), then dies
            for i in range(40):
                o = cls(i)
                try:
                    yaqlization.yaqlize(o)
                except Exception:       # noqa - an object that cannot carry settings
                    pass
                ctx = yaql.create_context()
                ctx['p'] = parent
                try:
                    eng('$p.make(%d).token' % i).evaluate(context=ctx)
                except Exception:       # noqa
                    pass
                del o, ctx
            gc.collect()
            # a generation of objects that were NEVER granted anything
            fresh = [cls(1000 + i) for i in range(40)]
            for c in fresh:
                for text in ('$c.token', '$c.get()', "$c['token']", '[$c].select($.token)'):
                    ctx = yaql.create_context()
                    ctx['c'] = c
                    try:
                        out = repr(eng(text).evaluate(context=ctx))
                    except Exception as x:      # noqa
                        out = '%s' % type(x).__name__
                    n += 1
                    if SECRET in out:
                        res.fail('oracle', 'churn-reached',
                                 '%s on a never-yaqlized %s object created after yaqlized objects of its class were freed '
                                 'returned %s' % (text, 'slotted' if cls is Slotted else 'plain', out[:80]),
                                 dict(part='churn', text=text))
                        hist['churn'] = n
                        return n
            del fresh
            gc.collect()
    res.case('churn', True)
    hist['churn'] = n
    return n


def lexer_guard(res, hist):
    """a keyword token cannot start with `__` (dynamic side of C07Gen.keyword_guard): `$o.__dx__` does
    not parse, while `$o._x` parses and is refused by the underscore rule"""
    eng = yaql.YaqlFactory().create()
    for text in ('$o.__dx__', '$o.__class__', '$o?.__dict__', '$o.__dx__.x', '[$o].select($.__dx__)'):
        hist['evaluations'] += 1
        res.case('lex:' + text)
        res.traces += 1
        try:
            eng(text)
            res.fail('oracle', 'dunder-keyword-parses', 'the expression %r parses: a keyword may start with __' % text,
                     dict(part='lexer', text=text))
        except (yexc.YaqlLexicalException, yexc.YaqlGrammarException):
            pass


def generate():
    info = pyfacts.run(['HostFacts'])['HostFacts']
    src = srcobl.generate('C07')        # re-translate _match_name_to_entry / _validate_name / _remap_name
    return dict(_broken=src.get('_broken', []), src=src.get('src'), hostfacts_rows=info['rows'], hostfacts_type_rows=info['type_rows'],
                function_definitions=info['function_definitions'], keyword_regex=info['keyword_regex'],
                open_rows=info['open_rows'], open_touching=info['open_touching'],
                yaqlized_rows=info['yaqlized_rows'])


def run(env, res):
    res.rule = ('part A: one case per (FunctionDefinition of the live registry, parameter slot, other-argument variant, '
                'canary as itself / in a list / in a dict, direct AST / call(name,args,kwargs), positional / keyword) plus '
                'fixed text forms; all non-trivial (a host object is in the data).  part B: one case per (settings, '
                'member name, access form[, .secret of the result]); member names = the members of the probe class + names '
                'derived from the settings\' own plain-name entries (extending one at either end, containing one, proper '
                'prefix / suffix, two joined, case variant); lists of one, two, three and more plain names, some substrings '
                'of each other; non-trivial = the settings have a whitelist, blacklist or remapping')
    if env['replay']:
        rp = json.load(open(env['replay']))['case']
        if 'src_target' in (rp or {}):
            srcobl.differential(env, res, 'C07')
            return res
        if rp.get('part') == 'B':
            if rp.get('after_auto'):
                warm = common.Result()
                for s0 in systematic_settings():
                    if s0['auto']:
                        check_settings(s0, None, warm, dict(forms={}, outcomes={}, samples=9))
            res.extra['settings_histogram'] = run_settings(env, res, only=rp)
        elif rp.get('part') == 'A':
            res.extra['sweep_histogram'] = run_sweep(env, res, only=rp)
        elif rp.get('part') == 'churn':
            churn(res, dict(evaluations=0))
        elif rp.get('part') == 'entry':
            entry_paths(res, dict(evaluations=0))
        elif rp.get('part') == 'bystander':
            h = run_settings(env, res)
            bystander(res, h)
        else:
            res.extra['sweep_histogram'] = run_sweep(env, res)
        return res
    srcobl.differential(env, res, 'C07')      # _match_name_to_entry / _validate_name / _remap_name vs translation vs model
    hb = run_settings(env, res)
    bystander(res, hb)
    lexer_guard(res, hb)
    hb['evaluations'] += entry_paths(res, hb)
    hb['evaluations'] += churn(res, hb)
    res.extra['settings_histogram'] = hb
    ha = run_sweep(env, res)
    res.extra['sweep_histogram'] = ha
    if ha['k3_hits'] == 0:
        res.extra['note_k3'] = 'the known finding K3 did not reproduce in this run (fixed?)'
    return res


LEVEL_TEXT = ('Lean 4 theorems over an executable model of yaqlized.py / yaqlization.py with abstract whitelist/blacklist '
              'entries: underscore names are refused on all three access paths whatever the settings; whitelist / '
              'blacklist decide exactly as stated; remapping targets are blacklisted; the three paths decide alike '
              '(attribute and method access reach the remapped member, the indexer does not remap - as the code is); an '
              'object without settings or with the switch off is refused by the type check; the gate: whichever overload '
              'is selected, an opaque host object bound to a parameter with a host-touching use passed Yaqlized.check. '
              'Kernel-decided theorems over tables regenerated from the live registry on every run (all 284 '
              'FunctionDefinitions, every parameter, plus every check/convert method, checker and validator of the '
              'type objects): every getattr/subscript/call/format/escape use on a parameter that admits an opaque host '
              'object is one of three listed rows (two of them the known finding K3, one the indexer-key finding); no format templates; the keyword rule starts with (?!__). Tied to the '
              'code by a canary sweep of the whole registry and by crossing yaqlization settings with every member '
              'name of a probe class on the real code and on the compiled model.')
LEVEL_NOTE = ('partial: the soundness of the AST scan that produces the use facts (alias, guard and callee following, '
              'the list of callees that do no named member access) is trusted, not proved; Python\'s implicit '
              'special-method calls on host objects (__eq__/__hash__/__str__/__repr__/__bool__/__iter__/__sizeof__) are '
              'outside the statement as the canary observes it; delegate mode is not swept. Known findings (the code '
              'is left as it is, see notes/C07.md): a callable host object that reaches a Lambda-typed parameter '
              'through call(name, args, kwargs) is probed with hasattr(value, "__unwrapped__") and CALLED with '
              'expression-chosen arguments (K3); the untyped key of yaqlized indexation has key.startswith("_") '
              'called on it, so $yaqlized[$hostObject] reads an attribute of a non-yaqlized object.')
TECHNIQUE = ('Lean 4 proof over a hand-written model + kernel-decided theorems over tables generated from the live '
             'registry + canary sweep / differential run of yaqlization settings')
DESIGN_REF = 'DESIGN.md section 5, C07'
