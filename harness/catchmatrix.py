"""Rewrites the catch matrix in DESIGN.md (between the CATCH-MATRIX markers) from seeded/*/meta.json."""
import json
import os
import re

ROOT = os.path.dirname(os.path.dirname(os.path.abspath(__file__)))


def main():
    rows = []
    for name in sorted(os.listdir(os.path.join(ROOT, 'seeded'))):
        mp = os.path.join(ROOT, 'seeded', name, 'meta.json')
        if name.startswith('_') or not os.path.exists(mp):
            continue
        m = json.load(open(mp))
        checks = m.get('checks') or {}
        caught = []
        for c, v in sorted(checks.items()):
            if v.get('caught'):
                how = 'failing input' if v.get('verdict') and 'no-failing-input-found' not in v['verdict'][0] else 'broken obligation only'
                caught.append('%s (%s)' % (c, how))
            else:
                caught.append('%s MISSED' % c)
        title = (m.get('title') or m.get('what_it_breaks') or '')[:110].replace('|', '/').replace('\n', ' ')
        origin = 'reverse of fix' if name.startswith('revert-') else 'independent agent'
        rows.append('| `%s` | %s | %s | %s | %s |' % (name, m.get('property'), origin, title, '; '.join(caught) or 'not run yet'))
    table = ['| seeded change | property | origin | what | caught by |', '|---|---|---|---|---|'] + rows
    p = os.path.join(ROOT, 'DESIGN.md')
    s = open(p).read()
    block = '<!-- CATCH-MATRIX-BEGIN -->\n' + '\n'.join(table) + '\n<!-- CATCH-MATRIX-END -->'
    if '<!-- CATCH-MATRIX-BEGIN -->' in s:
        s = re.sub(r'<!-- CATCH-MATRIX-BEGIN -->.*?<!-- CATCH-MATRIX-END -->', lambda m: block, s, flags=re.S)
    else:
        s = s.replace("(filled in as the seeded changes are confirmed; see `/verif/seeded/`)", block)
    # the list of fix commits / known findings, from known_findings.json
    kf = json.load(open(os.path.join(ROOT, 'known_findings.json')))['findings']
    frows = ['| property | key | status | /repo commit | what |', '|---|---|---|---|---|']
    for e in kf:
        what = re.sub(r'^(fixed|known)[^:]*: property=C\d+ (\w+ )?', '', e.get('what', ''))[:230].replace('|', '/').replace('\n', ' ')
        frows.append('| %s | `%s` | %s | %s | %s |' % (e['property'], e['key'], e['status'], e.get('commit', '-'), what))
    fblock = '<!-- FIX-TABLE-BEGIN -->\n' + '\n'.join(frows) + '\n<!-- FIX-TABLE-END -->'
    if '<!-- FIX-TABLE-BEGIN -->' in s:
        s = re.sub(r'<!-- FIX-TABLE-BEGIN -->.*?<!-- FIX-TABLE-END -->', lambda m: fblock, s, flags=re.S)
    open(p, 'w').write(s)
    print(len(rows), 'rows;', len(frows) - 2, 'findings')


if __name__ == '__main__':
    main()
