"""Type-directed generator of programs of the C04 fragment (+ renderer to yaql text, conversion of
a yaql parse tree back to the AST, nesting statistics, shrinking candidates).

AST (JSON-able, literals are raw Python values None / bool / int / str):
  ["lit", v] ["kw", name] ["var", "$x"] ["list", [e..]] ["map", [[k, v]..]] ["index", e, [a..]]
  ["un", "not"|"neg", e] ["bin", op, a, b] ["arrow", l, r] ["member", e, name]
  ["call", f, [a..], [[k, v]..]] ["method", e, f, [a..], [[k, v]..]]

Types steer the generator so that most programs evaluate without error:
  'int' 'str' 'bool' 'any' ('list', T) ('rec', ((field, T), ..))
  ('mixl', R): a HETEROGENEOUS collection - records of type R next to (nested) collections of such records, in any order
  (what `.name` on a collection has to map over: it dispatches `#operator_.` per element, and the elements are of mixed kinds)
A scope maps the variables / functions that are visible at a point to their types; besides, the
generator deliberately reads names that are bound *elsewhere* in the program but not visible here
(expected: null) - that is what exposes leaks.
"""
import re

BINOPS = {'add': '+', 'sub': '-', 'mul': '*', 'eq': '=', 'ne': '!=', 'lt': '<', 'le': '<=', 'gt': '>', 'ge': '>=',
          'and': 'and', 'or': 'or'}
OPNAMES = {v: k for k, v in BINOPS.items()}
LAMBDA_FUNCS = ('select', 'where', 'selectMany', 'orderBy', 'orderByDescending', 'takeWhile', 'skipWhile',
                'indexWhere', 'toDict', 'aggregate', 'any', 'all')
CONSTRUCTS = ('lambda', 'let', '->', 'def', 'with', 'unpack', 'select', 'where', 'dict', 'list', 'index', 'member')
NAMES = ('x', 'y', 'k', 'v')
# Names are DATA: a variable / keyword / function / key is the sequence of characters that was written, nothing else.
# These are names that a naming convention (snake_case -> camelCase, trailing underscores stripped), a case fold or a
# sloppy lexer would rewrite, next to the names they would be rewritten INTO:
ODD_NAMES = ('my_var', 'myVar', 'x1', 'x_1', 'a_', 'a', 'a__b', 'a_b', 'aB', 'ab', '_x', 'A', 'X', 'x_', 'len', 'select',
             'v_', 'k_1', 'k1', 'kV', 'k_v', 'my_var_', '_', 'myvar', 'MyVar', 'y__', '_y', 'true_', 'Null', 'let', 'it_em')
RELATED_PAIRS = (('my_var', 'myVar'), ('x1', 'x_1'), ('a_', 'a'), ('a__b', 'a_b'), ('a_b', 'aB'), ('aB', 'ab'), ('A', 'a'),
                 ('_x', 'x'), ('x_', 'x'), ('k_v', 'kV'), ('k_1', 'k1'), ('my_var_', 'my_var'), ('myVar', 'myvar'),
                 ('MyVar', 'myVar'), ('y__', 'y_'), ('_', '_1'), ('len', 'len_'), ('v', 'V'), ('it_em', 'itEm'))
# ... and the vocabulary a Python implementation uses for its OWN parameters / attributes / locals: a name written in an
# expression that travels through `**kwargs`, `setattr`, a `dict(...)` call, a format string or `locals()` of the host
# collides there with the helper's own names (`f(value => 1)` -> "got multiple values for argument 'value'")
HOST_NAMES = ('value', 'values', 'receiver', 'context', 'engine', 'self', 'cls', 'args', 'kwargs', 'func', 'function',
              'name', 'data', 'key', 'default', 'item', 'obj', 'sender', 'expr', 'expression', 'options', 'result',
              'lambda_', 'type_', 'id_', 'len_', 'list_', 'dict_', 'set_', 'str_', 'int_', 'bool_', 'None_', 'true_',
              'not_', 'in_', 'and_', 'or_',
              # (the bare words true / false / null / not / in / and / or are tokens of their own, no keyword spells them)
              'this', 'it', 'fn', 'cb', 'kw', 'param', 'parameter', 'params', 'index', 'count', 'source', 'target',
              'parent', 'child', 'limit', 'memo', 'cache', 'spec', 'method', 'operator', 'op', 'payload', 'delegate',
              'instance', 'attr', 'items', 'keys', 'get', 'type', 'id', 'iter', 'next', 'callable', 'lambda', 'None',
              'True', 'False', 'def', 'return', 'yield', 'class', 'import', 'is', 'if', 'else', 'for', 'while', 'del',
              'print', 'exec', 'eval', 'object', 'super', 'init', 'new', 'call', 'hash', 'repr', 'exception', 'error')
# function names out of the same vocabulary (not the ones the standard library registers as FUNCTIONS: calling them where
# no def() is visible is a call of the library function, which is outside the fragment)
LIBRARY_FUNCTIONS = ('len', 'list', 'dict', 'set', 'str', 'int', 'bool', 'let', 'with', 'def', 'any', 'all', 'call',
                     'lambda', 'print', 'hash', 'type', 'get', 'items', 'keys', 'values', 'index', 'count', 'limit',
                     'iter', 'next', 'is', 'new', 'super', 'object', 'repr', 'eval', 'exec', 'init', 'id', 'error')
FUNC_HOST = tuple(n for n in HOST_NAMES if n.rstrip('_') not in LIBRARY_FUNCTIONS)
# names no keyword can spell (they reach a context through unpack('..'), whose names are strings): the language reference
# says that variable names "may start with digit, any number of underscores and even be an empty string"
LEX_NAMES = ('__x', '1a', '2', '', '_', '$y', '__')
FUNC_NAMES = ('f', 'g', 'h')
# function names: equal up to trailing underscores (documented: "all trailing underscores are stripped from the names"),
# otherwise data
FUNC_ODD = ('f_', 'F', 'fF', 'f1', 'g__', 'G', 'hH', 'fg', 'gh_')
# ... and names that CamelCaseConvention would rewrite (see notes/C04.md, known finding def-name-translated)
FUNC_SNAKE = ('my_f', 'f_1', 'g_h', 'h_x_', '_f_g')
STRS = ('a', 'b', 'x', 'yz', 'n')
REC_ITEM = ('rec', (('n', 'str'), ('v', 'int'), ('tags', ('list', 'int'))))
REC_SUB = ('rec', (('a', 'int'), ('xs', ('list', 'int'))))
REC_ODD = ('rec', (('my_key', 'int'), ('myKey', 'int'), ('k_', 'str'), ('K', 'int')))
REC_HOST = ('rec', (('value', 'int'), ('self', 'str'), ('key', 'int'), ('default', 'int'), ('args', ('list', 'int')),
                    ('values', 'int'), ('kwargs', 'str')))
DOC_FIELDS = (('a', 'int'), ('b', 'int'), ('s', 'str'), ('flag', 'bool'), ('xs', ('list', 'int')),
              ('ws', ('list', 'str')), ('items', ('list', REC_ITEM)), ('sub', REC_SUB), ('opt', 'any'),
              ('unit_price', 'int'), ('unitPrice', 'int'), ('a_', 'int'), ('A', 'int'), ('odd', REC_ODD),
              ('odds', ('list', REC_ODD)), ('len', 'int'), ('value', 'int'), ('name', 'str'), ('data', ('list', 'int')),
              ('host', REC_HOST), ('hosts', ('list', REC_HOST)), ('mix', ('list', 'any')), ('context', 'any'),
              ('rows', ('mixl', REC_SUB)), ('groups', ('mixl', REC_ITEM)), ('tree', ('mixl', REC_ODD)))
# values that are EQUAL for the host language (1 == True == 1.0, 0 == False == 0.0 == -0.0, one dict key, one cache entry)
# or alike for its truth test ('' / null / [] / {} / 0) although they are different values of the language
EQUIV = ((1, True, 1.0), (0, False, 0.0), (0, False, 0.0, -0.0), (1, True, 1.0, 1), (None, '', 0, False), (2, 2.0), (1, 1.0),
         (0, 0.0), (True, 1), (False, 0))
ANY_LITS = (None, 1, 'a', True, 1.0, 0, False, 0.0, '', 1, True, None)
ANY_LEAVES = (None, 1, 'a', None, True, 1.0, 0, False, 0.0, -0.0, '', 1)
KEYWORD_RE = re.compile(r'(?!__)[^\W\d]\w*\Z')


def var_of(name):
    """the variable a binding under `name` is read back as: `$name` (a name that carries its `$` keeps it; the empty
    name is `$1`)"""
    if not name.startswith('$'):
        name = '$' + name
    return '$1' if name == '$' else name


def name_arg(name):
    """a name as an argument: a keyword where a keyword can spell it (mostly), else a string literal"""
    return ['kw', name] if is_keyword(name) else ['lit', name]


def value_lit(v):
    """the expression denoting a scalar: `-0.0` is the negation of the literal `0.0`"""
    if isinstance(v, float) and repr(v) == '-0.0':
        return ['un', 'neg', ['lit', 0.0]]
    if isinstance(v, int) and not isinstance(v, bool) and v < 0:
        return ['un', 'neg', ['lit', -v]]
    return ['lit', v]


def is_keyword(s):
    return bool(KEYWORD_RE.match(s)) and s not in RESERVED


def to_camel(s):
    """what CamelCaseConvention would make of the name (transcribed; only used to pick RELATIVES of a name)"""
    out, i = [], 0
    while i < len(s):
        if i > 0 and s[i] == '_' and i + 1 < len(s) and (s[i + 1].isalnum() or s[i + 1] == '_'):
            out.append(s[i + 1].upper())
            i += 2
        else:
            out.append(s[i])
            i += 1
    return ''.join(out)


def to_snake(s):
    return ''.join(('_' + c.lower()) if (c.isupper() and i) else c for i, c in enumerate(s))


def relatives(name):
    """other names that some normalisation would identify with `name` (and that a keyword can spell)"""
    c = [to_camel(name), to_camel(name.rstrip('_')), to_snake(name), name.rstrip('_'), name + '_', name.lower(),
         name.upper(), name.capitalize(), name.replace('_', ''), '_' + name, name.lstrip('_'), name.replace('_', '__'),
         name.replace('__', '_'), name[:1].lower() + name[1:], name + '1', name + '_1']
    for a, b in RELATED_PAIRS:
        if name == a:
            c.append(b)
        if name == b:
            c.append(a)
    out = []
    for x in c:
        if x != name and x not in out and is_keyword(x):
            out.append(x)
    return out


def is_list(t):
    return isinstance(t, tuple) and t[0] == 'list'


def is_rec(t):
    return isinstance(t, tuple) and t[0] == 'rec'


def is_mixl(t):
    return isinstance(t, tuple) and t[0] == 'mixl'


# ---------------------------------------------------------------- documents

def gen_value(rng, t, dirty):
    if t == 'int':
        return rng.choice((0, 1, 2, 3, 5, 7, -1))
    if t == 'str':
        return rng.choice(STRS)
    if t == 'bool':
        return rng.random() < 0.5
    if t == 'any':
        return rng.choice(ANY_LEAVES)
    if is_list(t):
        n = rng.choice((0, 1, 2, 2, 3, 3, 4))
        out = [gen_value(rng, t[1], dirty) for _ in range(n)]
        if dirty and out and rng.random() < 0.25:
            out[rng.randrange(len(out))] = rng.choice((None, 'q', True, 1.0, False, 0.0))
        return tuple(out)
    if is_rec(t):
        d = {}
        for f, ft in t[1]:
            if dirty and rng.random() < 0.06:
                continue
            d[f] = gen_value(rng, ft, dirty)
        return d
    if is_mixl(t):
        return gen_mixed(rng, t[1], dirty, 2)
    raise ValueError(t)


def gen_mixed(rng, rec, dirty, depth):
    """a heterogeneous collection: records next to (nested) collections of records, in any order; `dirty`: now and then a
    scalar / null element (no member of it: the projection raises when it gets there)"""
    out = []
    for _ in range(rng.choice((1, 2, 2, 3, 3, 4))):
        roll = rng.random()
        if roll < 0.5 or depth <= 0:
            out.append(gen_value(rng, rec, dirty))
        elif roll < 0.92:
            out.append(gen_mixed(rng, rec, dirty, depth - 1) if rng.random() < 0.5 else
                       tuple(gen_value(rng, rec, dirty) for _ in range(rng.choice((0, 1, 2, 2)))))
        elif dirty:
            out.append(rng.choice((None, 0, 'q')))
        else:
            out.append(gen_value(rng, rec, dirty))
    return tuple(out)


def gen_doc(rng, mixed=False):
    """(document as plain Python data with tuples for lists, its type); `mixed`: also fields holding collections of
    mixed element kinds, nested three deep (off by default: C08 multiplies every list of a document by up to 40)"""
    k = rng.randint(3, 16)
    pool = DOC_FIELDS if mixed else tuple(f for f in DOC_FIELDS if not is_mixl(f[1]))
    fields = tuple(sorted(rng.sample(pool, min(k, len(pool))), key=lambda p: DOC_FIELDS.index(p)))
    t = ('rec', fields)
    dirty = rng.random() < 0.3
    return gen_value(rng, t, dirty), t


def to_host(v):
    """the data a host would pass: lists and dicts"""
    if isinstance(v, tuple):
        return [to_host(x) for x in v]
    if isinstance(v, dict):
        return {k: to_host(x) for k, x in v.items()}
    return v


# ---------------------------------------------------------------- scopes

class Scope:
    def __init__(self, variables, funcs, lam_depth=0, fresh=()):
        self.vars = dict(variables)          # '$x' -> type   ('$1' is `$`)
        self.funcs = dict(funcs)             # name -> (param types, result type)
        self.lam_depth = lam_depth
        self.fresh = tuple(fresh)            # the names bound by the nearest enclosing constructs

    def bind(self, variables, lam=False):
        v = dict(self.vars)
        v.update(variables)
        return Scope(v, self.funcs, self.lam_depth + (1 if lam else 0), (tuple(variables) + self.fresh)[:4])

    def define(self, name, sig):
        f = dict(self.funcs)
        f[name] = sig
        return Scope(self.vars, f, self.lam_depth, ((name,) + self.fresh)[:4])


class Gen:
    def __init__(self, rng, max_depth):
        self.rng = rng
        self.max_depth = max_depth
        self.pool = set()                  # every variable name bound somewhere in the program
        self.fpool = set()                 # every function name defined somewhere in the program
        self.nfun = 0
        self.salt = rng.randrange(len(EQUIV))
        self.host_vars = {}                # '$name' -> type: variables the HOST bound somewhere in its context chain

    # ------------------------------------------------------------ helpers
    def pick(self, options):
        """options: [(weight, thunk)]"""
        total = sum(w for w, _ in options)
        r = self.rng.random() * total
        for w, th in options:
            r -= w
            if r <= 0:
                return th()
        return options[-1][1]()

    def var(self, name):
        if name == '$1' and self.rng.random() < 0.6:
            return ['var', '$']
        return ['var', name]

    def paths(self, sc, want, depth=2):
        """expressions reading something of type `want` out of the variables in scope"""
        out = []

        def walk(e, t, d):
            if t == want or (want == 'any' and not is_rec(t)):
                out.append(e)
            if is_rec(t) and d > 0:
                for f, ft in t[1]:
                    walk(['member', e, f], ft, d - 1)
        for name, t in sc.vars.items():
            walk(self.var(name), t, depth)
        return out

    def new_name(self):
        """a name for a binding: a plain one, an odd one, or - with preference once something is bound - a RELATIVE of
        a name bound elsewhere in the program (what a normalisation of names would merge)"""
        r = self.rng
        roll = r.random()
        bound = sorted(n[1:] for n in self.pool if is_keyword(n[1:]))
        n = None
        if roll < 0.22 and bound:
            rel = relatives(r.choice(bound))
            if rel:
                n = r.choice(rel)
        elif roll < 0.42:
            n = r.choice(ODD_NAMES)
        elif roll < 0.62:
            n = r.choice(HOST_NAMES[:38] if r.random() < 0.7 else HOST_NAMES)
        if n is None:
            n = r.choice(NAMES)
        self.pool.add('$' + n)
        return n

    def name_pair(self):
        """two distinct names for a scenario: plain ones, or a pair that some normalisation would identify"""
        r = self.rng
        roll = r.random()
        if roll < 0.40:
            a, b = r.choice(RELATED_PAIRS)
            if r.random() < 0.5:
                a, b = b, a
        elif roll < 0.65:
            a, b = r.sample(HOST_NAMES[:38] if r.random() < 0.7 else HOST_NAMES, 2)
        else:
            a, b = r.sample(NAMES, 2)
        self.pool.update(('$' + a, '$' + b))
        return a, b

    def fun_name(self):
        r = self.rng
        roll = r.random()
        if roll < 0.60:
            name = FUNC_NAMES[self.nfun % len(FUNC_NAMES)]
        elif roll < 0.78:
            name = r.choice(FUNC_ODD)
        elif roll < 0.92:
            name = r.choice(FUNC_HOST)
        else:
            name = r.choice(FUNC_SNAKE)
        self.nfun += 1
        self.fpool.add(name)
        return name

    def lit(self, t):
        r = self.rng
        if t == 'int':
            return ['lit', r.choice((0, 1, 2, 3, 4, 10))]
        if t == 'str':
            s = r.choice(STRS)
            return ['kw', s] if r.random() < 0.3 else ['lit', s]
        if t == 'bool':
            return ['lit', r.random() < 0.5]
        if t == 'any':
            return ['lit', r.choice(ANY_LITS)]
        if is_list(t):
            return ['list', [self.lit(t[1]) for _ in range(r.choice((0, 1, 2, 3)))]]
        if is_rec(t):
            return ['map', [[['kw', f], self.lit(ft)] for f, ft in t[1]]]
        if is_mixl(t):
            one = lambda: self.lit(t[1])                 # noqa: E731
            shapes = (lambda: [one(), ['list', [one()]]], lambda: [['list', [one()]], one()],
                      lambda: [one(), ['list', [one(), ['list', [one()]]]], one()], lambda: [['list', []], one()],
                      lambda: [['list', [['list', [one()]]]], one(), ['list', [one(), one()]]])
            return ['list', r.choice(shapes)()]
        raise ValueError(t)

    def some_type(self, simple=False):
        r = self.rng
        opts = ['int', 'int', 'str', 'bool', ('list', 'int'), ('list', 'int'), ('list', 'str')]
        if not simple:
            opts += [('list', REC_ITEM), REC_SUB, REC_ITEM, 'any', REC_ODD, ('list', REC_ODD), REC_HOST, ('list', REC_HOST),
                     ('list', 'any')]
        return r.choice(opts)

    # ------------------------------------------------------------ expressions
    def expr(self, t, sc, d):
        r = self.rng
        if d <= 0:
            return self.leaf(t, sc)
        if r.random() < 0.02:
            t = self.some_type()             # an ill-typed spot now and then: the error paths
        # what the nearest constructs bound is used with preference
        for name in sc.fresh:
            if name in sc.funcs:
                sig = sc.funcs[name]
                if (sig[1] == t or (t == 'any' and not is_rec(sig[1]))) and r.random() < 0.45:
                    return self.user_call((name, sig), sc, d)
            elif name in sc.vars and r.random() < 0.25:
                ps = self.paths(Scope({name: sc.vars[name]}, {}), t)
                if ps:
                    return r.choice(ps)
        if r.random() < 0.30:
            return self.wrapper(t, sc, d)
        if r.random() < 0.12:
            return self.leaf(t, sc)
        opts = []
        calls = [(n, sig) for n, sig in sc.funcs.items() if sig[1] == t or (t == 'any' and not is_rec(sig[1]))]
        if calls:
            opts.append((3, lambda: self.user_call(r.choice(calls), sc, d)))
        if t == 'int':
            opts += [(3, lambda: ['bin', r.choice(('add', 'add', 'sub', 'mul')), self.expr('int', sc, d - 1),
                                  self.expr('int', sc, d - 1)]),
                     (2, lambda: self.len_of(sc, d)),
                     (2, lambda: ['method', self.expr(('list', 'int'), sc, d - 1), 'sum', [['lit', 0]] if r.random() < 0.7 else [], []]),
                     (1, lambda: ['method', self.expr(('list', 'int'), sc, d - 1), 'first', [['lit', 0]] if r.random() < 0.7 else [], []]),
                     (1, lambda: ['index', self.expr(('list', 'int'), sc, d - 1), [['lit', r.choice((0, 0, 1, 2))]]]),
                     (1, lambda: self.with_lambda('indexWhere', self.some_list(sc, d), 'bool', sc, d)),
                     (1, lambda: self.aggregate(sc, d)),
                     (1, lambda: ['un', 'neg', self.expr('int', sc, d - 1)]),
                     (1, lambda: ['method', self.expr(self.rec_with(sc, 'int'), sc, d - 1), 'get', [['kw', self.missing_key()], self.expr('int', sc, d - 1)], []]),
                     (0.3, lambda: ['member', self.expr(REC_ODD, sc, d - 1), r.choice(('my_key', 'myKey', 'K', self.missing_key()))])]
        elif t == 'str':
            opts += [(2, lambda: ['bin', 'add', self.expr('str', sc, d - 1), self.expr('str', sc, d - 1)]),
                     (1, lambda: ['method', self.expr(('list', 'str'), sc, d - 1), 'sum', [['lit', '']], []]),
                     (1, lambda: ['method', self.expr(('list', 'str'), sc, d - 1), 'first', [['lit', 'z']], []]),
                     (1, lambda: ['index', self.expr(('list', 'str'), sc, d - 1), [['lit', 0]]])]
        elif t == 'bool':
            opts += [(3, lambda: ['bin', r.choice(('lt', 'le', 'gt', 'ge', 'eq', 'ne')), self.expr('int', sc, d - 1), self.expr('int', sc, d - 1)]),
                     (1, lambda: ['bin', r.choice(('eq', 'ne')), self.expr('any', sc, d - 1), self.expr('any', sc, d - 1)]),
                     (1, lambda: ['un', 'not', self.expr(r.choice(('bool', 'any', 'int')), sc, d - 1)]),
                     (1, lambda: ['bin', r.choice(('and', 'or')), self.expr('bool', sc, d - 1), self.expr('bool', sc, d - 1)]),
                     (2, lambda: self.with_lambda(r.choice(('any', 'all')), self.some_list(sc, d), 'bool', sc, d))]
        elif is_mixl(t):
            opts += [(4, lambda: self.mixed_list(t[1], sc, d)),
                     (1, lambda: ['method', self.expr(t, sc, d - 1), 'select', [self.var('$1')], []]),
                     (1, lambda: ['method', self.expr(t, sc, d - 1), 'where', [['lit', True]], []]),
                     (1, lambda: ['method', self.expr(t, sc, d - 1), r.choice(('take', 'skip')), [['lit', r.choice((0, 1, 5))]], []]),
                     (1, lambda: ['bin', 'add', self.to_list(self.expr(t, sc, d - 1)), self.to_list(self.expr(('list', t[1]), sc, d - 1))]),
                     # every element a collection that itself holds a record next to a collection of records
                     (2, lambda: ['method', self.expr(('list', t[1]), sc, d - 1), 'select',
                                  [r.choice((lambda: ['list', [self.var('$1'), ['list', [self.var('$1')]]]],
                                             lambda: ['list', [['list', [self.var('$1')]], self.var('$1')]],
                                             lambda: ['list', [self.var('$1'), ['list', [self.var('$1'), ['list', [self.var('$1')]]]]]]))()], []])]
        elif t == 'any':
            opts += [(3, lambda: self.expr(self.some_type(), sc, d)),
                     (1.6, lambda: self.mixed_member(sc, d)),
                     (0.9, lambda: self.to_dict(sc, d)),
                     (2, lambda: self.oos_read(sc)),
                     (0.4, lambda: self.oos_call(sc, d)),
                     (1, lambda: ['bin', r.choice(('and', 'or')), self.expr('any', sc, d - 1), self.expr('any', sc, d - 1)])]
        elif is_list(t):
            el = t[1]
            opts += [(2, lambda: ['list', [self.expr(el, sc, d - 1) for _ in range(r.choice((1, 2, 2, 3)))]]),
                     (3, lambda: self.select_to(el, sc, d)),
                     (2, lambda: self.with_lambda('where', (self.expr(t, sc, d - 1), el), 'bool', sc, d)),
                     (1, lambda: self.with_lambda(r.choice(('takeWhile', 'skipWhile')), (self.expr(t, sc, d - 1), el), 'bool', sc, d)),
                     (1, lambda: ['method', self.expr(t, sc, d - 1), r.choice(('take', 'skip')), [['lit', r.choice((0, 1, 2))]], []]),
                     (1, lambda: ['method', self.expr(t, sc, d - 1), 'toList', [], []]),
                     (1, lambda: ['bin', 'add', self.to_list(self.expr(t, sc, d - 1)), self.to_list(self.expr(t, sc, d - 1))]),
                     (1, lambda: ['call', 'list', [self.expr(el, sc, d - 1) for _ in range(r.choice((1, 2)))], []])]
            if el in ('int', 'str'):
                opts += [(1, lambda: self.with_lambda(r.choice(('orderBy', 'orderByDescending')), (self.expr(t, sc, d - 1), el), el, sc, d)),
                         (1, lambda: self.select_many(el, sc, d))]
                src = self.rec_list_with(el)
                if src is not None:
                    opts.append((2, lambda: ['member', self.expr(('list', src[0]), sc, d - 1), src[1]]))
            if is_rec(el):
                opts += [(1, lambda: self.with_lambda(r.choice(('orderBy', 'orderByDescending')), (self.expr(t, sc, d - 1), el),
                                                      self.scalar_field(el), sc, d))]
        elif is_rec(t):
            opts += [(2, lambda: ['map', [[['kw', f], self.expr(ft, sc, d - 1)] for f, ft in t[1]]]),
                     (1, lambda: ['call', 'dict', [], [[['kw', f], self.expr(ft, sc, d - 1)] for f, ft in t[1]]]),
                     (1, lambda: ['method', self.expr(('list', t), sc, d - 1), 'first', [], []]),
                     (1, lambda: ['index', self.expr(('list', t), sc, d - 1), [['lit', 0]]])]
        if not opts:
            return self.leaf(t, sc)
        return self.pick(opts)

    def leaf(self, t, sc):
        r = self.rng
        if t == 'any' and r.random() < 0.35:
            return self.oos_read(sc)
        if self.host_vars and r.random() < 0.3:
            # a variable of the host's chain, read from wherever the program is right now (a local binding may shadow it)
            ps = self.paths(Scope({n: ty for n, ty in self.host_vars.items() if sc.vars.get(n) == ty}, {}), t)
            if ps:
                return r.choice(ps)
        for name in sc.fresh:
            if name in sc.vars and r.random() < 0.4:
                ps = self.paths(Scope({name: sc.vars[name]}, {}), t)
                if ps:
                    return r.choice(ps)
        ps = self.paths(sc, t)
        if ps and r.random() < 0.75:
            return r.choice(ps)
        return self.lit(t)

    def oos_read(self, sc):
        """a name that is bound somewhere in the program (or a neighbouring positional name) whether
        or not it is visible here"""
        r = self.rng
        if self.pool and r.random() < 0.3:
            # a RELATIVE of a bound name: bound under `my_var`, read as `$myVar` / `$my_var_` / `$MY_VAR` ...
            n = r.choice(sorted(self.pool))[1:]
            rel = relatives(n) if is_keyword(n) else []
            if rel:
                return ['var', '$' + r.choice(rel)]
        cands = sorted(self.pool | {'$1', '$2', '$3', '$0'} | {'$' + n for n in NAMES[:2]})
        return ['var', r.choice(cands)]

    def oos_call(self, sc, d):
        """a call of a function name that is defined somewhere in the program, visible or not"""
        r = self.rng
        name = r.choice(FUNC_NAMES)
        if self.fpool and r.random() < 0.4:
            # a relative of a defined name: `f_` is `f` (trailing underscores do not count), `F` / `my_f` vs `myF` are not
            base = r.choice(sorted(self.fpool))
            name = r.choice([base] + relatives(base))
        if name in sc.funcs:
            return self.user_call((name, sc.funcs[name]), sc, d)
        return ['call', name, [self.expr('int', sc, d - 1) for _ in range(r.choice((0, 1)))], []]

    def mixed_list(self, rec, sc, d):
        """a list literal whose elements are of MIXED kinds: records, collections of records (list literals, document
        paths, lazy sequences), collections of collections - in any order"""
        r = self.rng
        one = lambda: self.expr(rec, sc, d - 1)                      # noqa: E731
        many = lambda: self.expr(('list', rec), sc, d - 1)           # noqa: E731
        deep = lambda: ['list', [one(), ['list', [one()]]]]          # noqa: E731
        n = r.choice((2, 2, 3, 3, 4))
        kinds = [r.choice((one, one, many, many, deep)) for _ in range(n)]
        if one not in kinds:
            kinds[r.randrange(n)] = one
        if all(k is one for k in kinds):
            kinds[r.randrange(n)] = many
        els = [k() for k in kinds]
        if r.random() < 0.06:
            els.insert(r.randrange(len(els) + 1), self.lit(r.choice(('int', 'any'))))     # no member: raises when reached
        return ['list', els]

    def to_dict(self, sc, d):
        """`xs.toDict(key lambda [, value lambda])`: two lambdas of one call, each depending on ITS element"""
        r = self.rng
        e, el = self.some_list(sc, d)
        lsc = self.lam_scope(sc, el)
        key = self.expr(r.choice(('int', 'str')), lsc, d - 1) if r.random() < 0.6 else self.var('$1')
        if is_rec(el):
            key = ['member', self.var('$1'), r.choice([f for f, ft in el[1] if ft in ('int', 'str')] or ['n'])]
        args = [key]
        if r.random() < 0.75:
            args.append(self.expr(self.some_type(True), lsc, d - 1) if r.random() < 0.7 else ['list', [self.var('$1'), key]])
        return ['method', e, 'toDict', args, []]

    def mixed_member(self, sc, d):
        """`.name` on a heterogeneous collection (alone, next to the `select($.name)` it is documented to equal, consumed)"""
        r = self.rng
        rec = r.choice((REC_SUB, REC_ITEM, REC_ODD, REC_HOST))
        src = self.expr(('mixl', rec), sc, d - 1)
        f = r.choice([f for f, _ in rec[1]]) if r.random() < 0.93 else self.missing_key()
        m = ['member', src, f]
        roll = r.random()
        if roll < 0.5:
            return m
        if roll < 0.7:
            return ['list', [m, ['method', src, 'select', [['member', self.var('$1'), f]], []]]]
        if roll < 0.8:
            return ['method', m, 'toList', [], []]
        if roll < 0.9:
            return ['method', m, 'len', [], []]
        return ['index', ['method', m, 'toList', [], []], [['lit', r.choice((0, 1))]]]

    def to_list(self, e):
        """operands of list `+` must be sequences, not iterators"""
        if e[0] in ('list', 'var', 'member', 'lit'):
            return e
        return ['method', e, 'toList', [], []]

    def raising_source(self, sc, d, n):
        """a lazy sequence that raises at its element number n + 1, n + 2 or never (who consumes how much of it?)"""
        r = self.rng
        good = [self.expr('int', sc, d - 1) for _ in range(n)]
        tail = r.choice(([], [['lit', 'a']], [['lit', 3], ['lit', None]], [['lit', 3], ['lit', 4], ['lit', 'a']]))
        return ['method', ['list', good + tail], 'select', [['bin', 'add', ['var', '$'], ['lit', 1]]], []]

    def rec_with(self, sc, ft):
        return self.rng.choice((REC_SUB, REC_SUB, REC_ODD, REC_HOST))

    def rec_list_with(self, el):
        if el == 'int':
            return self.rng.choice(((REC_ITEM, 'v'), (REC_SUB, 'a'), (REC_ODD, 'my_key'), (REC_ODD, 'myKey'), (REC_ODD, 'K'),
                                    (REC_HOST, 'value'), (REC_HOST, 'key'), (REC_HOST, 'default'), (REC_HOST, 'values')))
        if el == 'str':
            return self.rng.choice(((REC_ITEM, 'n'), (REC_ITEM, 'n'), (REC_ODD, 'k_'), (REC_HOST, 'self'), (REC_HOST, 'kwargs')))
        return None

    def missing_key(self):
        """a key no record has - now and then one that a normalisation of names would find (`myKey_`, `my_Key`, `k`)"""
        r = self.rng
        if r.random() < 0.6:
            return r.choice([x for f in ('my_key', 'myKey', 'k_', 'K', 'a', 'xs') for x in relatives(f)
                             if x not in ('my_key', 'myKey', 'k_', 'K', 'a', 'xs')])
        return 'zz'

    def scalar_field(self, rec):
        c = [ft for _, ft in rec[1] if ft in ('int', 'str')]
        return self.rng.choice(c) if c else 'int'

    def some_list(self, sc, d):
        """(expression of a list type, element type)"""
        el = self.rng.choice(('int', 'int', 'str', REC_ITEM))
        return self.expr(('list', el), sc, d - 1), el

    def len_of(self, sc, d):
        e, _ = self.some_list(sc, d)
        ln = 'len' if self.rng.random() < 0.95 else self.rng.choice(('len_', 'len__'))   # trailing underscores do not count
        if self.rng.random() < 0.3:
            return ['call', ln, [e], []]
        return ['method', e, ln, [], []]

    def lam_scope(self, sc, *types):
        return sc.bind({'$%d' % (i + 1): t for i, t in enumerate(types)}, lam=True)

    def with_lambda(self, f, src, result, sc, d):
        e, el = src
        body = self.expr(result, self.lam_scope(sc, el), d - 1)
        if f in ('any', 'all') and self.rng.random() < 0.2:
            return ['call', f, [e, body], []]
        return ['method', e, f, [body], []]

    def select_to(self, el, sc, d):
        e, src_el = self.some_list(sc, d)
        body = self.expr(el, self.lam_scope(sc, src_el), d - 1)
        return ['method', e, 'select' if self.rng.random() < 0.97 else 'select_', [body], []]

    def select_many(self, el, sc, d):
        e, src_el = self.some_list(sc, d)
        body = self.expr(('list', el), self.lam_scope(sc, src_el), d - 1)
        return ['method', e, 'selectMany', [body], []]

    def aggregate(self, sc, d):
        e = self.expr(('list', 'int'), sc, d - 1)
        body = self.expr('int', self.lam_scope(sc, 'int', 'int'), d - 1)
        return ['method', e, 'aggregate', [body, ['lit', self.rng.choice((0, 1))]], []]

    def user_call(self, item, sc, d):
        """a call of a def-ined function; now and then with fewer / more arguments than its body
        names, or with a keyword argument (absent ones are null, extra ones are just published)"""
        r = self.rng
        name, (params, _) = item
        args = [self.expr(p, sc, d - 1) for p in params]
        if params and r.random() < 0.2:
            # one of a class of values the host language takes for equal (1 / true / 1.0 ..): the class is fixed per
            # function name, so that several calls of one function in a program get equal-but-different arguments
            cls = EQUIV[(len(name) + len(params) + self.salt) % len(EQUIV)]
            args[r.randrange(len(args))] = value_lit(r.choice(cls))
        kw = []
        roll = r.random()
        if roll < 0.15 and args:
            args.pop()
        elif roll < 0.25:
            args.append(self.expr('int', sc, d - 1))
        elif roll < 0.37:
            nm = self.new_name()
            kw = [[['kw', nm], self.expr(self.some_type(True), sc, d - 1)]]
        return ['call', name, args, kw]

    # ------------------------------------------------------------ context constructs
    def wrapper(self, t, sc, d):
        r = self.rng
        kind = self.pick([(4, lambda: 'let'), (2, lambda: 'letpos'), (2, lambda: 'with'), (2, lambda: 'unpack'),
                          (1, lambda: 'unpackpos'), (4, lambda: 'def'), (1, lambda: 'toDict')])
        if kind == 'let':
            n = r.choice((1, 1, 2))
            names, kws, binds = [], [], {}
            for _ in range(n):
                nm = self.new_name()
                if nm in names:
                    continue
                ty = self.some_type()
                names.append(nm)
                kws.append([['kw', nm], self.expr(ty, sc, d - 1)])
                binds['$' + nm] = ty
            pos = []
            if r.random() < 0.15:
                ty = self.some_type(True)
                pos = [self.expr(ty, sc, d - 1)]
                binds['$1'] = ty
            return ['arrow', ['call', 'let', pos, kws], self.expr(t, sc.bind(binds), d - 1)]
        if kind in ('letpos', 'with'):
            tys = [self.some_type(True) for _ in range(r.choice((1, 2, 2)))]
            args = [self.expr(ty, sc, d - 1) for ty in tys]
            binds = {'$%d' % (i + 1): ty for i, ty in enumerate(tys)}
            self.pool.update(binds)
            return ['arrow', ['call', 'let' if kind == 'letpos' else 'with', args, []], self.expr(t, sc.bind(binds), d - 1)]
        if kind == 'unpack':
            tys = [self.some_type(True) for _ in range(r.choice((1, 2, 2)))]
            names = []
            while len(names) < len(tys):
                nm = self.new_name()
                if r.random() < 0.12:                     # names only a string can spell
                    nm = r.choice(LEX_NAMES)
                    self.pool.add(var_of(nm))
                if var_of(nm) not in [var_of(x) for x in names]:
                    names.append(nm)
            src = ['list', [self.expr(ty, sc, d - 1) for ty in tys]]
            if r.random() < 0.12:                         # a length that need not fit
                src = self.expr(('list', 'int'), sc, d - 1)
                tys = ['int'] * len(tys)
            elif r.random() < 0.08:                       # unpack(names) looks at len(names) + 1 elements of its source
                src = self.raising_source(sc, d, len(tys))
                tys = ['int'] * len(tys)
            binds = {var_of(nm): ty for nm, ty in zip(names, tys)}
            return ['arrow', ['method', src, 'unpack', [name_arg(nm) for nm in names], []], self.expr(t, sc.bind(binds), d - 1)]
        if kind == 'unpackpos':
            tys = [self.some_type(True) for _ in range(r.choice((1, 2)))]
            src = ['list', [self.expr(ty, sc, d - 1) for ty in tys]]
            binds = {'$%d' % (i + 1): ty for i, ty in enumerate(tys)}
            if r.random() < 0.25:                         # unpack() without names consumes the WHOLE source
                src = self.raising_source(sc, d, len(tys))
                binds = {k: 'int' for k in binds}
            self.pool.update(binds)
            return ['arrow', ['method', src, 'unpack', [], []], self.expr(t, sc.bind(binds), d - 1)]
        if kind == 'def':
            name = self.fun_name()
            params = [(self.some_type(True) if r.random() < 0.8 else 'any') for _ in range(r.choice((0, 1, 1, 2)))]
            ret = t if (r.random() < 0.6 and not is_rec(t)) else self.some_type(True)
            body_sc = self.lam_scope(sc, *params)          # the own name is visible too, but never called (no recursion)
            body = self.expr(ret, body_sc, d - 1)
            if (t == 'any' or (is_list(t) and t[1] == ret)) and r.random() < 0.5:
                # several calls of the one function side by side (every call evaluates the body on its own arguments)
                sc2 = sc.define(name, (params, ret))
                calls = [self.user_call((name, (params, ret)), sc2, d - 1) for _ in range(r.choice((2, 3)))]
                return ['arrow', ['call', 'def', [['kw', name], body], []], ['list', calls]]
            return ['arrow', ['call', 'def', [['kw', name], body], []], self.expr(t, sc.define(name, (params, ret)), d - 1)]
        # toDict then a keyed read
        e, el = self.some_list(sc, d)
        if el != 'str':
            return self.expr(t, sc, d - 1)
        body_sc = self.lam_scope(sc, el)
        td = ['method', e, 'toDict', [self.var('$1'), self.expr(t, body_sc, d - 1)], []]
        return ['method', td, 'get', [self.lit('str'), self.expr(t, sc, d - 1)], []]

    # ------------------------------------------------------------ equal-but-differently-typed values
    def equiv_values(self):
        """the values of one class the host language takes for equal, shuffled, now and then one of them twice"""
        r = self.rng
        vals = list(r.choice(EQUIV))
        r.shuffle(vals)
        if r.random() < 0.4:
            vals.insert(r.randrange(len(vals) + 1), r.choice(vals))
        return vals[:4]

    def equiv_source(self, sc, vals, wrap):
        """a collection holding such values: a list literal, or the document's own `mix` list"""
        t = sc.vars.get('$1')
        if is_rec(t) and any(f == 'mix' for f, _ in t[1]) and self.rng.random() < 0.4:
            return ['member', ['var', '$'], 'mix']
        return ['list', [wrap(value_lit(v)) for v in vals]]

    def revealing_body(self, p):
        """a function / lambda body over the parameter `p` whose result tells 1 from true from 1.0"""
        r = self.rng
        one = ['var', '$']
        return r.choice((
            lambda: p,
            lambda: ['list', [p]],
            lambda: ['map', [[['kw', 'v'], p]]],
            lambda: ['list', [p, ['bin', 'eq', p, ['lit', 1]]]],
            lambda: ['method', ['list', [p]], 'select', [['list', [one]]], []],
            lambda: ['list', [['method', ['list', [p]], 'select', [one], []]]],
            lambda: ['bin', 'add', p, p],
            lambda: ['bin', 'or', p, ['lit', 'dflt']],
            lambda: ['list', [['un', 'not', p], p]],
            lambda: ['index', ['list', [p, ['lit', 7]]], [['lit', 0]]],
        ))()

    def lazy_holder(self, p, sc, d):
        """a list / dict built AROUND a lazy sequence that depends on `p` (whoever gets it consumes it once)"""
        r = self.rng
        xs = ['list', [p, ['lit', r.choice((2, 5))]]]
        lazy = r.choice((
            lambda: ['method', xs, 'select', [['bin', 'add', ['var', '$'], ['lit', 1]]], []],
            lambda: ['method', xs, 'where', [['bin', 'gt', ['var', '$'], ['lit', 0]]], []],
            lambda: ['method', xs, r.choice(('skip', 'take')), [['lit', 1]], []],
            lambda: ['member', ['list', [['map', [[['kw', 'v'], p]]]]], 'v'],
            lambda: ['method', ['method', xs, 'select', [['list', [['var', '$']]]], []], 'where', [['lit', True]], []],
            lambda: ['method', self.expr(('list', 'int'), self.lam_scope(sc, 'int'), d - 1), 'where',
                     [['bin', 'ge', ['var', '$'], ['lit', 1]]], []],
        ))()
        return r.choice((
            lambda: ['list', [lazy]],
            lambda: ['map', [[['kw', 'v'], lazy]]],
            lambda: ['list', [['list', [lazy]]]],
            lambda: ['list', [p, lazy]],
            lambda: ['map', [[['kw', 'a'], p], [['kw', 'b'], ['list', [lazy]]]]],
        ))()

    def host_scenario(self, sc, d):
        """a variable the HOST bound (at some depth of its chain) read from inside a lambda, a let chain, a def body, a
        callee that shadows it - next to a plain read"""
        r = self.rng
        e = lambda t, s=sc, dd=d - 1: self.expr(t, s, dd)           # noqa: E731
        name = r.choice(sorted(self.host_vars))
        ty = self.host_vars[name]
        x = ['var', name]
        xs = e(('list', 'int'))
        other = self.new_name()
        fn = self.fun_name()
        k = r.randrange(9)
        if k == 0:
            return ['list', [x, ['method', xs, 'select', [['list', [x, self.var('$1')]]], []], ['var', '$']]]
        if k == 1:
            return ['arrow', ['call', 'let', [], [[['kw', other], e('int')]]], ['list', [x, ['var', '$' + other], ['var', '$1']]]]
        if k == 2:
            return ['arrow', ['call', 'def', [['kw', fn], ['list', [x, self.var('$1')]]], []],
                    ['list', [['call', fn, [e('int')], []], ['method', xs, 'select', [['call', fn, [self.var('$1')], []]], []]]]]
        if k == 3 and is_keyword(name[1:]):     # shadowed inside, restored outside
            return ['list', [['arrow', ['call', 'let', [], [[['kw', name[1:]], e('str')]]], x], x,
                             ['method', xs, 'select', [['arrow', ['call', 'let', [], [[['kw', name[1:]], self.var('$1')]]], x]], []], x]]
        if k == 4:
            return ['arrow', ['call', 'with', [e('int'), e('str')], []], ['list', [x, ['var', '$1'], ['var', '$2']]]]
        if k == 5 and is_keyword(name[1:]):     # lexical closure over a host variable, the caller rebinds the name
            return ['arrow', ['call', 'def', [['kw', fn], ['arrow', ['call', 'let', [], [[['kw', other], x]]], ['list', [['var', '$' + other], x]]]], []],
                    ['arrow', ['call', 'let', [], [[['kw', name[1:]], e('int')]]], ['list', [['call', fn, [], []], x]]]]
        if k == 6 and ty == 'int':
            return ['method', xs, 'where', [['bin', r.choice(('gt', 'le', 'ne')), self.var('$1'), x]], []]
        if k == 7:
            rel = relatives(name[1:]) if is_keyword(name[1:]) else []
            return ['list', [x, ['var', '$' + r.choice(rel)] if rel else ['var', '$nope'], ['var', '$'], ['var', '$1']]]
        ps = self.paths(Scope({name: ty}, {}), 'any')
        return ['map', [[['kw', 'direct'], x], [['kw', 'nested'], ['method', ['list', [['lit', 1]]], 'select',
                                                              [['method', ['list', [['lit', 2]]], 'select', [r.choice(ps or [x])], []]], []]]]]

    # ------------------------------------------------------------ scenario templates
    def scenario(self, sc, d):
        """shapes that put two scoping constructs into a particular relation, with random parts"""
        r = self.rng
        e = lambda t, s=sc, dd=d - 1: self.expr(t, s, dd)           # noqa: E731
        nm, nm2 = self.name_pair()
        x = ['var', '$' + nm]
        x2 = ['var', '$' + nm2]
        xs = e(('list', 'int'))
        k = r.randrange(26)
        if k in (20, 21, 22):
            # every call of a def-ined function / application of a lambda evaluates the body on ITS OWN arguments: 1, true
            # and 1.0 (0 / false / 0.0 / -0.0, '' / null / 0) are different values, whatever the host language's `==` says
            vals = self.equiv_values()
            wrap = r.choice((lambda a: a, lambda a: a, lambda a: ['list', [a]], lambda a: ['map', [[['kw', 'k'], a]]]))
            if k == 21:     # a lambda applied to the elements of a collection
                src = self.equiv_source(sc, vals, wrap)
                c = value_lit(r.choice(vals))
                return r.choice((
                    lambda: ['method', src, 'select', [self.revealing_body(self.var('$1'))], []],
                    lambda: ['method', src, 'toDict', [self.var('$1'), ['list', [self.var('$1')]]], []],
                    lambda: ['method', src, 'where', [['bin', 'eq', self.var('$1'), c]], []],
                    lambda: ['method', src, 'select', [['list', [self.var('$1'), ['bin', 'eq', self.var('$1'), c]]]], []],
                    lambda: ['method', src, 'aggregate', [['list', [['var', '$1'], ['var', '$2']]], c], []],
                    lambda: ['list', [['method', src, 'indexWhere', [['bin', 'eq', self.var('$1'), c]], []],
                                      ['method', src, 'first', [], []], ['method', src, 'toList', [], []]]],
                ))()
            fn = self.fun_name()
            use_kw = r.random() < 0.3
            p = x if use_kw else self.var('$1')

            def call(a, extra=()):
                if use_kw:
                    return ['call', fn, list(extra), [[['kw', nm], a]]]
                return ['call', fn, [a] + list(extra), []]
            if k == 22:     # recursion: the activations of the two top-level calls must not be mixed up
                n = ['lit', r.choice((1, 2))]
                if use_kw:
                    rec = ['call', fn, [['bin', 'sub', ['var', '$1'], ['lit', 1]]], [[['kw', nm], p]]]
                    body = ['list', [p, ['bin', 'and', ['bin', 'gt', ['var', '$1'], ['lit', 0]], rec]]]
                else:
                    rec = ['call', fn, [p, ['bin', 'sub', ['var', '$2'], ['lit', 1]]], []]
                    body = ['list', [p, ['bin', 'and', ['bin', 'gt', ['var', '$2'], ['lit', 0]], rec]]]
                tail = ['list', [call(wrap(value_lit(v)), [n]) for v in vals]]
                return ['arrow', ['call', 'def', [['kw', fn], body], []], tail]
            body = self.revealing_body(p)
            tail = r.choice((
                lambda: ['list', [call(wrap(value_lit(v))) for v in vals]],
                lambda: ['list', [call(wrap(value_lit(v))) for v in vals]],
                lambda: ['method', self.equiv_source(sc, vals, wrap), 'select', [call(self.var('$1'))], []],
                lambda: ['method', self.equiv_source(sc, vals, wrap), 'where', [['bin', 'eq', call(self.var('$1')), self.var('$1')]], []],
                lambda: ['list', [['method', self.equiv_source(sc, vals, wrap), 'select', [call(self.var('$1'))], []],
                                  call(wrap(value_lit(vals[-1])))]],
            ))()
            return ['arrow', ['call', 'def', [['kw', fn], body], []], tail]
        if k in (23, 24):
            # a result that HOLDS a lazy sequence is built anew by every call: called twice with equal arguments, each
            # result consumed
            a = r.choice((lambda: ['lit', r.choice((1, 2, 3))], lambda: ['lit', r.choice((0, 1))], lambda: e('int')))()
            b = r.choice((a, a, ['lit', 1], value_lit(1.0)))
            if k == 24:     # ... by a lambda over a collection with equal elements
                return ['method', ['list', [a, b, a][:r.choice((2, 3))]], 'select', [self.lazy_holder(self.var('$1'), sc, d)], []]
            fn = self.fun_name()
            body = self.lazy_holder(self.var('$1'), sc, d)
            call = lambda v: ['call', fn, [v], []]                 # noqa: E731
            tail = r.choice((
                lambda: ['list', [call(a), call(b)]],
                lambda: ['list', [call(a), call(b), call(a)]],
                lambda: ['method', ['list', [a, b]], 'select', [call(self.var('$1'))], []],
                lambda: ['list', [['method', call(a), 'len', [], []], call(a), call(b)]],
            ))()
            return ['arrow', ['call', 'def', [['kw', fn], body], []], tail]
        if k == 25:         # names out of the host's own vocabulary as keyword arguments of a def-ined function / of let / dict
            h1, h2 = r.sample(HOST_NAMES[:38] if r.random() < 0.8 else HOST_NAMES, 2)
            self.pool.update(('$' + h1, '$' + h2))
            v1, v2 = ['var', '$' + h1], ['var', '$' + h2]
            fn = self.fun_name()
            body = r.choice((lambda: ['list', [v1, v2, self.var('$1')]], lambda: ['bin', 'add', v1, ['lit', 1]],
                             lambda: ['map', [[['kw', h1], v1], [['kw', h2], v2]]], lambda: v1))()
            calls = [['call', fn, [], [[['kw', h1], e('int')]]],
                     ['call', fn, [e('int')], [[['kw', h1], e('int')], [['kw', h2], e('str')]]],
                     ['call', fn, [], [[['kw', h2], e('int')]]]]
            r.shuffle(calls)
            tail = r.choice((
                lambda: ['list', calls[:r.choice((1, 2, 3))]],
                lambda: ['method', xs, 'select', [['call', fn, [self.var('$1')], [[['kw', h1], ['lit', 10]]]]], []],
                lambda: ['list', [calls[0], v1, ['arrow', ['call', 'let', [], [[['kw', h1], e('int')], [['kw', h2], e('int')]]], ['list', [v1, v2]]],
                                  ['member', ['call', 'dict', [], [[['kw', h1], e('int')], [['kw', h2], e('int')]]], h1]]],
            ))()
            out = ['arrow', ['call', 'def', [['kw', fn], body], []], tail]
            if r.random() < 0.3:
                out = ['arrow', ['call', 'let', [], [[['kw', h1], e('int')]]], out]
            return out
        if k == 14:     # names are data: two bindings whose names a normalisation would merge, and a third reading
            third = r.choice(relatives(nm) or [nm2])
            return ['arrow', ['call', 'let', [], [[['kw', nm], e('int')], [['kw', nm2], e('str')]]],
                    ['list', [x, x2, ['var', '$' + third]]]]
        if k == 15:     # ... the same for the named arguments of a def-ined function
            body = ['list', [x, x2, self.var('$1')]]
            calls = [['call', 'f', [], [[['kw', nm], e('int')]]],
                     ['call', 'f', [], [[['kw', nm2], e('int')], [['kw', nm], e('str')]]],
                     ['call', 'f', [e('int')], [[['kw', r.choice(relatives(nm2) or [nm])], e('int')]]]]
            r.shuffle(calls)
            return ['arrow', ['call', 'let', [], [[['kw', nm2], e('int')]]],
                    ['arrow', ['call', 'def', [['kw', 'f'], body], []], ['list', calls[:r.choice((2, 3))]]]]
        if k == 16:     # ... for the keys of a dict literal / dict(), read by member access (alone and mapped over a list)
            mk = r.choice((lambda ps: ['map', ps], lambda ps: ['call', 'dict', [], ps]))
            d1 = mk([[['kw', nm], e('int')], [['kw', nm2], e('int')]])
            d2 = mk([[['kw', nm2], e('int')], [['kw', nm], e('int')]])
            which = r.choice((nm, nm2))
            return ['list', [['member', d1, which], ['member', ['list', [d1, d2]], r.choice((nm, nm2))],
                             ['method', d2, 'get', [['kw', r.choice(relatives(which) or [which])], ['lit', 'none']], []]]]
        if k == 17:     # ... for the names unpack() binds, shadowing a let of the related name
            return ['arrow', ['call', 'let', [], [[['kw', nm], e('str')]]],
                    ['arrow', ['method', ['list', [e('int'), e('int')]], 'unpack', [['kw', nm2], ['kw', r.choice(NAMES)]], []],
                     ['list', [x, x2]]]]
        if k == 18:     # ... for the names of def-ined functions (equal up to trailing underscores, otherwise data)
            f1 = self.fun_name()
            f2 = r.choice(relatives(f1) or ['g'])
            self.fpool.add(f2)
            tail = ['list', [['call', f1, [], []], ['call', r.choice((f2, f1 + '_', f1.rstrip('_') or f1)), [], []]]]
            if r.random() < 0.5:
                return ['arrow', ['call', 'def', [['kw', f1], e('int')], []], tail]
            return ['arrow', ['call', 'def', [['kw', f1], e('int')], []],
                    ['arrow', ['call', 'def', [['kw', f2], e('str')], []], tail]]
        if k == 19:     # a lambda's own parameter names next to named variables: `$1` / `$` vs `$_1`, `$x1`
            return ['arrow', ['call', 'let', [], [[['kw', r.choice(('_1', 'x1', '_', 'a1'))], e('str')]]],
                    ['method', xs, 'select', [['list', [self.var('$1'), ['var', '$_1'], ['var', '$_'], ['var', '$x1']]]], []]]
        if k == 0:      # a binding made in one list element, read in the next
            return ['list', [['arrow', ['call', 'let', [], [[['kw', nm], e('int')]]], x], x, e('any')]]
        if k == 1:      # a binding made inside a lambda body, read by a later lambda and outside
            inner = ['arrow', ['call', 'let', [], [[['kw', nm], self.var('$1')]]], ['bin', 'add', x, ['lit', 1]]]
            return ['list', [['method', ['method', xs, 'select', [inner], []], 'select', [['list', [self.var('$1'), x]]], []], x]]
        if k == 2:      # lexical closure: the caller rebinds the free variable of the function
            body = ['list', [x, self.var('$1')]]
            call = ['call', 'f', [e('int')], []]
            return ['arrow', ['call', 'let', [], [[['kw', nm], e('int')]]],
                    ['arrow', ['call', 'def', [['kw', 'f'], body], []],
                     ['arrow', ['call', 'let', [], [[['kw', nm], e('str')]]], ['list', [call, x]]]]]
        if k == 3:      # the function is applied inside a lambda whose `$` differs
            body = ['bin', 'add', self.var('$1'), ['lit', r.choice((1, 2))]]
            return ['arrow', ['call', 'def', [['kw', 'g'], body], []],
                    ['method', xs, 'select', [['list', [['call', 'g', [self.var('$1')], []], self.var('$1')]]], []]]
        if k == 4:      # `$k` of nested lambdas
            inner = ['method', e(('list', 'int')), 'select', [['bin', 'mul', self.var('$1'), ['lit', 2]]], []]
            return ['method', xs, 'select', [['list', [self.var('$1'), ['method', inner, 'toList', [], []], self.var('$1')]]], []]
        if k == 5:      # with / let numbering and the `$` alias
            return ['arrow', ['call', r.choice(('with', 'let')), [e('int'), e('str')], []],
                    ['list', [['var', '$'], ['var', '$1'], ['var', '$2'], ['var', '$0'], ['var', '$3']]]]
        if k == 6:      # a binding made by the callee is not visible to the caller
            body = ['arrow', ['call', 'let', [], [[['kw', nm], self.var('$1')]]], x]
            return ['arrow', ['call', 'def', [['kw', 'h'], body], []], ['list', [['call', 'h', [e('int')], []], x]]]
        if k == 7:      # shadowing and restoration
            return ['arrow', ['call', 'let', [], [[['kw', nm], e('int')]]],
                    ['list', [x, ['arrow', ['call', 'let', [], [[['kw', nm], e('str')]]], x], x]]]
        if k == 8:      # outer variable inside a lambda, `$` rebinding
            return ['arrow', ['call', 'let', [], [[['kw', nm], e('int')]]],
                    ['method', xs, 'select', [['list', [x, self.var('$1')]]], []]]
        if k == 9:      # member access maps over a collection (homogeneous, or of mixed element kinds)
            items = e(('list', REC_ITEM)) if r.random() < 0.5 else e(('mixl', REC_ITEM))
            f = r.choice(('n', 'v'))
            return ['list', [['member', items, f], ['method', items, 'select', [['member', self.var('$1'), f]], []]]]
        if k == 10:     # unpack then lambda
            return ['arrow', ['method', ['list', [e('int'), e('int')]], 'unpack', [['kw', nm], ['kw', nm2]], []],
                    ['method', xs, 'where', [['bin', 'ge', self.var('$1'), x]], []]] if r.random() < 0.7 else \
                   ['arrow', ['method', ['list', [e('int'), e('int')]], 'unpack', [['kw', nm], ['kw', nm2]], []],
                    ['list', [x, x2]]]
        if k == 12:     # several calls of one function with different argument lists
            body = ['list', [['var', '$1'], ['var', '$2'], x, self.var('$1')]]
            calls = [['call', 'f', [e('int'), e('str')], []], ['call', 'f', [e('int')], []],
                     ['call', 'f', [e('int')], [[['kw', nm], e('int')]]], ['call', 'f', [], []]]
            r.shuffle(calls)
            return ['arrow', ['call', 'def', [['kw', 'f'], body], []], ['list', calls[:r.choice((2, 3, 4))]]]
        if k == 13:     # recursion: every activation has its own parameters
            rec = ['bin', 'and', ['bin', 'gt', self.var('$1'), ['lit', 0]],
                   ['call', 'g', [['bin', 'sub', self.var('$1'), ['lit', 1]]], []]]
            body = ['list', [self.var('$1'), rec, self.var('$1')]]
            return ['arrow', ['call', 'def', [['kw', 'g'], body], []], ['call', 'g', [['lit', r.choice((1, 2, 3))]], []]]
        # a definition is visible only below its `->`
        return ['list', [['arrow', ['call', 'def', [['kw', 'f'], e('int')], []], ['call', 'f', [], []]],
                         ['call', 'f', [], []] if r.random() < 0.5 else ['call', 'len', [['list', [x]]], []]]]


# ---------------------------------------------------------------- how the data enters: the host's own context chain
#
# A host does not only call `statement.evaluate(data=doc, context=child)`.  It may bind the document with
# `yaql.create_context(data=doc)` (then `$` lives in the ROOT of the chain, below the layers of the standard library), it
# may hand its own context - already holding variables - to `yaql.create_context(context=..)` (those variables live below
# the library too), it may stack further contexts with variables on top of the library context, bind `$` itself in any of
# them, and evaluate on the top context or on a child.  Whatever it does, "named variables resolve through the enclosing
# scopes": a variable bound at ANY depth of the host's chain is visible from every scope of the program.
ENTRIES = ('evaluate-child', 'evaluate-child', 'evaluate-top', 'create_context', 'create_context', 'create_context-child',
           'host-binds-$')
HOST_VAR_NAMES = ('env', 'limit', 'region', 'cfg', 'user', 'threshold', 'n', 'top')


def gen_host_env(rng, g=None):
    """{'layers': [[name, type, value]..] per context from the ROOT upwards, 'entry': how `$` gets bound, 'at': the number
    of layers below the binding of `$`} - layer 0 is the context the host passes to `yaql.create_context(context=..)`
    (possibly without variables), the others are stacked on top of the library context"""
    n_layers = rng.choice((1, 2, 2, 3, 3, 4))
    layers, seen = [], []
    for i in range(n_layers):
        layer = []
        for _ in range(rng.choice((0, 1, 1, 2)) if i else rng.choice((0, 0, 1, 2))):
            roll = rng.random()
            if seen and roll < 0.3:
                name, ty = rng.choice(seen)                       # bound again higher up: the upper binding shadows
                if rng.random() < 0.3:
                    ty = rng.choice(('int', 'str'))
            else:
                name = (rng.choice(HOST_VAR_NAMES) if roll < 0.7 else
                        rng.choice(ODD_NAMES) if roll < 0.85 else rng.choice(HOST_NAMES[:38]))
                ty = rng.choice(('int', 'int', 'str', 'bool', ('list', 'int'), REC_SUB, ('list', REC_ITEM), 'any',
                                 ('mixl', REC_SUB)))
            if not is_keyword(name) or name in [x[0] for x in layer]:
                continue
            layer.append([name, ty, gen_value(rng, ty, False)])
            seen.append((name, ty))
        layers.append(layer)
    entry = rng.choice(ENTRIES)
    at = 0 if entry.startswith('create_context') else len(layers)
    if entry == 'host-binds-$':
        at = rng.randrange(1, len(layers) + 1)      # `$` bound by the host in layer at - 1
    return {'layers': layers, 'entry': entry, 'at': at}


def host_scope(env):
    """variable -> type of what the program sees of the host's chain (the topmost binding of a name)"""
    out = {}
    for layer in env['layers']:
        for name, ty, _ in layer:
            out['$' + name] = ty
    return out


def env_plain(env):
    """the wire / replay form: values only"""
    if env is None:
        return None
    return {'layers': [[[n, v] for n, _, v in layer] for layer in env['layers']], 'entry': env['entry'], 'at': env['at']}


# ---------------------------------------------------------------- arguments passed by keyword
#
# `name => value` passes an argument to the parameter of that name; the names are the ones the naming convention of the
# context gives the parameters (`keySelector` for the Python parameter `key_selector`).  HOW an argument is passed changes
# nothing about what it means - in particular a lambda passed by keyword is still a lambda: evaluated per element, `$` bound
# to the element.  (generator steering only: the references have their own tables)
METHOD_PARAMS = {
    'select': ('selector',), 'where': ('predicate',), 'selectMany': ('selector',), 'orderBy': ('selector',),
    'orderByDescending': ('selector',), 'takeWhile': ('predicate',), 'skipWhile': ('predicate',), 'indexWhere': ('predicate',),
    'toDict': ('keySelector', 'valueSelector'), 'aggregate': ('selector', 'seed'), 'sum': ('initial',), 'first': ('default',),
    'take': ('count',), 'skip': ('count',), 'any': ('predicate',), 'all': ('predicate',),
}


def kwify(e, rng, p=0.22):
    """the program with some arguments of builtin methods passed BY KEYWORD: the trailing arguments from a random position
    on, now and then in another order, now and then under a name that is NOT the parameter's (the Python spelling
    `key_selector`, a trailing underscore, another case, a neighbour's name): expected NoMatchingMethodException"""
    t = e[0]
    if t in ('lit', 'kw', 'var'):
        return e
    out = list(e)
    for c, path in children(e):
        out = replace_at(out, path, kwify(c, rng, p))
    if t == 'method' and not out[4] and out[3] and out[2] in METHOD_PARAMS and len(out[3]) <= len(METHOD_PARAMS[out[2]]) \
            and rng.random() < (p if len(METHOD_PARAMS[out[2]]) == 1 else 2 * p):
        names = METHOD_PARAMS[out[2]]
        k = rng.randrange(len(out[3]))                    # args[k:] go by keyword
        kw = [[['kw', names[i]], a] for i, a in enumerate(out[3]) if i >= k]
        if len(kw) > 1 and rng.random() < 0.4:
            kw.reverse()
        if rng.random() < 0.12:
            i = rng.randrange(len(kw))
            good = kw[i][0][1]
            wrong = [w for w in (to_snake(good), good + '_', good.capitalize(), good.lower(), good.upper(), good[:-1],
                                 'selector' if good != 'selector' else 'predicate', 'keySelector' if out[2] != 'toDict' else 'key')
                     if w != good and is_keyword(w) and w not in names]
            if wrong:
                kw[i] = [['kw', rng.choice(wrong)], kw[i][1]]
        out = ['method', out[1], out[2], out[3][:k], kw]
    return out


def program_env(rng, max_depth, p_env=0.3):
    """-> (ast, doc, result type, env): a program that also reads variables the HOST bound in its context chain and passes
    arguments of builtin methods by keyword; env is None for the plain entry `evaluate(data=doc, context=child of the
    library context)`"""
    if rng.random() >= p_env:
        ast, doc, t = program(rng, max_depth, None, True)
        return kwify(ast, rng), doc, t, None
    env = gen_host_env(rng)
    ast, doc, t = program(rng, max_depth, host_scope(env), True)
    return kwify(ast, rng), doc, t, env_plain(env)


def program(rng, max_depth, host_vars=None, mixed_docs=False):
    """-> (ast, doc, result type)"""
    doc, dt = gen_doc(rng, mixed_docs)
    g = Gen(rng, max_depth)
    sc = Scope({'$1': dt}, {})
    if host_vars:
        sc = sc.bind(host_vars)
        sc.fresh = ()
        g.pool.update(host_vars)
        g.host_vars = dict(host_vars)
    d = rng.randint(2, max_depth)
    roll = rng.random()
    if g.host_vars and rng.random() < 0.35:
        return g.host_scenario(sc, min(d, 3)), doc, 'any'
    if roll < 0.30:
        return g.scenario(sc, min(d, 3)), doc, 'any'
    if roll < 0.50:
        n = rng.choice((2, 3))
        return ['list', [g.expr('any', sc, d - 1) for _ in range(n)]], doc, ('list', 'any')
    t = g.some_type()
    return g.expr(t, sc, d), doc, t


# ---------------------------------------------------------------- rendering

RESERVED = {'true', 'false', 'null', 'and', 'or', 'not', 'in'}


def quote(s):
    return "'" + s.replace('\\', '\\\\').replace("'", "\\'") + "'"


def render(e):
    t = e[0]
    if t == 'lit':
        v = e[1]
        if v is None:
            return 'null'
        if v is True:
            return 'true'
        if v is False:
            return 'false'
        if isinstance(v, int):
            if v < 0:
                raise ValueError('negative literal')
            return str(v)
        if isinstance(v, float):
            if not (v >= 0 and repr(v) != '-0.0' and re.match(r'\d+\.\d+\Z', repr(v))):
                raise ValueError('float literal %r' % (v,))
            return repr(v)
        return quote(v)
    if t == 'kw':
        if e[1] in RESERVED:
            raise ValueError('reserved keyword')
        return e[1]
    if t == 'var':
        return e[1]
    if t == 'list':
        return '[' + ', '.join(render(x) for x in e[1]) + ']'
    if t == 'map':
        return '{' + ', '.join('%s => %s' % (render(k), render(v)) for k, v in e[1]) + '}'
    if t == 'index':
        return '%s[%s]' % (atom(e[1]), ', '.join(render(x) for x in e[2]))
    if t == 'un':
        return ('not ' if e[1] == 'not' else '-') + atom(e[2])
    if t == 'bin':
        return '%s %s %s' % (atom(e[2]), BINOPS[e[1]], atom(e[3]))
    if t == 'arrow':
        return '%s -> %s' % (atom(e[1]), atom(e[2]))
    if t == 'member':
        return '%s.%s' % (atom(e[1]), e[2])
    if t == 'call':
        return '%s(%s)' % (e[1], render_args(e[2], e[3]))
    if t == 'method':
        return '%s.%s(%s)' % (atom(e[1]), e[2], render_args(e[3], e[4]))
    raise ValueError(e)


def render_args(args, kw):
    return ', '.join([render(a) for a in args] + ['%s => %s' % (render(k), render(v)) for k, v in kw])


def atom(e):
    s = render(e)
    if e[0] in ('bin', 'un', 'arrow') or (e[0] == 'lit' and isinstance(e[1], (int, float)) and not isinstance(e[1], bool)):
        return '(' + s + ')'
    return s


def from_yaql(node):
    """a yaql parse tree as an AST of the fragment (None if it is outside)"""
    from yaql.language import expressions as ex
    if isinstance(node, ex.Statement):
        return from_yaql(node.expression)
    if isinstance(node, ex.Wrap):
        return from_yaql(node.expr)
    if isinstance(node, ex.KeywordConstant):
        return ['kw', node.value]
    if isinstance(node, ex.Constant):
        return ['lit', node.value]
    if isinstance(node, ex.GetContextValue):
        return ['var', node.path.value]

    def split(args):
        pos, kw = [], []
        for a in args:
            if isinstance(a, ex.MappingRuleExpression):
                kw.append([from_yaql(a.source), from_yaql(a.destination)])
            else:
                pos.append(from_yaql(a))
        return pos, kw
    if isinstance(node, ex.ListExpression):
        return ['list', [from_yaql(a) for a in node.args]]
    if isinstance(node, ex.MapExpression):
        return ['map', split(node.args)[1]]
    if isinstance(node, ex.IndexExpression):
        return ['index', from_yaql(node.args[0]), [from_yaql(a) for a in node.args[1:]]]
    if isinstance(node, ex.UnaryOperator):
        return ['un', {'not': 'not', '-': 'neg'}[node.operator], from_yaql(node.args[0])]
    if isinstance(node, ex.BinaryOperator):
        left, right = node.args
        if node.operator == '.':
            if isinstance(right, ex.KeywordConstant):
                return ['member', from_yaql(left), right.value]
            if type(right) is ex.Function:
                pos, kw = split(right.args)
                return ['method', from_yaql(left), right.name, pos, kw]
            return None
        if node.operator == '->':
            return ['arrow', from_yaql(left), from_yaql(right)]
        return ['bin', OPNAMES[node.operator], from_yaql(left), from_yaql(right)]
    if type(node) is ex.Function:
        pos, kw = split(node.args)
        return ['call', node.name, pos, kw]
    return None


# ---------------------------------------------------------------- structure

def children(e):
    """[(child, path)] - path addresses the child inside e"""
    t = e[0]
    out = []
    if t in ('list',):
        out += [(x, (1, i)) for i, x in enumerate(e[1])]
    elif t == 'map':
        for i, (k, v) in enumerate(e[1]):
            out += [(k, (1, i, 0)), (v, (1, i, 1))]
    elif t == 'index':
        out.append((e[1], (1,)))
        out += [(x, (2, i)) for i, x in enumerate(e[2])]
    elif t == 'un':
        out.append((e[2], (2,)))
    elif t == 'bin':
        out += [(e[2], (2,)), (e[3], (3,))]
    elif t == 'arrow':
        out += [(e[1], (1,)), (e[2], (2,))]
    elif t == 'member':
        out.append((e[1], (1,)))
    elif t == 'call':
        out += [(x, (2, i)) for i, x in enumerate(e[2])]
        for i, (k, v) in enumerate(e[3]):
            out += [(k, (3, i, 0)), (v, (3, i, 1))]
    elif t == 'method':
        out.append((e[1], (1,)))
        out += [(x, (3, i)) for i, x in enumerate(e[3])]
        for i, (k, v) in enumerate(e[4]):
            out += [(k, (4, i, 0)), (v, (4, i, 1))]
    return out


def replace_at(e, path, new):
    if not path:
        return new
    e = list(e)
    e[path[0]] = _replace_in(e[path[0]], path[1:], new)
    return e


def _replace_in(container, path, new):
    if not path:
        return new
    c = list(container)
    if len(path) == 1:
        c[path[0]] = new
        return c
    c[path[0]] = _replace_in(c[path[0]], path[1:], new)
    return c


def size(e):
    return 1 + sum(size(c) for c, _ in children(e))


def depth(e):
    cs = children(e)
    return 1 + (max(depth(c) for c, _ in cs) if cs else 0)


def tags(e):
    """the constructs of the coverage matrix this node is an instance of; lambda bodies are
    reported through `lambda_children`"""
    t = e[0]
    out = []
    if t == 'arrow':
        out.append('->')
    if t == 'call' and e[1] in ('let', 'def', 'with'):
        out.append(e[1])
    if t == 'method' and e[2].rstrip('_') in ('unpack', 'select', 'where'):
        out.append(e[2].rstrip('_'))
    if t == 'map' or (t == 'call' and e[1] == 'dict'):
        out.append('dict')
    if t == 'list' or (t == 'call' and e[1] == 'list'):
        out.append('list')
    if t == 'index':
        out.append('index')
    if t == 'member':
        out.append('member')
    return out


def lambda_children(e):
    """indices (as paths) of the children that are lambda bodies"""
    if e[0] == 'method' and e[2].rstrip('_') in LAMBDA_FUNCS:
        n = 1 if e[2] not in ('toDict',) else 2
        return {(3, i) for i in range(min(n, len(e[3])))}
    if e[0] == 'call' and e[1] in ('any', 'all') and len(e[2]) == 2:
        return {(2, 1)}
    if e[0] == 'call' and e[1] == 'def' and len(e[2]) == 2:
        return {(2, 1)}
    return set()


def nesting_pairs(e, above=frozenset(), out=None):
    """set of (outer construct, inner construct) over all ancestor/descendant pairs"""
    if out is None:
        out = set()
    mine = tags(e)
    for o in above:
        for i in mine:
            out.add((o, i))
    lam = lambda_children(e)
    for c, path in children(e):
        extra = set(mine)
        if path in lam:
            for o in above | set(mine):
                out.add((o, 'lambda'))
            extra.add('lambda')
        nesting_pairs(c, above | extra, out)
    return out


def constructs(e, out=None):
    if out is None:
        out = {}
    key = e[0] if e[0] not in ('call', 'method') else '%s:%s' % (e[0], e[1] if e[0] == 'call' else e[2])
    if e[0] == 'bin':
        key = 'bin:' + e[1]
    out[key] = out.get(key, 0) + 1
    for c, _ in children(e):
        constructs(c, out)
    return out


def name_class(n):
    """what about a name a normalisation could rewrite"""
    out = []
    core = n.rstrip('_')
    if n != core:
        out.append('trailing-underscore')
    if n.startswith('_'):
        out.append('leading-underscore')
    if re.search(r'(?!^)_\w', core):
        out.append('inner-underscore')
    if '__' in core:
        out.append('double-underscore')
    if any(c.isupper() for c in n):
        out.append('upper-case')
    if any(c.isdigit() for c in n):
        out.append('digit')
    if core in LAMBDA_FUNCS or core in ('let', 'len', 'select', 'def', 'with', 'dict', 'list'):
        out.append('function-name')
    if not is_keyword(n):
        out.append('no-keyword')
    if n in HOST_NAMES:
        out.append('host-vocabulary')
    return out or ['plain']


def name_classes(e, out=None):
    """classes of the names a program binds / reads / defines / uses as keys: ['var:inner-underscore', ..] (set)"""
    if out is None:
        out = set()
    t = e[0]
    if t == 'var':
        n = e[1][1:]
        if not n.isdigit() and n:
            out.update('var:' + c for c in name_class(n))
    elif t == 'member':
        out.update('key:' + c for c in name_class(e[2]))
    elif t == 'map':
        for k, _ in e[1]:
            if k[0] == 'kw':
                out.update('key:' + c for c in name_class(k[1]))
    elif t in ('call', 'method'):
        f, args, kw = (e[1], e[2], e[3]) if t == 'call' else (e[2], e[3], e[4])
        core = f.rstrip('_')
        for k, _ in kw:
            if k[0] == 'kw':
                out.update(('key:' if core == 'dict' else 'kwarg:') + c for c in name_class(k[1]))
        if core == 'def' and args and args[0][0] in ('kw', 'lit') and isinstance(args[0][1], str):
            out.update('def:' + c for c in name_class(args[0][1]))
        elif core == 'unpack':
            for a in args:
                if a[0] in ('kw', 'lit') and isinstance(a[1], str):
                    out.update('unpack:' + c for c in name_class(a[1]))
        elif f != core:
            out.add('call:trailing-underscore')
    for c, _ in children(e):
        name_classes(c, out)
    return out


def value_classes(e, doc):
    """which of the equal-but-differently-typed value situations a program (with its document) contains (set)"""
    out = set()

    def scalars(v, acc):
        if isinstance(v, dict):
            for x in v.values():
                scalars(x, acc)
        elif isinstance(v, (tuple, list)):
            for x in v:
                scalars(x, acc)
        else:
            acc.append(v)
        return acc

    def mixed(vals):
        vals = [v for v in vals if isinstance(v, (bool, int, float))]
        return any(a == b and type(a) is not type(b) for i, a in enumerate(vals) for b in vals[i + 1:])
    leaves = scalars(doc, [])
    if any(isinstance(v, float) for v in leaves):
        out.add('float in the document')
    if any(isinstance(v, float) and repr(v) == '-0.0' for v in leaves):
        out.add('-0.0 in the document')
    if mixed(leaves):
        out.add('equal values of different types in the document')
    calls = {}

    def lits_of(x, acc):
        if x[0] == 'lit':
            acc.append(x[1])
        for c, _ in children(x):
            lits_of(c, acc)
        return acc

    def walk(x):
        if x[0] == 'lit' and isinstance(x[1], float):
            out.add('float literal')
        if x[0] == 'un' and x[1] == 'neg' and x[2] == ['lit', 0.0] and isinstance(x[2][1], float):
            out.add('-0.0 literal')
        if x[0] == 'list' and mixed([c[1] for c in x[1] if c[0] == 'lit']):
            out.add('equal values of different types side by side in a list')
        if x[0] == 'call' and fn_core(x[1]) not in _BUILTIN_NAMES:
            calls.setdefault(fn_core(x[1]), []).append(lits_of(['list', x[2] + [v for _, v in x[3]]], []))
        for c, _ in children(x):
            walk(c)
    walk(e)
    for f, argl in calls.items():
        if len(argl) > 1:
            out.add('a def-ined function called several times')
            flat = [tuple(a) for a in argl]
            if any(mixed([a, b]) for x in argl for y in argl if x is not y for a in x for b in y):
                out.add('... with equal arguments of different types')
            if len(set(map(repr, flat))) < len(flat):
                out.add('... twice with the same arguments')
    return out


_BUILTIN_NAMES = ('let', 'with', 'def', 'list', 'dict', 'len', 'any', 'all')


def fn_core(name):
    return name.rstrip('_')


def shrink_candidates(e):
    """smaller programs: a subterm replaced by a literal or by one of its own subterms"""
    out = []

    def walk(node, path):
        if node[0] not in ('lit', 'kw'):
            for lit in (['lit', 0], ['lit', None], ['list', []]):
                out.append(replace_at(e, path, lit))
            for c, _ in children(node):
                out.append(replace_at(e, path, c))
        if node[0] == 'list' and len(node[1]) > 1:
            for i in range(len(node[1])):
                out.append(replace_at(e, path, ['list', node[1][:i] + node[1][i + 1:]]))
        for c, p in children(node):
            walk(c, path + p)
    walk(e, ())
    out.sort(key=size)
    return out


def map_lits(e, f):
    """the AST with every literal value passed through f (wire encoding / decoding)"""
    t = e[0]
    if t == 'lit':
        return ['lit', f(e[1])]
    if t in ('kw', 'var'):
        return list(e)
    out = list(e)
    for c, path in children(e):
        out = replace_at(out, path, map_lits(c, f))
    return out
