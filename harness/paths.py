"""Equivalent ways for a host to run one expression on one document.

A property about what an expression MEANS must hold whichever public path the host takes to evaluate it.  `evaluate`
picks one of the paths below from a hash of (text, salt) - so a case always takes the same path and replays exactly -
and runs `text` with `data` bound to `$`:

  plain      engine(text).evaluate(data=data, context=child)
  reuse      the same Statement object evaluated before on another document (statement reuse), then on `data`
  copy       engine.copy(own options)(text): an engine derived from the one that may have parsed the text already
  percall    engine(text, options=own options)
  ctxdata    yaql.create_context-style: the document is bound by the host (`context['$'] = convert_input_data(data)`,
             what Statement.evaluate does) on a child context, then evaluate(context=that child)
  createctx  `ctx = yaql.create_context(data=data)` - the PUBLIC way to bind a document: `$` then lives in the ROOT of a
             library context made for this one evaluation, below the layers of the standard library - and
             `evaluate(context=ctx)` (or a child of it) without data; only when a check names it in `allow` (a context is
             built per evaluation, ~5 ms; the functions of `root` that the host registered itself are not in it)
  iface      YaqlInterface(child, engine)(text') with the document as the first positional argument; `$` in the text
             is spelled `$1` there - only used when the text allows that rewriting (see `iface_text`) and only when a
             check names it in `allow` (it is not among the default paths)

Checks call `paths.evaluate(engine, root, text, data)` instead of `engine(text).evaluate(..)`; the statistics of the paths
taken go into the evidence (`paths.HIST`)."""
import re
import zlib

HIST = {}
_PARSED = {}
_DECOY = {}


def _perturb(v):
    if isinstance(v, bool) or v is None:
        return v
    if isinstance(v, int):
        return v + 3
    if isinstance(v, str):
        return v + 'x'
    if isinstance(v, (list, tuple)):
        return type(v)(_perturb(x) for x in v)
    if isinstance(v, dict):
        return {k: _perturb(x) for k, x in v.items()}
    return v


def pick(text, salt=0, allow=('plain', 'plain', 'reuse', 'copy', 'percall', 'ctxdata')):
    return allow[(zlib.crc32(text.encode('utf8', 'replace')) + salt) % len(allow)]


def iface_text(text):
    """`text` with `$` spelled `$1` (the same variable: the context normalises `$` to `$1`), or None when the text
    holds a string literal (a `$` inside one must stay)"""
    if "'" in text or '"' in text or '`' in text:
        return None
    return re.sub(r'\$(?![A-Za-z0-9_])', '$1', text)


def evaluate(engine, root, text, data, salt=0, allow=None, statement_cache=None):
    """-> the finalised result (exceptions propagate)"""
    from yaql.language import utils
    how = pick(text, salt, allow) if allow else pick(text, salt)
    HIST[how] = HIST.get(how, 0) + 1
    cache = _PARSED if statement_cache is None else statement_cache
    ctx = root.create_child_context()
    if how in ('plain', 'reuse', 'ctxdata'):
        st = cache.get((id(engine), text))
        if st is None:
            st = engine(text)
            if len(cache) < 50000:
                cache[(id(engine), text)] = st
        if how == 'reuse':
            try:
                st.evaluate(data=_perturb(data) if not hasattr(data, '__next__') else None,
                            context=root.create_child_context())
            except Exception:       # noqa - the other document need not fit the expression
                pass
        if how == 'ctxdata' and not hasattr(data, '__next__'):
            if engine.options.get('yaql.convertInputData', True):
                ctx['$'] = utils.convert_input_data(data)
            else:
                ctx['$'] = data
            return st.evaluate(context=ctx)
        return st.evaluate(data=data, context=ctx)
    if how == 'createctx':
        import yaql
        if hasattr(data, '__next__') or not engine.options.get('yaql.convertInputData', True):
            return engine(text).evaluate(data=data, context=ctx)       # (create_context always converts its data)
        bound = yaql.create_context(data=data)
        return engine(text).evaluate(context=bound if (zlib.crc32(text.encode('utf8', 'replace')) + salt) % 2 else
                                     bound.create_child_context())
    if how == 'iface':
        # the interface converts its arguments and its result whatever the engine's options say: the same meaning only
        # for an engine with both conversions on - otherwise (or when the text cannot be respelled) the plain path
        from yaql import yaql_interface
        t1 = iface_text(text)
        o = engine.options
        if t1 is None or hasattr(data, '__next__') or not (o.get('yaql.convertInputData', True) and o.get('yaql.convertOutputData', True)):
            return engine(text).evaluate(data=data, context=ctx)
        return yaql_interface.YaqlInterface(ctx, engine)(t1, data)
    opts = dict(engine.options) or {'yaql.convertInputData': True}
    if how == 'copy':
        try:
            engine(text)                # the base engine has seen the text
        except Exception:               # noqa
            pass
        return engine.copy(opts)(text).evaluate(data=data, context=ctx)
    return engine(text, options=opts).evaluate(data=data, context=ctx)


# ---- naming conventions: several in one process, any creation order ---------------------------------------------------
#
# A context translates python names into the names expressions use with ITS naming convention (CamelCaseConvention by
# default, PythonConvention, or none).  The translated names are written into definition objects when a context
# registers the library, so what a context of one convention promises must not depend on which other contexts were
# created before it in the same process.  A check that wants this dimension
#   * runs its cases in worker processes whose FIRST action is `create_roots(order)` for one of `CONV_ORDERS` (a
#     process can only have one "first": one pool per order, e.g. multiprocessing Pool(initializer=...)),
#   * evaluates a case written with the documented (camelCase) names in the root of convention `conv` after
#     `respell(text, conv, naming_table(..))`: function / method names (a word in front of `(`) and keyword-argument
#     names (a word in front of `=>`) as that convention promises them - the promise is computed from the SOURCE TEXT of
#     the decorators by the transcription in gens/registry.py, never read from the definitions under test.

CONV_ORDERS = (('camel', 'python'), ('python', 'camel'), ('none', 'camel', 'python'), ('python', 'none', 'camel', 'python'))
CONV_HIST = {}


def make_context(conv):
    import gens.registry as greg
    return greg.make_context(conv)


def create_roots(order):
    """one root context per entry of `order`, created in this order, all kept alive -> {convention: the LAST root
    created with it} (key '__all__': every root, in creation order)"""
    roots, every = {}, []
    for conv in order:
        r = make_context(conv)
        every.append(r)
        roots[conv] = r
    roots['__all__'] = every
    return roots


_TABLE = {}


def naming_table(root=None):
    """-> dict(functions={documented name: {convention: set of promised names}}, keywords={..same for keyword names..},
    by_payload={(module, python name): {convention: promised function name}}) over every definition of the standard
    library; 'camel' is the documented spelling the texts of the checks are written in"""
    if _TABLE:
        return _TABLE
    import gens.registry as greg
    root = root if root is not None else make_context('camel')
    fn, kw, byp = {}, {}, {}
    for _, name, fd in greg.all_definitions(root):
        d = greg.declared(fd.payload)
        orig = getattr(fd.payload, '__yaql_function__', None)
        decl_name = d['name'] if d is not None and not d['dyn'] else (orig.name if orig is not None else None)
        reg_as = name if d is not None and name in d['reg_names'] else None
        names = {c: greg.promised_name(c, reg_as, decl_name, fd.payload.__name__) for c in ('camel', 'python')}
        e = fn.setdefault(names['camel'], {'camel': set(), 'python': set()})
        for c in names:
            e[c].add(names[c])
        byp[(fd.payload.__module__, fd.payload.__name__)] = names
        for k, p in fd.parameters.items():
            if k in ('*', '**'):
                continue
            da = greg.declared_alias(fd, p)
            ks = {c: greg.promised_kw(c, da, p.name) for c in ('camel', 'python')}
            e = kw.setdefault(ks['camel'], {'camel': set(), 'python': set()})
            for c in ks:
                e[c].add(ks[c])
    _TABLE.update(functions=fn, keywords=kw, by_payload=byp)
    return _TABLE


_WORD_CALL = re.compile(r'(?<![\w$#])([^\W\d]\w*)(?=\()')
_WORD_KW = re.compile(r'(?<![\w$#.])([^\W\d]\w*)(?=\s*=>)')


def respell(text, conv, table=None, overrides=None):
    """`text` (documented camelCase names) as a context of convention `conv` promises to understand it.  A name with
    several promised spellings (overloads registered under different names) must be settled by `overrides`
    ({documented name: spelling}); names the table does not know are left as written."""
    if conv == 'camel':
        return text
    table = table or naming_table()
    overrides = overrides or {}

    def sub(kind):
        def f(m):
            w = m.group(1)
            if w in overrides:
                return overrides[w]
            e = table[kind].get(w)
            if e is None:
                return w
            if len(e[conv]) != 1:
                raise ValueError('%r has several spellings under %s: %s' % (w, conv, sorted(e[conv])))
            return next(iter(e[conv]))
        return f
    return _WORD_KW.sub(sub('keywords'), _WORD_CALL.sub(sub('functions'), text))


def _table_job():
    t = naming_table()
    return dict(t)


def naming_table_in_child():
    """computes `naming_table()` in a forked child (so that THIS process creates no context) and installs it here"""
    if not _TABLE:
        import multiprocessing
        with multiprocessing.get_context('fork').Pool(1) as pool:
            _TABLE.update(pool.apply(_table_job))
    return _TABLE
