"""Equivalent ways for a host to run one expression on one document.

A property about what an expression MEANS must hold whichever public path the host takes to evaluate it.  `evaluate`
picks one of the paths below from a hash of (text, salt) - so a case always takes the same path and replays exactly -
and runs `text` with `data` bound to `$`:

  plain      engine(text).evaluate(data=data, context=child)
  reuse      the same Statement object evaluated before on another document (statement reuse), then on `data`
  copy       engine.copy(own options)(text): an engine derived from the one that may have parsed the text already
  percall    engine(text, options=own options)
  ctxdata    yaql.create_context-style: the document is bound by the host (`context['$'] = convert_input_data(data)`,
             what Statement.evaluate does) on a child context, then evaluate(context=that child)
  createctx  `ctx = yaql.create_context(data=data)` - the PUBLIC way to bind a document: `$` then lives in the ROOT of a
             library context made for this one evaluation, below the layers of the standard library - and
             `evaluate(context=ctx)` (or a child of it) without data; only when a check names it in `allow` (a context is
             built per evaluation, ~5 ms; the functions of `root` that the host registered itself are not in it)
  iface      YaqlInterface(child, engine)(text') with the document as the first positional argument; `$` in the text
             is spelled `$1` there - only used when the text allows that rewriting (see `iface_text`) and only when a
             check names it in `allow` (it is not among the default paths)

Checks call `paths.evaluate(engine, root, text, data)` instead of `engine(text).evaluate(..)`; the statistics of the paths
taken go into the evidence (`paths.HIST`)."""
import re
import zlib

HIST = {}
_PARSED = {}
_DECOY = {}


def _perturb(v):
    if isinstance(v, bool) or v is None:
        return v
    if isinstance(v, int):
        return v + 3
    if isinstance(v, str):
        return v + 'x'
    if isinstance(v, (list, tuple)):
        return type(v)(_perturb(x) for x in v)
    if isinstance(v, dict):
        return {k: _perturb(x) for k, x in v.items()}
    return v


def pick(text, salt=0, allow=('plain', 'plain', 'reuse', 'copy', 'percall', 'ctxdata')):
    return allow[(zlib.crc32(text.encode('utf8', 'replace')) + salt) % len(allow)]


def iface_text(text):
    """`text` with `$` spelled `$1` (the same variable: the context normalises `$` to `$1`), or None when the text
    holds a string literal (a `$` inside one must stay)"""
    if "'" in text or '"' in text or '`' in text:
        return None
    return re.sub(r'\$(?![A-Za-z0-9_])', '$1', text)


def evaluate(engine, root, text, data, salt=0, allow=None, statement_cache=None):
    """-> the finalised result (exceptions propagate)"""
    from yaql.language import utils
    how = pick(text, salt, allow) if allow else pick(text, salt)
    HIST[how] = HIST.get(how, 0) + 1
    cache = _PARSED if statement_cache is None else statement_cache
    ctx = root.create_child_context()
    if how in ('plain', 'reuse', 'ctxdata'):
        st = cache.get((id(engine), text))
        if st is None:
            st = engine(text)
            if len(cache) < 50000:
                cache[(id(engine), text)] = st
        if how == 'reuse':
            try:
                st.evaluate(data=_perturb(data) if not hasattr(data, '__next__') else None,
                            context=root.create_child_context())
            except Exception:       # noqa - the other document need not fit the expression
                pass
        if how == 'ctxdata' and not hasattr(data, '__next__'):
            if engine.options.get('yaql.convertInputData', True):
                ctx['$'] = utils.convert_input_data(data)
            else:
                ctx['$'] = data
            return st.evaluate(context=ctx)
        return st.evaluate(data=data, context=ctx)
    if how == 'createctx':
        import yaql
        if hasattr(data, '__next__') or not engine.options.get('yaql.convertInputData', True):
            return engine(text).evaluate(data=data, context=ctx)       # (create_context always converts its data)
        bound = yaql.create_context(data=data)
        return engine(text).evaluate(context=bound if (zlib.crc32(text.encode('utf8', 'replace')) + salt) % 2 else
                                     bound.create_child_context())
    if how == 'iface':
        # the interface converts its arguments and its result whatever the engine's options say: the same meaning only
        # for an engine with both conversions on - otherwise (or when the text cannot be respelled) the plain path
        from yaql import yaql_interface
        t1 = iface_text(text)
        o = engine.options
        if t1 is None or hasattr(data, '__next__') or not (o.get('yaql.convertInputData', True) and o.get('yaql.convertOutputData', True)):
            return engine(text).evaluate(data=data, context=ctx)
        return yaql_interface.YaqlInterface(ctx, engine)(t1, data)
    opts = dict(engine.options) or {'yaql.convertInputData': True}
    if how == 'copy':
        try:
            engine(text)                # the base engine has seen the text
        except Exception:               # noqa
            pass
        return engine.copy(opts)(text).evaluate(data=data, context=ctx)
    return engine(text, options=opts).evaluate(data=data, context=ctx)
