"""usage: adopt_seed.py <src dir with patch.diff demo.py meta.json> <name> [check ids...]
Confirms a seeded change (suite passes with it, demo fails with it and passes without), runs the
checks against it, and stores everything under /verif/seeded/<name>/ with the results in meta.json."""
import json
import os
import shutil
import subprocess
import sys

ROOT = os.path.dirname(os.path.dirname(os.path.abspath(__file__)))


def main():
    src, name = sys.argv[1], sys.argv[2]
    checks = sys.argv[3:]
    r = subprocess.run(['/venv/bin/python', os.path.join(ROOT, 'harness', 'seedtest.py'), '--confirm', src] + checks,
                       stdout=subprocess.PIPE, text=True)
    out = json.loads(r.stdout)
    ok = out.get('tests', '').startswith('366 passed') and out.get('demo_pristine_rc') == 0 and out.get('demo_patched_rc') == 1
    meta = json.load(open(os.path.join(src, 'meta.json')))
    meta['confirmed'] = dict(
        suite_with_change=out.get('tests'), demo_rc_pristine=out.get('demo_pristine_rc'),
        demo_rc_with_change=out.get('demo_patched_rc'), demo_output=out.get('demo_patched_out', '')[-300:],
        ran='harness/seedtest.py --confirm (scratch worktree of /repo HEAD, git apply, pytest yaql/tests, demo.py, '
            'YAQL_REPO=<scratch> ./check <id> --tier quick)')
    meta['checks'] = {c: dict(caught=(v['rc'] == 1), verdict=[l for l in v['lines'] if l.startswith('VIOLATION')][:1],
                              what=v.get('what', '')) for c, v in out['checks'].items()}
    if not ok:
        print('NOT CONFIRMED', json.dumps(out, indent=1)[:1500])
        sys.exit(1)
    dst = os.path.join(ROOT, 'seeded', name)
    os.makedirs(dst, exist_ok=True)
    for f in ('patch.diff', 'demo.py'):
        shutil.copy(os.path.join(src, f), os.path.join(dst, f))
    json.dump(meta, open(os.path.join(dst, 'meta.json'), 'w'), indent=1)
    print(name, 'confirmed;', {c: v['caught'] for c, v in meta['checks'].items()})
    for c, v in out['checks'].items():
        if v['rc'] not in (0, 1):
            print('  !! check %s ended with rc=%s (harness error / timeout, not a verdict): %s' % (c, v['rc'], v['lines'][-2:]))


if __name__ == '__main__':
    main()
