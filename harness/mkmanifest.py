"""Regenerates MANIFEST.json from the per-property harness modules."""
import importlib
import json
import os
import sys

sys.path.insert(0, os.path.dirname(os.path.abspath(__file__)))
import common  # noqa

# properties whose check exists but is temporarily not claimed (reason shown in not_applicable)
PENDING = {}


def main():
    checks, na = [], []
    for i in range(1, 21):
        pid = 'C%02d' % i
        path = os.path.join(common.ROOT, 'harness', 'props', pid.lower() + '.py')
        if not os.path.exists(path) or pid in PENDING:
            na.append(dict(property_id=pid, reason=PENDING.get(pid, 'check not built yet (work in progress; see DESIGN.md section 5)')))
            continue
        mod = importlib.import_module('props.' + pid.lower())
        if getattr(mod, 'NOT_READY', None):
            na.append(dict(property_id=pid, reason=mod.NOT_READY))
            continue
        technique = getattr(mod, 'TECHNIQUE', 'Lean 4 proof + correspondence check')
        note = mod.LEVEL_NOTE
        try:
            import srcobl
            src = srcobl.theorems(pid)
        except Exception:      # noqa
            src = []
        if src:
            technique += (' + source-equivalence theorems (%d function bodies re-translated from /repo into Lean on every run '
                          'by harness/py2lean.py, each proved equal to the model function for all inputs)' % len(src))
            note += ('  Source tie: %d theorems `<name>_src_eq` (Props/Src*.lean) over definitions regenerated from the current '
                     'source; trusted: the translator and the Python primitives of Model/PyPrelude.lean etc., validated on every '
                     'run by a source-level differential (real function vs translation vs model expression).' % len(src))
        checks.append(dict(
            property_id=pid,
            quick_cmd='./check %s --tier quick' % pid,
            thorough_cmd='./check %s --tier thorough' % pid,
            evidence_file='evidence/%s.json' % pid,
            replay_cmd_template='./check %s --replay {path}' % pid,
            engine='lean4-model',
            level_claimed=dict(category='proof', text=mod.LEVEL_TEXT, design_ref=getattr(mod, 'DESIGN_REF', 'DESIGN.md section 5')),
            level_note=note,
            technique=technique,
        ))
    m = dict(
        version=1,
        setup_cmd='sh setup.sh',
        hooks=dict(guard='YAQL_VERIF', enable='no source hooks: probes are installed by the harness at run time (class-level patches)',
                   baseline_off_cmd='cd /repo && /venv/bin/python -m pytest -q -p no:cacheprovider --timeout=900',
                   source_commits=[], add_only=True),
        engines=[dict(name='lean4-model', path='lean/', serves_properties=[c['property_id'] for c in checks],
                      kind_free_text='Lean 4 model + theorems (lake project), compiled line-protocol driver, '
                                     'Python correspondence harness under harness/')],
        checks=checks,
        notes='Every check: regenerate Gen tables and translated function bodies (Gen/Src*.lean) from /repo, lake build the property theorems, #print axioms audit, '
              'run the correspondence between the compiled Lean model and the real code, search for a failing input '
              'when anything broke. Fix commits in /repo are listed in known_findings.json.',
        not_applicable=na,
    )
    json.dump(m, open(os.path.join(common.ROOT, 'MANIFEST.json'), 'w'), indent=1)
    print('checks:', [c['property_id'] for c in checks], 'n/a:', len(na))


if __name__ == '__main__':
    main()
