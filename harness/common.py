"""Shared plumbing for every check: lake build (locked), axiom audit, the
model driver, evidence, violations/replays, known findings.

Run with /venv/bin/python (yaql is installed there in develop mode from /repo,
so the working tree is what runs)."""
import fcntl
import hashlib
import json
import os
import random
import re
import subprocess
import sys
import time
import warnings

warnings.filterwarnings('ignore')

ROOT = os.path.dirname(os.path.dirname(os.path.abspath(__file__)))
LEAN = os.path.join(ROOT, 'lean')
REPO = os.environ.get('YAQL_REPO', '/repo')   # development: point the checks at a scratch worktree
if REPO != '/repo':
    sys.path.insert(0, REPO)
DRIVER = os.path.join(LEAN, '.lake', 'build', 'bin', 'yaqlmodel')
ALLOWED_AXIOMS = {'propext', 'Classical.choice', 'Quot.sound'}
FORBIDDEN_RE = re.compile(
    r'\bsorry\b|\badmit\b|^axiom |native_decide|bv_decide|implemented_by|'
    r'\bunsafe |maxHeartbeats 0', re.M)


def log(*a):
    print(*a, file=sys.stderr, flush=True)


# ---------------------------------------------------------------- lake / lean

class _Lock:
    def __enter__(self):
        self.f = open(os.path.join(LEAN, '.build.lock'), 'w')
        fcntl.flock(self.f, fcntl.LOCK_EX)

    def __exit__(self, *a):
        fcntl.flock(self.f, fcntl.LOCK_UN)
        self.f.close()


def lake_build(targets, timeout=3000):
    """Build the given lake targets.  Returns (ok, output)."""
    import gendriver
    with _Lock():
        gendriver.main()
        try:
            p = subprocess.run(['lake', 'build'] + list(targets), cwd=LEAN,
                               stdout=subprocess.PIPE, stderr=subprocess.STDOUT,
                               text=True, timeout=timeout)
        except subprocess.TimeoutExpired as e:
            return False, 'lake build timed out: %s' % e
    return p.returncode == 0, p.stdout


def write_if_changed(path, text):
    try:
        if open(path).read() == text:
            return False
    except OSError:
        pass
    os.makedirs(os.path.dirname(path), exist_ok=True)
    tmp = path + '.tmp%d' % os.getpid()
    open(tmp, 'w').write(text)
    os.replace(tmp, path)
    return True


def strip_comments(src):
    # block comments (nesting ignored: the project does not nest them) and line comments
    src = re.sub(r'/-.*?-/', '', src, flags=re.S)
    src = re.sub(r'--.*', '', src)
    return src


def theorems_of(module):
    """[(namespace-qualified name)] of the theorems declared in a Props module."""
    path = os.path.join(LEAN, *module.split('.')) + '.lean'
    src = strip_comments(open(path).read())
    ns = []
    out = []
    for m in re.finditer(r'^(namespace|end|theorem|private theorem|protected theorem)[ \t]+(\S+)', src, re.M):
        kw, name = m.group(1), m.group(2)
        if kw == 'namespace':
            ns.append(name)
        elif kw == 'end':
            if ns and ns[-1] == name:
                ns.pop()
        else:
            out.append('.'.join(ns + [name]))
    return out


def forbidden_tokens(modules):
    """grep the sources of the given modules (and their project-local imports) for
    sorry/admit/axiom/native_decide/... outside comments."""
    seen, todo, hits = set(), list(modules), []
    while todo:
        m = todo.pop()
        if m in seen:
            continue
        seen.add(m)
        path = os.path.join(LEAN, *m.split('.')) + '.lean'
        if not os.path.exists(path):
            continue
        raw = open(path).read()
        src = strip_comments(raw)
        for h in FORBIDDEN_RE.finditer(src):
            hits.append('%s: %s' % (m, h.group(0).strip()))
        for imp in re.findall(r'^import\s+(Yaql\.\S+)', raw, re.M):
            todo.append(imp)
    return hits, sorted(seen)


def audit(prop_id, modules):
    """#print axioms for every theorem of the property's Props modules.
    Returns dict(theorems={name: [axioms]|None}, bad=[...], forbidden=[...])."""
    names = []
    for m in modules:
        names += theorems_of(m)
    lines = ['import %s' % m for m in modules]
    lines += ['#print axioms %s' % n for n in names]
    rel = os.path.join('Yaql', 'Audit', prop_id + '.lean')
    write_if_changed(os.path.join(LEAN, rel), '\n'.join(lines) + '\n')
    p = subprocess.run(['lake', 'env', 'lean', rel], cwd=LEAN, stdout=subprocess.PIPE,
                       stderr=subprocess.STDOUT, text=True, timeout=1800)
    out = p.stdout
    res = {n: None for n in names}
    for m in re.finditer(r"^'([^\n]+?)' depends on axioms: \[([^\]]*)\]", out, re.M):
        res[m.group(1)] = [a.strip() for a in m.group(2).replace('\n', ' ').split(',') if a.strip()]
    for m in re.finditer(r"^'([^\n]+?)' does not depend on any axioms", out, re.M):
        res[m.group(1)] = []
    bad = []
    for n, ax in res.items():
        if ax is None:
            bad.append('%s: not checked (%s)' % (n, 'lean failed' if p.returncode else 'no output'))
        elif not set(ax) <= ALLOWED_AXIOMS:
            bad.append('%s: axioms %s' % (n, ax))
    forb, srcs = forbidden_tokens(modules)
    return dict(theorems=res, bad=bad, forbidden=forb, sources=srcs,
                lean_rc=p.returncode, lean_out=out[-4000:] if p.returncode else '')


class Driver:
    """The compiled Lean model behind a JSON line protocol."""

    def __init__(self):
        self.p = subprocess.Popen([DRIVER], stdin=subprocess.PIPE, stdout=subprocess.PIPE,
                                  text=True, bufsize=1)
        self.n = 0

    def ask(self, req):
        self.p.stdin.write(json.dumps(req, ensure_ascii=True, separators=(',', ':')) + '\n')
        self.p.stdin.flush()
        line = self.p.stdout.readline()
        if not line:
            raise RuntimeError('model driver died on request %r' % (req,))
        self.n += 1
        return json.loads(line)

    def close(self):
        try:
            self.p.stdin.close()
            self.p.wait(timeout=5)
        except Exception:
            self.p.kill()


# ---------------------------------------------------------------- results

class Failure:
    """kind: 'oracle'   - the property's own oracle fails on the real code (a failing input)
             'mismatch' - model and implementation disagree (the tie is broken)
       key:  short stable signature used for known-finding matching
       replay: JSON-able description sufficient to re-run the case"""

    def __init__(self, kind, key, what, replay):
        self.kind, self.key, self.what, self.replay = kind, key, what, replay


class Result:
    def __init__(self):
        self.evaluations = 0
        self.distinct = set()
        self.rule = ''
        self.samples = []
        self.traces = 0
        self.failures = []
        self.extra = {}
        self.assumptions = []

    def case(self, sig, nontrivial=True, sample=None):
        self.evaluations += 1
        if nontrivial:
            self.distinct.add(sig if isinstance(sig, (str, int)) else digest(sig))
        if sample is not None and len(self.samples) < 6:
            self.samples.append(sample)

    def fail(self, kind, key, what, replay):
        if len(self.failures) < 50:
            self.failures.append(Failure(kind, key, what, replay))


def digest(obj):
    return hashlib.sha1(json.dumps(obj, sort_keys=True, default=repr).encode()).hexdigest()[:12]


def known_findings():
    try:
        return json.load(open(os.path.join(ROOT, 'known_findings.json')))['findings']
    except OSError:
        return []


def repo_dirty():
    p = subprocess.run(['git', '-C', REPO, 'status', '--porcelain'], stdout=subprocess.PIPE, text=True)
    return p.stdout.strip()


def make_rng(seed, salt=''):
    return random.Random('%s/%s' % (seed, salt))
