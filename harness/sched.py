"""Deterministic scheduler for real Python threads.

Threads block at *scheduling points* (a call of `point()` made from code patched in by the harness)
and are released one at a time by the controller according to a schedule (a list of thread indices).
A released thread runs until its next scheduling point or until it finishes, so the interleaving of
the instrumented operations is exactly the schedule."""
import threading


class Scheduler:
    def __init__(self, bodies, timeout=20.0):
        self.n = len(bodies)
        self.bodies = bodies
        self.go = [threading.Semaphore(0) for _ in bodies]
        self.arrived = [threading.Semaphore(0) for _ in bodies]
        self.finished = [False] * self.n
        self.results = [None] * self.n
        self.steps = [0] * self.n
        self.local = threading.local()
        self.timeout = timeout
        self.threads = []
        self.hung = False

    # called from instrumented code, in any thread
    def point(self):
        i = getattr(self.local, 'i', None)
        if i is None:
            return                      # not one of ours: run freely
        self.arrived[i].release()
        self.go[i].acquire()

    def _body(self, i):
        self.local.i = i
        self.arrived[i].release()       # initial scheduling point (before the operation starts)
        self.go[i].acquire()
        try:
            self.results[i] = ('ret', self.bodies[i]())
        except BaseException as e:      # noqa
            self.results[i] = ('raise', type(e).__name__, str(e))
        self.finished[i] = True
        self.arrived[i].release()

    def run(self, schedule):
        self.threads = [threading.Thread(target=self._body, args=(i,), daemon=True) for i in range(self.n)]
        for t in self.threads:
            t.start()
        for i in range(self.n):
            if not self.arrived[i].acquire(timeout=self.timeout):
                self.hung = True
                return self.results
        trace = []
        order = list(schedule)
        k = 0
        # follow the schedule, then finish everybody round-robin
        while not all(self.finished):
            if k < len(order):
                i = order[k]
                k += 1
                if i >= self.n or self.finished[i]:
                    continue
            else:
                i = next(j for j in range(self.n) if not self.finished[j])
            trace.append(i)
            self.steps[i] += 1
            self.go[i].release()
            if not self.arrived[i].acquire(timeout=self.timeout):
                self.hung = True
                break
        self.trace = trace
        return self.results


def interleavings(counts):
    """all interleavings of threads with the given step counts (lists of thread indices)"""
    n = len(counts)

    def rec(rem):
        if not any(rem):
            yield []
            return
        for i in range(n):
            if rem[i]:
                rem[i] -= 1
                for rest in rec(rem):
                    yield [i] + rest
                rem[i] += 1
    return rec(list(counts))
