"""C11 helper: how a call is SPELLED - which arguments are written positionally and which by keyword, under which
naming convention - read from live contexts (the way gens/registry.py reads them: `p.alias or p.name` of the
definition registered in a context of that convention; the name the definition has there).

The probe log of a call does not depend on its spelling, with one documented exception: eagerly evaluated keyword
arguments are evaluated after the positional ones, in source order.  A lazily evaluated parameter stays lazy
whether its argument arrives in its positional slot or under its keyword name, whatever the convention."""
import re

import yaql
from yaql.language import conventions, specs, yaqltypes

from gens import registry as greg

CONVS = ('camel', 'python')


def make_root(conv):
    if conv == 'camel':
        return yaql.create_context()
    return yaql.create_context(convention=conventions.PythonConvention())


def _ident(fd):
    f = fd.payload
    return (getattr(f, '__module__', None), getattr(f, '__qualname__', getattr(f, '__name__', None)))


def visible(fd):
    """the parameters a caller can address, in positional order (keyword-only ones behind), without `*` / `**`"""
    ps = [(k, p) for k, p in fd.parameters.items()
          if k not in ('*', '**') and not isinstance(p.value_type, yaqltypes.HiddenParameterType)]
    pos = sorted([kp for kp in ps if kp[1].position is not None], key=lambda kp: kp[1].position)
    return [p for _, p in pos] + [p for _, p in ps if p.position is None]


class Entry:
    """one definition as seen in a context of one convention"""
    def __init__(self, name, fd):
        self.name, self.fd = name, fd
        self.params = visible(fd)
        self.star = '*' in fd.parameters
        self.alias = {p.name: (p.alias or p.name) for p in self.params}
        self.lazy = {p.name for p in self.params if isinstance(p.value_type, yaqltypes.LazyParameterType)}
        self.optional = {p.name for p in self.params if p.default is not specs.NO_DEFAULT}

    def argnames(self, method):
        """python names of the parameters behind the receiver (method call) / of all parameters, by position"""
        return [p.name for p in self.params][1 if method else 0:]


class Spell:
    def __init__(self):
        self.roots = {c: make_root(c) for c in CONVS}
        self.defs = {c: greg.all_definitions(self.roots[c]) for c in CONVS}
        by_ident = {}
        for _, name, fd in self.defs['python']:
            by_ident.setdefault(_ident(fd), []).append((name, fd))
        self.table = {}         # (camel name, index among the camel definitions of that name) -> {conv: Entry}
        self.names = {}         # camel name -> python-convention name (function names in expression text)
        count = {}
        for _, name, fd in self.defs['camel']:
            i = count.get(name, 0)
            count[name] = i + 1
            cands = by_ident.get(_ident(fd), [])
            pick = [c for c in cands if c[0] == name] or [c for c in cands if greg.to_camel(c[0]) == name] or cands
            pick = [c for c in pick if list(c[1].parameters) == list(fd.parameters)] or pick
            if not pick:
                continue
            self.table[(name, i)] = {'camel': Entry(name, fd), 'python': Entry(pick[0][0], pick[0][1])}
            if name[:1].isalpha():
                self.names.setdefault(name, pick[0][0])

    def entry(self, conv, name, method=None, has=(), first=None):
        """the definition registered under the camelCase `name` (a method / a function, having the parameters `has`,
        `first` being its first one)"""
        i = 0
        while (name, i) in self.table:
            e = self.table[(name, i)][conv]
            if (method is None or (e.fd.is_method if method else e.fd.is_function)) and \
                    all(h in e.alias for h in has) and (first is None or e.params and e.params[0].name == first):
                return e
            i += 1
        raise KeyError((name, method, has, first))

    def lazy_parameters(self):
        """[(camel name, python parameter name, has a keyword spelling)] over the whole library"""
        out = []
        for (name, i), e in sorted(self.table.items()):
            for p in e['camel'].params:
                if p.name in e['camel'].lazy:
                    out.append((name, p.name, name[:1].isalpha() and not e['camel'].fd.no_kwargs))
            if '*' in e['camel'].fd.parameters and isinstance(e['camel'].fd.parameters['*'].value_type,
                                                              yaqltypes.LazyParameterType):
                out.append((name, '*', False))
        return out

    _call = re.compile(r'(?<![\w$#\'])([A-Za-z_]\w*)\(')

    def convert(self, text, conv):
        """the expression `text` (written for the default camelCase convention) as written under `conv`: the names of
        the called library functions are translated (keyword names are put in by `call`)"""
        if conv == 'camel':
            return text
        return self._call.sub(lambda m: self.names.get(m.group(1), m.group(1)) + '(', text)


def spelling(rng, entry, names, present, allow_kw=True):
    """a way to write the arguments `names` (python parameter names in positional order; `present[i]` False for an
    optional one that is left out): -> dict(npos=number written positionally, kw=[names written by keyword, in the
    order written]); the grammar wants the keyword arguments behind the positional ones"""
    n = len(names)
    gap = present.index(False) if False in present else n
    if not allow_kw or entry.fd.no_kwargs:
        if gap < n and any(present[gap:]):
            raise ValueError('arguments behind a gap need keywords')
        return dict(npos=gap, kw=[])
    r = rng.random()
    if r < 0.4:
        npos = gap
    elif r < 0.6:
        npos = 0
    else:
        npos = rng.randrange(0, gap + 1)
    kw = [nm for i, nm in enumerate(names) if i >= npos and present[i]]
    if rng.random() < 0.5:
        rng.shuffle(kw)
    return dict(npos=npos, kw=kw)


def write_args(entry, names, texts, sp):
    """the argument list: `texts[i]` for parameter `names[i]` (None = left out) under the spelling `sp`"""
    pos = [texts[i] for i in range(sp['npos'])]
    kw = ['%s => %s' % (entry.alias[nm], texts[names.index(nm)]) for nm in sp['kw']]
    return ', '.join(pos + kw)


def eager_order(names, sp):
    """the order in which the arguments are evaluated if they are eager: positional ones left to right, then the
    keyword ones in source order"""
    return list(names[:sp['npos']]) + list(sp['kw'])
