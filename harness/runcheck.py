"""Entry point behind /verif/check: build -> audit -> correspondence -> search -> evidence."""
import argparse
import importlib
import json
import os
import sys
import time
import traceback

sys.path.insert(0, os.path.dirname(os.path.abspath(__file__)))
import common  # noqa: E402
from common import log  # noqa: E402


def main():
    ap = argparse.ArgumentParser()
    ap.add_argument('prop')
    ap.add_argument('--tier', default=os.environ.get('VERIF_TIER', 'quick'), choices=['quick', 'thorough'])
    ap.add_argument('--replay', default=None)
    ap.add_argument('--no-build', action='store_true', help='skip lake build (development only)')
    args = ap.parse_args()
    pid = args.prop.upper()
    seed = int(os.environ.get('VERIF_SEED', '0') or 0)
    t0 = time.time()
    os.chdir(common.ROOT)
    mod = importlib.import_module('props.' + pid.lower())
    dirty_before = common.repo_dirty()

    broken = []          # proof obligations / ties that no longer check
    # 1. regenerate Gen/* from the live repo (translator)
    gen_info = {}
    if hasattr(mod, 'generate'):
        try:
            gen_info = mod.generate() or {}
        except Exception as e:  # translator cannot read the code any more
            broken.append('translator failed: %r' % (e,))
            log(traceback.format_exc())
        # a translator that could produce only part of its output says so here (harness/srcobl.py: a source
        # function that no longer translates): each entry is a proof obligation that no longer checks
        broken += list(gen_info.pop('_broken', None) or [])

    # 2. build the proofs and the driver
    targets = list(mod.LEAN_MODULES) + ['yaqlmodel']
    build_ok, build_out = (True, '') if args.no_build else common.lake_build(targets)
    per_target = {}
    if not build_ok:
        log(build_out[-6000:])
        # find out which targets are broken (the driver may still be fine)
        for t in targets:
            ok, out = common.lake_build([t])
            per_target[t] = ok
            if not ok:
                broken.append('lake build %s failed' % t)
    driver_ok = per_target.get('yaqlmodel', True) and os.path.exists(common.DRIVER)

    # 3. axiom / sorry audit over every theorem of the property
    good_modules = [m for m in mod.LEAN_MODULES if per_target.get(m, True)]
    aud = common.audit(pid, good_modules) if good_modules else dict(theorems={}, bad=[], forbidden=[], sources=[])
    for b in aud['bad']:
        broken.append('axiom audit: ' + b)
    for f in aud['forbidden']:
        broken.append('forbidden token: ' + f)
    have = set(aud['theorems'])
    for req in getattr(mod, 'REQUIRED_THEOREMS', []):
        if req not in have:
            broken.append('required theorem missing: ' + req)
    obligations = len(set(getattr(mod, 'REQUIRED_THEOREMS', [])) | have)
    discharged = len([n for n, ax in aud['theorems'].items()
                      if ax is not None and set(ax) <= common.ALLOWED_AXIOMS])
    if aud['forbidden']:
        discharged = 0

    # 3b. thorough tier: independent re-check of the compiled proofs with leanchecker
    leanchecker = None
    if args.tier == 'thorough' and good_modules:
        import subprocess
        try:
            p = subprocess.run(['lake', 'env', 'leanchecker'] + good_modules, cwd=common.LEAN, stdout=subprocess.PIPE,
                               stderr=subprocess.STDOUT, text=True, timeout=3000)
            leanchecker = dict(rc=p.returncode, modules=good_modules, out=p.stdout[-500:])
            if p.returncode != 0:
                broken.append('leanchecker rejected %s: %s' % (good_modules, p.stdout[-300:]))
        except Exception as e:  # noqa
            leanchecker = dict(rc=None, error=repr(e))

    # 4. correspondence + oracle on the real code
    env = dict(tier=args.tier, seed=seed, driver=None, replay=args.replay, broken=list(broken), gen=gen_info)
    res = common.Result()
    drv = None
    try:
        if driver_ok:
            drv = common.Driver()
            env['driver'] = drv
        else:
            broken.append('model driver unavailable')
        r = mod.run(env, res)
        if r is not None:
            res = r
    except Exception as e:
        log(traceback.format_exc())
        if not any(f.kind == 'oracle' for f in res.failures):
            print('HARNESS-ERROR property=%s %r' % (pid, e))
            sys.exit(2)
        # the harness broke AFTER the property's oracle had failed on the real code (typically while shrinking or
        # explaining the failure): the failing inputs found so far are reported, the error is named in the evidence
        res.extra['harness_error_after_failures'] = repr(e)
    finally:
        if drv:
            drv.close()

    # 5. verdict
    known = [k for k in common.known_findings() if k['property'] == pid and k.get('status') == 'known']
    violations = []
    known_hit = {}
    for f in res.failures:
        k = next((k for k in known if k['key'] == f.key), None)
        if k is not None and f.kind == 'oracle':
            known_hit.setdefault(k['key'], (k, f))
        else:
            violations.append(f)
    oracle_v = [f for f in violations if f.kind == 'oracle']
    mism_v = [f for f in violations if f.kind == 'mismatch']
    os.makedirs(os.path.join(common.ROOT, 'replays'), exist_ok=True)
    lines = []
    exit_code = 0
    for k, f in known_hit.values():
        lines.append('KNOWN-FINDING: property=%s %s' % (pid, k['what']))

    def write_replay(payload):
        path = os.path.join(common.ROOT, 'replays', '%s-%s.json' % (pid, common.digest(payload)))
        json.dump(payload, open(path, 'w'), indent=1, default=repr)
        return path

    if oracle_v:
        f = oracle_v[0]
        path = write_replay(dict(property=pid, kind='failing-input', what=f.what, case=f.replay,
                                 also=[g.what for g in oracle_v[1:10]],
                                 broken_obligations=broken,
                                 rerun='./check %s --replay <this file>' % pid))
        lines.append('VIOLATION property=%s replay=%s' % (pid, path))
        exit_code = 1
    elif mism_v or broken:
        what = ([f.what for f in mism_v[:10]] + broken)
        payload = dict(property=pid, kind='unchecked', no_longer_checks=what,
                       case=mism_v[0].replay if mism_v else None,
                       note='no input on which the property itself fails was found on the real code; '
                            'the named theorem/correspondence no longer checks')
        path = write_replay(payload)
        lines.append('VIOLATION property=%s replay=%s no-failing-input-found' % (pid, path))
        exit_code = 1

    # 6. evidence
    cov = dict(
        obligations=max(obligations, 1), discharged=discharged,
        checker_cmd='cd lean && lake build %s && lake env lean Yaql/Audit/%s.lean  (#print axioms on every theorem)' % (
            ' '.join(mod.LEAN_MODULES), pid),
        trusted_base=['Lean 4.33.0 kernel', 'axioms: ' + ', '.join(sorted(common.ALLOWED_AXIOMS)),
                      'hand-written model ' + ', '.join(aud.get('sources', [])),
                      'correspondence harness harness/props/%s.py' % pid.lower()] + list(getattr(mod, 'TRUSTED', [])),
        theorems={n: ax for n, ax in aud['theorems'].items()},
        evaluations=res.evaluations, distinct_nontrivial=len(res.distinct), rule=res.rule,
        samples=res.samples or ['(none)'], traces_validated_against_impl=res.traces,
        broken_obligations=broken, known_findings_hit=sorted(known_hit), leanchecker=leanchecker,
    )
    cov.update(res.extra)
    cov.update({('gen_' + k): v for k, v in gen_info.items()})
    ev = dict(property_id=pid, tier=args.tier, seed=seed, level='proof', coverage=cov,
              assumptions=list(getattr(mod, 'ASSUMPTIONS', [])) + res.assumptions,
              wall_s=round(time.time() - t0, 2), violations=len(violations) + (1 if broken and not violations else 0))
    # runs against a scratch checkout (YAQL_REPO) must not overwrite the evidence of /repo
    evdir = os.path.join(common.ROOT, 'evidence') if common.REPO == '/repo' else os.path.join(common.ROOT, 'replays', 'scratch-evidence')
    os.makedirs(evdir, exist_ok=True)
    json.dump(ev, open(os.path.join(evdir, pid + '.json'), 'w'), indent=1, default=repr)

    dirty_after = common.repo_dirty()
    if dirty_after != dirty_before:
        print('HARNESS-ERROR property=%s the run changed /repo: %s' % (pid, dirty_after))
        sys.exit(2)
    for ln in lines:
        print(ln)
    print('%s %s tier=%s seed=%d theorems=%d/%d cases=%d distinct=%d wall=%.1fs' % (
        pid, 'OK' if exit_code == 0 else 'FAIL', args.tier, seed, discharged, obligations,
        res.evaluations, len(res.distinct), time.time() - t0))
    sys.exit(exit_code)


if __name__ == '__main__':
    main()
