"""Development aid (round 5: C04 mixed collections / how the data enters, C09 state hidden in registered functions, C10
lazily built host documents): applies each hand-written mutant to a scratch worktree of /repo, runs yaql's own tests
and the named check against it.
usage: dev_mutants_r5eval.py [--notests] [names...]"""
import json
import os
import re
import subprocess
import sys

ROOT = os.path.dirname(os.path.dirname(os.path.abspath(__file__)))
WT = '/tmp/wr-r5eval'
Q = 'yaql/standard_library/queries.py'
C = 'yaql/language/contexts.py'
E = 'yaql/language/expressions.py'
U = 'yaql/language/utils.py'
R = 'yaql/standard_library/regex.py'
Y = 'yaql/__init__.py'
ATTR = "    return map(lambda t: operator(t, attribute), collection)\n"
MUTANTS = {
    # ---- C04, per-element dispatch over collections of mixed element kinds
    # "fast path": the kind of the FIRST element decides how all of them are projected
    'm1-member-kind-of-first-element': ('C04', [(Q, ATTR,
        "    items = list(collection)\n    if items and isinstance(items[0], utils.MappingType):\n"
        "        return iter([t[attribute] if isinstance(t, utils.MappingType) else t[0][attribute] for t in items])\n"
        "    return map(lambda t: operator(t, attribute), items)\n")]),
    # the projection of a nested collection is spliced into the outer one
    'm2-member-flattens-nested': ('C04', [(Q, ATTR,
        "    def gen():\n        for t in collection:\n            r = operator(t, attribute)\n"
        "            if utils.is_iterator(r):\n                yield from r\n            else:\n                yield r\n"
        "    return gen()\n")]),
    # a nested collection is assumed to hold dictionaries only (one level)
    'm3-member-one-level': ('C04', [(Q, ATTR,
        "    return map(lambda t: [x[attribute] for x in t] if utils.is_sequence(t) else operator(t, attribute), collection)\n")]),
    # ---- C04, how the data enters / host context chains
    # the parent walk of a variable lookup gives up after 5 contexts
    'm4-lookup-depth-limit': ('C04', [(C, "            return self._data[name]\n        ctx = self.parent\n        while ask_parent and ctx:\n            result = ctx.get_data(name, utils.NO_VALUE, False)\n",
                                       "            return self._data[name]\n        ctx = self.parent\n        hops = 0\n        while ask_parent and ctx and hops < 5:\n            hops += 1\n            result = ctx.get_data(name, utils.NO_VALUE, False)\n")]),
    # evaluate() without data resets `$` on the context it is given
    'm5-evaluate-without-data-resets-dollar': ('C04', [(E, "            else:\n                context['$'] = data\n        return self(utils.NO_VALUE, context, self.engine)\n",
                                                       "            else:\n                context['$'] = data\n        else:\n            context['$'] = None\n        return self(utils.NO_VALUE, context, self.engine)\n")]),
    # contexts that carry functions are skipped when a variable is looked up ("library layers hold no data")
    'm6-lookup-skips-function-layers': ('C04', [(C, "            return self._data[name]\n        ctx = self.parent\n        while ask_parent and ctx:\n            result = ctx.get_data(name, utils.NO_VALUE, False)\n",
                                                "            return self._data[name]\n        ctx = self.parent\n        while ask_parent and ctx:\n            result = utils.NO_VALUE if getattr(ctx, '_functions', None) else ctx.get_data(name, utils.NO_VALUE, False)\n")]),
    # create_context(data=..) binds the document under another name
    'm7-create_context-binds-data-as-$0': ('C04', [(Y, "        context['$'] = utils.convert_input_data(data)\n    return context\n",
                                                   "        context['$0'] = utils.convert_input_data(data)\n    return context\n")]),
    # ---- C09, state hidden inside registered functions
    # distinct() keeps its set of seen keys in the module
    'm8-distinct-module-level-seen': ('C09', [(Q, "    distinct_values = set()\n    for t in collection:\n        key = t if key_selector is None else key_selector(t)\n",
                                              "    distinct_values = _SEEN\n    for t in collection:\n        key = t if key_selector is None else key_selector(t)\n"),
                                             (Q, "class OrderingIterable(utils.IterableType):\n", "_SEEN = set()\n\n\nclass OrderingIterable(utils.IterableType):\n")]),
    # regex() caches compiled patterns by the pattern text alone (flags of the first call stick)
    'm9-regex-cache-ignores-flags': ('C09', [(R, "    return re.compile(pattern, flags)\n",
                                             "    if pattern not in _COMPILED:\n        _COMPILED[pattern] = re.compile(pattern, flags)\n    return _COMPILED[pattern]\n"),
                                            (R, "REGEX_TYPE = type(re.compile('.'))\n", "REGEX_TYPE = type(re.compile('.'))\n_COMPILED = {}\n")]),
    # memorize() shares one buffer of yielded items between all memorized sequences
    'm10-memorize-shared-buffer': ('C09', [(U, "    yielded = []\n\n    class RememberingIterator:\n", "    yielded = _YIELDED\n\n    class RememberingIterator:\n"),
                                          (U, "def memorize(collection, engine):\n", "_YIELDED = []\n\n\ndef memorize(collection, engine):\n")]),
    # orderBy's comparison count is kept on the class and, past a threshold, sorting is skipped ("already sorted recently")
    'm11-orderby-class-level-sorted-flag': ('C09', [(Q, "    def do_sort(outer_self):\n", "    _sorted_once = []\n\n    def do_sort(outer_self):\n        if OrderingIterable._sorted_once:\n            outer_self.sorted = list(outer_self.collection)\n            return\n        OrderingIterable._sorted_once.append(1)\n")]),
    # ---- C10, lazily built host documents
    # convert_input_data keeps the frozen form of every dict by id() for the duration of the outermost call
    'm12-convin-dict-cache-by-id': ('C10', [(U, "    elif isinstance(obj, MappingType):\n        return FrozenDict((rec(key, rec), rec(value, rec))\n                          for key, value in obj.items())\n    elif isinstance(obj, MutableSetType):\n        return frozenset(rec(t, rec) for t in obj)\n    elif isinstance(obj, IterableType):\n        return map(lambda v: rec(v, rec), obj)\n",
                                            "    elif isinstance(obj, MappingType):\n        hit = _FROZEN.get(id(obj))\n        if hit is None:\n            hit = _FROZEN[id(obj)] = FrozenDict((rec(key, rec), rec(value, rec))\n                                                for key, value in obj.items())\n            if len(_FROZEN) > 64:\n                _FROZEN.clear()\n        return hit\n    elif isinstance(obj, MutableSetType):\n        return frozenset(rec(t, rec) for t in obj)\n    elif isinstance(obj, IterableType):\n        return map(lambda v: rec(v, rec), obj)\n"),
                                           (U, "def convert_input_data(obj, rec=None):\n", "_FROZEN = {}\n\n\ndef convert_input_data(obj, rec=None):\n")]),
    # the items of a generic iterable are converted through a one-slot memo "same object as last time"
    'm13-convin-last-item-memo': ('C10', [(U, "    elif isinstance(obj, IterableType):\n        return map(lambda v: rec(v, rec), obj)\n",
                                          "    elif isinstance(obj, IterableType):\n        last = [None, None]\n\n        def conv(v):\n            if id(v) != last[0] or isinstance(v, (str, int, float, type(None))):\n                last[0], last[1] = id(v), rec(v, rec)\n            return last[1]\n        return map(conv, obj)\n")]),
    # a one-shot iterable handed to create_context(data=..) is looked at first ("is it empty?")
    'm14-create_context-peeks-iterators': ('C10', [(Y, "    if data is not utils.NO_VALUE:\n        context['$'] = utils.convert_input_data(data)\n    return context\n",
                                                   "    if data is not utils.NO_VALUE:\n        if utils.is_iterator(data) and next(data, None) is None:\n            data = ()\n        context['$'] = utils.convert_input_data(data)\n    return context\n")]),
}


def sh(cmd, **kw):
    return subprocess.run(cmd, shell=True, stdout=subprocess.PIPE, stderr=subprocess.STDOUT, text=True, **kw)


def apply(n):
    sh('git -C /repo worktree remove --force %s' % WT)
    r = sh('git -C /repo worktree add --detach %s HEAD' % WT)
    assert r.returncode == 0, r.stdout
    for f, old, new in MUTANTS[n][1]:
        p = os.path.join(WT, f)
        s = open(p).read()
        if s.count(old) != 1:
            print(n, 'PATTERN COUNT', s.count(old), repr(old[:60]))
            return False
        open(p, 'w').write(s.replace(old, new))
    return True


def main():
    args = sys.argv[1:]
    notests = '--notests' in args
    names = [a for a in args if not a.startswith('--')] or list(MUTANTS)
    for n in names:
        if not apply(n):
            continue
        check = MUTANTS[n][0]
        t = 'skipped' if notests else sh('cd %s && /venv/bin/python -W ignore -m pytest -q -x -p no:cacheprovider yaql/tests 2>&1 | tail -1' % WT).stdout.strip()
        c = sh('cd %s && YAQL_REPO=%s ./check %s --tier quick 2>&1 | grep -v "^WARNING\\|^KNOWN" | tail -3' % (ROOT, WT, check))
        print('== %s | yaql tests: %s' % (n, t))
        print(c.stdout.strip()[:600])
        m = re.search(r'replay=(\S+)', c.stdout)
        if m:
            r = json.load(open(m.group(1)))
            print('   ', (r.get('what') or str(r.get('no_longer_checks'))[:400])[:900])
        sys.stdout.flush()
    sh('git -C /repo worktree remove --force %s' % WT)


if __name__ == '__main__':
    main()
