"""prints the prompt for an independent seeding agent: property text only + scratch worktree (nothing about /verif's machinery)"""
import json, os, sys, glob
ROOT = os.path.dirname(os.path.dirname(os.path.abspath(__file__)))
pid, rnd, n = sys.argv[1], sys.argv[2], int(sys.argv[3])
prop = next(json.loads(l) for l in open(os.path.join(ROOT, 'properties.jsonl')) if json.loads(l)['id'] == pid)
taken = []
for d in sorted(glob.glob(os.path.join(ROOT, 'seeded', '*')) + glob.glob(os.path.join(ROOT, 'seeded', '_incoming', '*'))):
    mp = os.path.join(d, 'meta.json')
    if os.path.exists(mp):
        m = json.load(open(mp))
        if m.get('property') == pid and m.get('title'):
            taken.append(m['title'])
wt = '/tmp/seedwt-%s-%s' % (pid, rnd)
out = '/tmp/seedout/%s-%s' % (pid, rnd)
print('''You are testing how good a (separately built, hidden from you) verification check for one semantic property of the Python library openstack/yaql is. Your job: write %(n)d DIFFERENT realistic code changes to yaql that each BREAK the property below, while yaql still imports and its whole existing test suite still passes. You work only in your own scratch git worktree `%(wt)s` (a worktree of the repository, already created for you, at the current HEAD). Do not look at or touch `/verif` or `/repo` (other than through your worktree); no network is available.

## The property (%(pid)s)

%(prop)s

## What makes a good change

* It is the kind of edit a maintainer could plausibly make (a refactoring, an optimisation, a "clean-up", a bug fix with a side effect, a new fast path, a cache) - not sabotage with an obvious marker, not a change that ordinary use exposes at once.
* It needs something specific to manifest: a particular interleaving, a multi-step sequence of operations, an unusual input or boundary value, a particular nesting of constructs, a particular configuration, or two cooperating sites that each look fine alone.
* It clearly violates the property as stated (statement + quantifier), not merely some neighbouring behaviour.
* The existing test suite passes with it: run `cd %(wt)s && PYTHONPATH=%(wt)s /venv/bin/python -m pytest -q -p no:cacheprovider yaql/tests` (366 tests; about 6 s). Use `/venv/bin/python` with `PYTHONPATH=%(wt)s` and a cwd outside the worktree whenever you run code, so that the worktree's yaql is the one imported (check `yaql.__file__`). Do not edit the tests. Do not leave generated files (e.g. parser.out, parsetab) modified unless the change really needs it.
* Earlier changes (listed below) mostly edited the anchored functions directly. Prefer something they did not try: an indirect path to the same behaviour (another public API entry point such as YaqlInterface / yaql.eval / engine.copy / legacy mode / delegates / another context class or naming convention / method vs function call form), state that survives between two uses, a fast path or cache keyed too coarsely, an interaction of two features, or a boundary value of a configuration option.
* Further directions worth considering: behaviour under non-default engine options or their boundary values; error paths (an exception raised half-way that leaves state behind for the next use); re-entrancy (an expression evaluated from inside a host function that another expression is calling); objects that live longer than one evaluation (engines, contexts, statements, compiled regexes, definitions shared between contexts); differences between equal-looking values (tuple vs list, dict vs frozen dict, bool vs int, generator vs list); library functions that reach the anchored code indirectly.
* Changes already written by others for this property - do something different in mechanism and location:
%(taken)s

## Deliverables, per change k = 1..%(n)d, in directory `%(out)s-<k>/`

* `patch.diff`: `git -C %(wt)s diff` of that change alone against HEAD (reset the worktree with `git -C %(wt)s checkout -- . && git -C %(wt)s clean -fdq` between changes; each patch must apply on a clean HEAD with `git apply`).
* `demo.py`: a small standalone program (imports yaql from PYTHONPATH, runs with cwd=/tmp, no arguments, deterministic, < 60 s) that exits 0 and prints `ok` on the UNCHANGED code and exits 1 with a short explanation when the change is applied. Verify both yourself.
* `meta.json`: {"property": "%(pid)s", "title": one line, "what_it_breaks": ..., "needs_to_manifest": ..., "files": [...], "why_tests_pass": ...}.

Finish by resetting the worktree to a clean HEAD and reply with, per change, the title and the confirmation results (suite result line, demo exit codes with and without the change).''' % dict(
    n=n, wt=wt, pid=pid, out=out, prop=json.dumps({k: prop[k] for k in ('title', 'statement', 'quantifier', 'why_tests_cant', 'anchors')}, indent=1),
    taken='\n'.join('  - ' + t for t in taken) or '  (none yet)'))
