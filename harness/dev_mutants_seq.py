import subprocess, sys, os, re
WT = '/tmp/wr-seq'
Q = 'yaql/standard_library/queries.py'; C = 'yaql/standard_library/collections.py'; S='yaql/standard_library/system.py'
MUTANTS = {
 'M1-skipWhile-filter': (Q, "    return itertools.dropwhile(predicate, collection)", "    return filter(lambda t: not predicate(t), collection)"),
 'M2-indexOf-identity': (Q, "    for i, t in enumerate(collection):\n        if t == item:\n            return i\n    return -1", "    for i, t in enumerate(collection):\n        if t is item or (type(t) in (int, str, bool) and t == item):\n            return i\n    return -1"),
 'M3-sliceWhere-truthiness': (Q, "        if p2 != p1 and p1 is not utils.NO_VALUE:", "        if bool(p2) != bool(p1) and p1 is not utils.NO_VALUE:"),
 'M4-groupBy-sorted-keys': (Q, "        return select(groups.items(), new_aggregator)", "        try:\n            items = sorted(groups.items(), key=lambda kv: kv[0])\n        except TypeError:\n            items = groups.items()\n        return select(items, new_aggregator)"),
 'M6-iterInsert-ge': (C, "            yield value\n        yield t\n\n    if position > i:\n        yield value", "            yield value\n        yield t\n\n    if position >= i:\n        yield value"),
 'M7-splitWhere-trailing': (Q, "            start = end + 1\n        end += 1\n    if start != end:\n        yield lst[start:end]", "            start = end + 1\n        end += 1\n    yield lst[start:end]"),
 'M8-repeat-zero-endless': (Q, "    if times < 0:\n        return itertools.repeat(value)", "    if times <= 0:\n        return itertools.repeat(value)"),
 'M9-delete-negcount-offbyone': (C, "        elif count < 0 and not i >= position:", "        elif count < 0 and not i > position:"),
 'M10-orderBy-unstable-desc': (Q, "        outer_self.sorted = sorted(outer_self.collection, key=Comparator)", "        outer_self.sorted = sorted(outer_self.collection, key=Comparator)\n        if outer_self.order and not outer_self.order[0][1]:\n            outer_self.sorted = sorted(outer_self.collection, key=Comparator, reverse=False)[::1] if len(outer_self.order) > 1 else list(reversed(sorted(reversed(list(outer_self.sorted)), key=Comparator)))"),
 'M11-last-default-shadow': (Q, "    last_value = default\n    for t in collection:\n        last_value = t", "    last_value = default\n    for t in collection:\n        if t is not None:\n            last_value = t"),
 'M12-splitAt-negative': (Q, "    return [lst[:index], lst[index:]]", "    index = max(index, 0)\n    return [lst[:index], lst[index:]]"),
 'M13-intersect-as-difference-swap': (C, "    return left.symmetric_difference(right)", "    return left.union(right).difference(left.intersection(right)) if right else frozenset()"),
 'M14-takeWhile-readahead-drop': (Q, "    return itertools.takewhile(predicate, collection)", "    return (t for t in collection if predicate(t))"),
}
U = 'yaql/language/utils.py'
MUTANTS.update({
 'S1-select-listcomp': (Q, "    return map(selector, collection)", "    return [selector(t) for t in collection]"),
 'S2-where-materialise': (Q, "    return filter(predicate, collection)", "    return filter(predicate, tuple(collection))"),
 'S3-indexOf-full-scan': (Q, "    for i, t in enumerate(collection):\n        if t == item:\n            return i\n    return -1", "    index = -1\n    for i, t in enumerate(collection):\n        if t == item and index < 0:\n            index = i\n    return index"),
 'S4-takeWhile-readahead2': (Q, "    return itertools.takewhile(predicate, collection)", "    def gen():\n        it = iter(collection)\n        buf = list(itertools.islice(it, 2))\n        while buf:\n            t = buf.pop(0)\n            if not predicate(t):\n                return\n            yield t\n            buf.extend(itertools.islice(it, 1))\n    return gen()"),
 'S5-distinct-materialise': (Q, "    distinct_values = set()\n    for t in collection:", "    distinct_values = set()\n    for t in list(collection):"),
 'S6-any-eager': (Q, "    for t in collection:\n        if predicate is None or predicate(t):\n            return True\n    return False", "    return any([predicate is None or predicate(t) for t in collection])"),
 'S7-skip-slice-of-list': (Q, "    return itertools.islice(collection, count, None)", "    return iter(tuple(collection)[count:])"),
 'S8-first-via-list': (Q, "        return next(iter(collection))", "        return tuple(collection)[0] if True else next(iter(collection))"),
 'S9-join-outer-materialised': (Q, "    for self_item in collection1:", "    for self_item in tuple(collection1):"),
 'S10-memorize-prefetch': (U, "                val = next(self.seq)\n                yielded.append(val)", "                val = next(self.seq)\n                yielded.append(val)\n                yielded.extend(__import__('itertools').islice(self.seq, 2))"),
 'S11-where-double-application': (Q, "    return filter(predicate, collection)", "    return filter(lambda t: predicate(t) and predicate(t), collection)"),
 'S12-insert-buffered': (C, "    i = -1\n    for i, t in enumerate(collection):\n        if i == position:\n            yield value\n        yield t\n\n    if position > i:\n        yield value", "    i = -1\n    items = list(collection)\n    for i, t in enumerate(items):\n        if i == position:\n            yield value\n        yield t\n\n    if position > i:\n        yield value"),
 'S13-slice-double-chunk': (Q, "        res = to_list(itertools.islice(collection, length))", "        res = to_list(itertools.islice(collection, 2 * length))[:length]"),
 'S14-all-no-shortcircuit': (Q, "    for t in collection:\n        if not predicate(t):\n            return False\n    return True", "    result = True\n    for t in collection:\n        if not predicate(t):\n            result = False\n    return result"),
})
def sh(cmd, **kw):
    return subprocess.run(cmd, shell=True, stdout=subprocess.PIPE, stderr=subprocess.STDOUT, text=True, **kw)
names = sys.argv[2:] or list(MUTANTS)
prop = sys.argv[1]
for n in names:
    sh('git -C /repo worktree remove --force %s' % WT)
    sh('git -C /repo worktree add --detach %s HEAD' % WT)
    if n == 'M5-unpack-revert':
        r = sh('cd %s && git apply -R /dev/null; git -C %s show 31741af | git -C %s apply -R' % (WT, WT, WT))
    else:
        f, old, new = MUTANTS[n]
        p = os.path.join(WT, f)
        s = open(p).read()
        if s.count(old) != 1:
            print(n, 'PATTERN COUNT', s.count(old)); continue
        open(p, 'w').write(s.replace(old, new))
    t = sh('cd %s && /venv/bin/python -W ignore -m pytest -q -x yaql/tests 2>&1 | tail -1' % WT)
    c = sh('cd /tmp/wv/seq && YAQL_REPO=%s ./check %s --tier quick 2>&1 | tail -2' % (WT, prop))
    print('== %s | yaql tests: %s' % (n, t.stdout.strip()))
    print(c.stdout.strip())
    m = re.search(r'replay=(\S+)', c.stdout)
    if m:
        import json
        r = json.load(open(m.group(1)))
        print('   ', (r.get('what') or str(r.get('no_longer_checks'))[:300])[:300])
    sys.stdout.flush()
sh('git -C /repo worktree remove --force %s' % WT)
