"""Development aid for C20: applies each small mutant of date_time.py in a scratch worktree of /repo (/tmp/wr-c20),
runs the repo tests and `./check C20 --tier quick` against it, prints one line per mutant.  usage: dev_c20_mutants.py [name-part ...]"""
import subprocess, sys, os, json, re
WT='/tmp/wr-c20'
F=WT+'/yaql/standard_library/date_time.py'
M = [
 ('M1-utc-keeps-zone', 'return dt.astimezone(UTCTZ)', 'return dt - dt.utcoffset()'),
 ('M2-timestamp-bare', '@specs.yaql_property(yaqltypes.DateTime())\ndef timestamp(dt):', '@specs.yaql_property(DATETIME_TYPE)\ndef timestamp(dt):'),
 ('M3-get_tz-whole-hours', 'return tz.tzoffset(None, seconds(offset))', 'return tz.tzoffset(None, int(seconds(offset)) // 3600 * 3600)'),
 ('M4-milliseconds-floor', 'return microseconds(timespan) / 1000.0', 'return microseconds(timespan) // 1000'),
 ('M5-minus-ignores-offsets', 'return dt1 - dt2', 'return dt1.replace(tzinfo=None) - dt2.replace(tzinfo=None)'),
 ('M6-lte-is-lt', 'return dt1 <= dt2', 'return dt1 < dt2'),
 ('M7-eq-right-bare', "@specs.name('*equal')\n@specs.parameter('dt1', yaqltypes.DateTime())\n@specs.parameter('dt2', yaqltypes.DateTime())", "@specs.name('*equal')\n@specs.parameter('dt1', yaqltypes.DateTime())\n@specs.parameter('dt2', DATETIME_TYPE)"),
 ('M8-microseconds-abs-days', 'return (86400000000 * timespan.days +', 'return (86400000000 * abs(timespan.days) +'),
 ('M9-fromtimestamp-offset-not-applied', 'return DATETIME_TYPE.fromtimestamp(timestamp, tz=zone)', 'return DATETIME_TYPE.fromtimestamp(timestamp, tz=UTCTZ).replace(tzinfo=zone)'),
 ('M10-replace-truthy-microsecond', 'if microsecond is not None:', 'if microsecond:'),
 ('M11-mul-truncates', 'return TIMESPAN_TYPE(microseconds=(microseconds(left) * right))', 'return TIMESPAN_TYPE(microseconds=int(microseconds(left) * right))'),
 ('M12-neg-keeps-seconds', 'return -ts', 'return TIMESPAN_TYPE(-ts.days, ts.seconds, ts.microseconds)'),
 ('M13-date-drops-zone', 'year=dt.year, month=dt.month, day=dt.day, tzinfo=dt.tzinfo)', 'year=dt.year, month=dt.month, day=dt.day, tzinfo=UTCTZ)'),
 ('M14-plus-left-bare', "@specs.name('#operator_+')\n@specs.parameter('left', yaqltypes.DateTime())", "@specs.name('#operator_+')\n@specs.parameter('left', DATETIME_TYPE)"),
 ('M15-timestamp-from-wall', 'return (utc(dt) - DATETIME_TYPE(1970, 1, 1, tzinfo=UTCTZ)).total_seconds()', 'return (dt.replace(tzinfo=UTCTZ) - DATETIME_TYPE(1970, 1, 1, tzinfo=UTCTZ)).total_seconds()'),
 ('M16-gt-swapped-naive', "@specs.name('#operator_>')\n@specs.parameter('dt1', yaqltypes.DateTime())\n@specs.parameter('dt2', yaqltypes.DateTime())", "@specs.name('#operator_>')\n@specs.parameter('dt1', yaqltypes.DateTime())\n@specs.parameter('dt2', DATETIME_TYPE)"),
]
only = sys.argv[1:]
subprocess.run(['git','-C','/repo','worktree','remove','--force',WT], capture_output=True)
subprocess.run(['git','-C','/repo','worktree','add','--detach',WT,'HEAD'], check=True, capture_output=True)
orig=open(F).read()
res={}
try:
    for name, a, b in M:
        if only and not any(o in name for o in only): continue
        assert orig.count(a) >= 1, name
        open(F,'w').write(orig.replace(a, b, 1))
        t = subprocess.run(['/venv/bin/python','-m','pytest','-q','-x','-p','no:cacheprovider','yaql/tests'], cwd=WT, capture_output=True, text=True, env=dict(os.environ, PYTHONPATH=WT))
        tests = t.stdout.strip().splitlines()[-1] if t.stdout.strip() else t.stderr[-200:]
        r = subprocess.run(['./check','C20','--tier','quick'], cwd=os.path.dirname(os.path.dirname(os.path.abspath(__file__))), capture_output=True, text=True, env=dict(os.environ, YAQL_REPO=WT))
        lines=[l for l in r.stdout.splitlines() if l.startswith(('VIOLATION','C20','HARNESS','KNOWN'))]
        what=''
        for l in lines:
            if 'replay=' in l:
                rp=json.load(open(l.split('replay=')[1].split()[0]))
                what=str(rp.get('what') or rp.get('no_longer_checks'))[:300]
        print(name, '| tests:', tests, '| rc', r.returncode, lines[:1], '\n     ', what, flush=True)
finally:
    open(F,'w').write(orig)
    subprocess.run(['git','-C','/repo','worktree','remove','--force',WT], capture_output=True)
